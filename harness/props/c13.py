"""C13 — Every child-schema instance is a valid parent-schema instance.

Lean: Model/Codec.lean (accepts/decode/encode), Model/Subtype.lean (isSubtype mirroring
util/typing.is_subtype + runtype's canonical `<=`, class construction rules of SchemaMagic,
checkTypes / checkOverrides), Proofs/Subtype*.lean, Props/C13.lean; driver drv_cod.

Case kinds
  sub  real `is_subtype` vs model `isSubtype` on ordered pairs of grammar types over a class
       table; oracle: a value the left type accepts whose serialisation the right type rejects
       although `is_subtype` said yes.
  acc  pydantic validation of a single-field schema vs model `decode` on a boundary corpus.
  ovr  generated class families (chains of 2-4 classes, each a plugin (inner `Plugin` section)
       or a plain intermediate class; every class below the top may re-annotate the inherited
       field - declared with @override or not -, add required / Optional / defaulted fields and
       constants - also below a parent that forbids extras -, change the extra policy; nested
       schemas, decorators): class construction + `check_types` vs model; oracle: if
       `check_types` lets the family through, every generated instance of every reachable
       class must be accepted by each of its ancestors (child-accepts / ancestor-rejects
       witness otherwise); only fields whose override was explicitly declared by the class or
       by a class between it and that ancestor are exempt.
  pln  oracle only: override pairs with the plain builtins `str/int/float/bool` (pydantic's
       coercing validators + the schema Config's anystr limits; outside the Lean grammar) on
       either side: parent `f: b`, child `f: a`; if construction + `check_types` let the child
       through, every value it accepts must serialise to something the parent accepts.
  anc  installed schemas: every generated instance (json_dict()) parsed by every ancestor.
"""
import itertools
import json
import random

from .. import core, lean, pool
from . import schema_gen as G
from . import c12 as C12

ID = "C13"
MOD = "harness.props.c13"
T = "MetadorModel.C13."
LEAN = dict(
    modules=["MetadorModel.Props.C13"],
    theorems=[T + n for n in [
        "isSubtype_sound", "Sub_refl", "child_valid_in_parent", "child_in_Sub_parent", "undeclared_widening_refused",
        "checked_overrides_are_subtypes", "installedStrings_sound_except", "qualhashsum_not_subtype",
        "classTable_unsound_with_qualhashsum", "optional_not_subtype", "literal_subtype_iff", "literal_superset_not_subtype",
        "legacy_crash_breaks_union_subtype", "checkTypes_visits_ancestors", "intermediate_widening_refused", "declaration_not_inherited",
        "new_field_below_forbidding_parent_refused", "nested_literal_refused"]],
    drivers=["drv_cod"],
)

F12_SIG = "C13:phantom-subclass-non-included-pattern:QualHashsumStr<HashsumStr"
CONST_FORBID_SIG = "C13:const-field-under-forbidding-parent"
NEW_FIELD_FORBID_SIG = "C13:new-field-under-forbidding-parent"
NESTED_BLANK_LIT_SIG = "C13:blank-literal-nested-below-plain-str"


# ----------------------------------------------------------------------------- real code helpers
def _wrapper(F, ty, tag):
    """Single-field schema class `f: ty` inside the family's module."""
    from metador_core.schema import MetadataSchema

    ns = F.mod.__dict__
    name = "W%s%d" % (tag, len(ns))
    cls = type(MetadataSchema)(name, (MetadataSchema,), {"__module__": F.modname, "__qualname__": name, "__annotations__": {"f": G.to_hint(ty, ns)}})
    cls.update_forward_refs(**F.classes)
    return cls


def _accept(cls, v):
    """(accepted?, instance)"""
    try:
        return True, cls.parse_obj({"f": json.loads(json.dumps(v))})
    except Exception:
        return False, None


def _witness(F, a, b, rng, extra_vals=()):
    """A JSON input accepted by `f: a` whose serialised value `f: b` rejects."""
    Wa, Wb = _wrapper(F, a, "a"), _wrapper(F, b, "b")
    vals = list(extra_vals) + G.boundary_values(a, F.fam, rng)
    for _ in range(6):
        try:
            vals.append(G.gen_json(rng, a, F.fam, 2))
        except Exception:
            pass
    for v in vals:
        if v is G.OMIT:
            continue
        ok, o = _accept(Wa, v)
        if not ok:
            continue
        try:
            jd = o.json_dict()
        except Exception:
            continue
        if C12._has_nan(jd):
            continue
        try:
            Wb.parse_obj(jd)
        except Exception as e:
            return dict(input=v, serialised=jd.get("f", None), error=("%s: %s" % (type(e).__name__, e))[:200])
    return None


def impl(case):
    kind = case["kind"]
    out, oracle, tags = [], [], []
    if kind == "anc":
        return _impl_anc(case)
    if kind == "pln":
        return _impl_pln(case)
    from metador_core.util.typing import is_subtype

    if kind == "sub":
        F = G.Family(case["fam"])
        rng = random.Random(case.get("seed", 0))
        try:
            ns = F.mod.__dict__
            for a, b in case["pairs"]:
                try:
                    r = bool(is_subtype(G.to_hint(a, ns), G.to_hint(b, ns)))
                    out.append("T" if r else "F")
                except Exception as e:
                    out.append("E:%s" % type(e).__name__)
                    continue
                if r:
                    tags.append("subtype-yes")
                    if a != b:
                        tags.append("subtype-yes-proper")
                    w = _witness(F, a, b, rng)
                    if w:
                        oracle.append(dict(kind="subtype-unsound", sub=a, base=b, fam=case["fam"], **w))
                else:
                    tags.append("subtype-no")
        finally:
            F.close()
        return dict(out=out, oracle=oracle[:10], tags=sorted(set(tags)))
    if kind == "acc":
        F = G.Family(case["fam"])
        try:
            W = _wrapper(F, case["ty"], "v")
            for v in case["values"]:
                ok, o = _accept(W, v)
                if ok:
                    try:
                        out.append(G.pyval_str(o.f))
                        tags.append("accepted")
                    except ValueError:
                        out.append("*")
                else:
                    out.append("err")
                    tags.append("rejected")
        finally:
            F.close()
        return dict(out=out, oracle=[], tags=sorted(set(tags)))
    if kind == "ovr":
        return _impl_ovr(case)
    raise ValueError(kind)


def _impl_ovr(case):
    from pydantic import ValidationError

    from metador_core.schema.core import MetadataSchema, check_types

    out, oracle, tags = [], [], []
    fam = case["fam"]
    try:
        F = G.Family(fam)
    except (TypeError, ValueError) as e:
        return dict(out=["new:%s" % type(e).__name__], oracle=[], tags=["construction-refused"])
    try:
        out.append("new:ok")
        root = F.classes[case["root"]]
        try:
            check_types(root, recheck=True)
            out.append("check:ok")
            tags.append("check-ok")
        except (TypeError, ValueError) as e:
            out.append("check:%s" % type(e).__name__)
            tags.append("check-refused")
        if out[-1] == "check:ok":
            # oracle: every reachable class below a schema base accepts ... what its children produce
            rng = random.Random(case.get("seed", 0))
            reach = _reachable(fam, case["root"])
            for name in reach:
                chain = _ancestor_chain(fam, name)  # nearest first
                if not chain:
                    continue
                child = F.classes[name]
                tags.append("child-parent-checked")
                if len(chain) > 1:
                    tags.append("child-grandparent-checked")
                if not G.get_cd(fam, chain[0]).get("plugin") and any(G.get_cd(fam, a).get("plugin") for a in chain[1:]):
                    tags.append("unregistered-intermediate")
                insts = []
                for i in range(case.get("n_inst", 12)):
                    inp = G.gen_obj(rng, fam, name, 2)
                    try:
                        o = child.parse_obj(json.loads(json.dumps(inp)))
                    except (ValidationError, Exception):
                        continue
                    jd = o.json_dict()
                    if C12._has_nan(jd):
                        continue
                    insts.append((inp, jd))
                if insts:
                    tags.append("child-instances")
                # every ancestor, nearest first; the fields whose incompatible override was explicitly
                # declared (by the class itself or by a class between it and the ancestor) are exempt
                declared, below, hit = set(), name, False
                for anc in chain:
                    cdb = G.get_cd(fam, below)
                    if cdb.get("const_override"):
                        break  # explicitly declared replacement of a field by a constant
                    declared |= set(cdb.get("overrides", []))
                    if declared:
                        tags.append("declared-override")
                    parent = F.classes[anc]
                    for inp, jd in insts:
                        try:
                            parent.parse_obj(json.loads(json.dumps(jd)))
                        except Exception as e:
                            bad = _bad_fields(e)
                            if bad and bad <= declared:
                                continue  # only explicitly declared overrides are affected
                            oracle.append(dict(kind="child-instance-rejected-by-parent", child=name, parent=anc, input=inp, serialised=jd,
                                               fields=sorted(bad), error=("%s: %s" % (type(e).__name__, e))[:300], fam=fam, root=case["root"]))
                            hit = True
                            break
                    if hit:
                        break
                    below = anc
        # field level pairs (diagnostic tag only)
    finally:
        F.close()
    return dict(out=out, oracle=oracle[:5], tags=sorted(set(tags)))


def pln_family(a, b):
    """Parent `f: b`, child re-annotating `f: a` (both plugins, nothing declared)."""
    return [_cd("Ga", None, fields=[["f", b, None]], plugin=True), _cd("Ch", "Ga", fields=[["f", a, None]], plugin=True)]


def _impl_pln(case):
    """Oracle only (the plain builtins `str/int/float/bool` with pydantic's coercing validators are
    outside the Lean grammar): for each pair (a, b) the family Ga.f: b <- Ch.f: a; if class
    construction and `check_types` let it through, every value Ch accepts must serialise to
    something Ga accepts."""
    from metador_core.schema.core import check_types

    oracle, tags = [], []
    rng = random.Random(case.get("seed", 0))
    n_ok = 0
    for a, b in case["pairs"]:
        fam = pln_family(a, b)
        try:
            F = G.Family(fam)
        except (TypeError, ValueError):
            tags.append("construction-refused")
            continue
        try:
            Ch, Ga = F.classes["Ch"], F.classes["Ga"]
            try:
                check_types(Ch, recheck=True)
            except (TypeError, ValueError):
                tags.append("check-refused")
                continue
            tags.append("check-ok")
            if a != b:
                tags.append("check-ok-proper")
            n_ok += 1
            vals = G.boundary_values(a, fam, rng)
            for _ in range(6):
                try:
                    vals.append(G.gen_json(rng, a, fam, 2))
                except Exception:
                    pass
            for v in [G.OMIT] + vals:
                try:
                    inp = {} if v is G.OMIT else {"f": json.loads(json.dumps(v))}
                    o = Ch.parse_obj(json.loads(json.dumps(inp)))
                    jd = o.json_dict()
                except Exception:
                    continue
                if C12._has_nan(jd):
                    continue
                try:
                    Ga.parse_obj(json.loads(json.dumps(jd)))
                except Exception as e:
                    oracle.append(dict(kind="child-instance-rejected-by-parent", child="Ch", parent="Ga", input=inp, serialised=jd, fields=sorted(_bad_fields(e)),
                                       error=("%s: %s" % (type(e).__name__, e))[:300], fam=fam, root="Ch", sub=a, base=b))
                    break
        finally:
            F.close()
    return dict(out=None, oracle=oracle[:8], tags=sorted(set(tags)), n_ok=n_ok)


def _bad_fields(e):
    try:
        return {str(er["loc"][0]) for er in e.errors() if er.get("loc")} - {"__root__"}
    except Exception:
        return set()


def _ancestor_chain(fam, name):
    """Proper ancestors of a family class, nearest first."""
    out, p = [], G.get_cd(fam, name)["parent"]
    while p and p not in out:
        out.append(p)
        p = G.get_cd(fam, p)["parent"]
    return out


def _mentions(ty, acc):
    if ty[0] == "model":
        acc.add(ty[1])
    elif ty[0] in ("opt", "list", "set", "ann"):
        _mentions(ty[1], acc)
    elif ty[0] == "union":
        for t in ty[1]:
            _mentions(t, acc)
    return acc


def _reachable(fam, root):
    seen, todo = [], [root]
    while todo:
        n = todo.pop()
        if n in seen:
            continue
        seen.append(n)
        cd = G.get_cd(fam, n)
        if cd["parent"]:
            todo.append(cd["parent"])
        for f in G.eff_fields(fam, n):
            todo += sorted(_mentions(f[1], set()))
    return seen


def _impl_anc(case):
    from pydantic import ValidationError

    from metador_core.schema.core import MetadataSchema

    S = G.installed_schemas()[case["schema"]]
    ancestors = [c for c in S.__mro__[1:] if isinstance(c, type) and issubclass(c, MetadataSchema) and c is not MetadataSchema]
    rng = random.Random(case["seed"])
    oracle, tags, nvalid = [], [], 0
    explicit = case.get("inputs")
    for i in range(len(explicit) if explicit is not None else case["n"]):
        inp = explicit[i] if explicit is not None else G.gen_model_input(rng, S, case.get("depth", 2))
        o = None
        for attempt in range(8):
            try:
                o = S.parse_obj(json.loads(json.dumps(inp)))
                break
            except ValidationError as e:
                if explicit is not None or not G.repair_input(inp, e.errors()):
                    break
        if o is None:
            tags.append("gen-invalid")
            continue
        nvalid += 1
        try:
            jd = o.json_dict()
        except Exception:
            continue  # C12's business
        for A in ancestors:
            try:
                A.parse_obj(json.loads(json.dumps(jd)))
            except Exception as e:
                oracle.append(dict(kind="instance-rejected-by-ancestor", schema=case["schema"], ancestor=A.__name__, input=json.loads(json.dumps(inp)),
                                   fields=sorted(_bad_fields(e)), error=("%s: %s" % (type(e).__name__, e))[:300]))
                break
    tags.append("installed:%s:%d-ancestors" % (case["schema"], len(ancestors)))
    if ancestors:
        tags.append("has-ancestors")
    return dict(out=None, oracle=oracle[:5], tags=tags, nvalid=nvalid, ancestors=len(ancestors))


# ----------------------------------------------------------------------------- model lines
def fam_lines(fam):
    """`def` lines: the class table as *declared* (own annotations, parent, decorators)."""
    L = []
    for cd in fam:
        parts = ["def", cd["name"], cd["parent"] or "-", cd["extra"] or "-"]
        for f in cd["fields"]:
            d = "-" if f[2] is None else G.json_str(f[2]["v"])
            parts.append("fld(%s,%s,%s)" % (G.hx(f[0]), G.ty_str(f[1]), d))
        for k, v in cd["consts"]:
            parts.append("const(%s,%s)" % (G.hx(k), G.json_str(v)))
        for n in cd.get("overrides", []):
            parts.append("ovr(%s)" % G.hx(n))
        for n in cd.get("mandatory", []):
            parts.append("mand(%s)" % G.hx(n))
        if cd.get("const_override"):
            parts.append("constovr")
        L.append(" ".join(parts))
    return L


def _nf(strs):
    closure = set(strs)
    for k in G.OPAQUE:
        for s in strs:
            n = C12.NF.get(k, {}).get(s)
            if isinstance(n, str):
                closure.add(n)
    return G.nf_lines(C12.NF, closure)


def lines(case):
    kind = case["kind"]
    if kind == "sub":
        return fam_lines(case["fam"]) + ["build"] + ["sub %s %s" % (G.ty_str(a), G.ty_str(b)) for a, b in case["pairs"]]
    if kind == "acc":
        strs = G.strings_in(case["values"])
        for cd in case["fam"]:
            for f in cd["fields"]:
                if f[2] is not None:
                    G.strings_in(f[2]["v"], strs)
        return _nf(strs) + fam_lines(case["fam"]) + ["build"] + ["dec %s %s" % (G.ty_str(case["ty"]), G.json_str(v)) for v in case["values"]]
    if kind == "ovr":
        return fam_lines(case["fam"]) + ["build", "chk %s" % case["root"]]
    return []


def compare(case, ir, mo):
    kind = case["kind"]
    if kind == "anc":
        return None
    nf = len(fam_lines(case["fam"]))
    if kind == "sub":
        mo = mo[nf + 1:]
        return core.default_compare(case, ir, mo)
    if kind == "acc":
        mo = mo[len(mo) - len(case["values"]):]
        a = ir["out"]
        for i, (x, y) in enumerate(zip(a, mo)):
            if x == "*":
                continue
            if (x == "err") != y.startswith("err"):
                return "value %d (%s): acceptance differs: impl=%r model=%r" % (i, json.dumps(case["values"][i])[:80], x[:120], y[:120])
            if x != "err" and G.canon_term(x) != G.canon_term(y):
                return "value %d (%s): validated value differs: impl=%r model=%r" % (i, json.dumps(case["values"][i])[:80], G.canon_term(x)[:200], G.canon_term(y)[:200])
        return None
    if kind == "ovr":
        build, chk = mo[nf], mo[nf + 1]
        a = ir["out"]
        if a[0] != "new:ok":
            # class construction refused by the metaclass / decorators
            if build == "ok":
                return "construction: impl=%s model=ok" % a[0]
            return None
        if build != "ok":
            return "construction: impl=ok model=%s" % build
        if a[1] != chk:
            return "check_types: impl=%s model=%s" % (a[1], chk)
        return None
    return None


# ----------------------------------------------------------------------------- generators
def base_table(rng=None):
    """Class table used for subtype pairs: a small hierarchy of nested schemas."""
    I = ["int"]
    return [
        dict(name="Na", parent=None, extra=None, fields=[["x", ["opt", I], None]], consts=[], overrides=[], mandatory=[]),
        dict(name="Nb", parent="Na", extra=None, fields=[["y", ["opt", ["nes"]], None]], consts=[], overrides=[], mandatory=[]),
        dict(name="Nc", parent="Nb", extra=None, fields=[["x", I, None]], consts=[], overrides=[], mandatory=[]),
        dict(name="Nd", parent=None, extra="forbid", fields=[["id", ["nes"], None]], consts=[], overrides=[], mandatory=[]),
    ]


MODELS = ["Na", "Nb", "Nc", "Nd"]


def narrow(rng, ty, depth=2):
    """A type that should be accepted as an override of `ty` (mostly)."""
    k = ty[0]
    r = rng.random()
    if k == "opt":
        return ty[1] if r < 0.5 else ["opt", narrow(rng, ty[1], depth - 1)]
    if k == "union":
        if r < 0.5 and len(ty[1]) > 1:
            alts = [t for t in ty[1]]
            del alts[rng.randrange(len(alts))]
            return alts[0] if len(alts) == 1 else ["union", alts]
        i = rng.randrange(len(ty[1]))
        alts = list(ty[1])
        n = narrow(rng, alts[i], depth - 1)
        if n[0] not in ("opt", "union") and n not in alts:
            alts[i] = n
        return ["union", alts]
    if k in ("list", "set"):
        return [k, narrow(rng, ty[1], depth - 1)]
    if (k in G.STRLIKE or k in ("int", "bool")) and r < 0.25:
        # a Literal over a plain / constrained type: values from the type's boundary corpus
        # (for strings that includes the empty and the blank string)
        pool = G.LIT_STR if k in G.STRLIKE else (G.LIT_INT if k == "int" else [True, False])
        return ["lit", rng.sample(pool, rng.randrange(1, min(3, len(pool)) + 1))]
    if k == "nes":
        return [rng.choice(["nes", "mime", "hash", "qhash"])]
    if k == "hash":
        return [rng.choice(["hash", "qhash"])]
    if k == "lit":
        vals = [v for v in ty[1] if rng.random() < 0.6] or [ty[1][0]]
        return ["lit", vals]
    if k == "model":
        chain = {"Na": ["Na", "Nb", "Nc"], "Nb": ["Nb", "Nc"]}.get(ty[1], [ty[1]])
        return ["model", rng.choice(chain)]
    return ty


def widen(rng, ty, depth=2):
    k = ty[0]
    r = rng.random()
    if k == "opt":
        w = widen(rng, ty[1], depth - 1)
        return w if w[0] == "opt" else ["opt", w]
    if r < 0.3 and k != "union":
        return ["opt", ty]
    if k == "union":
        extra = [rng.choice(G.ATOMS)]
        return ["union", ty[1] + [extra]] if extra not in ty[1] else ["opt", ty]
    if k in ("list", "set"):
        return [k, widen(rng, ty[1], depth - 1)]
    if k in ("mime", "hash"):
        return ["nes"]
    if k == "qhash":
        return [rng.choice(["hash", "nes"])]
    if k == "lit":
        more = [v for v in G.LIT_STR + G.LIT_INT if not any(type(v) is type(w) and v == w for w in ty[1])]
        return ["lit", ty[1] + [rng.choice(more)]]
    if k == "model":
        up = {"Nc": ["Nb", "Na"], "Nb": ["Na"]}.get(ty[1])
        if up:
            return ["model", rng.choice(up)]
    other = [rng.choice([a for a in G.ATOMS if a != k])]
    return ["union", rng.choice([[ty, other], [other, ty]])] if k != "union" else ["opt", ty]


def related_pair(rng, depth):
    y = G.rand_type(rng, depth, MODELS)
    r = rng.random()
    if r < 0.3:
        return narrow(rng, y), y
    if r < 0.55:
        return widen(rng, y), y
    if r < 0.65:
        return y, y
    if r < 0.75:
        return ["ann", narrow(rng, y)], (["ann", y] if rng.random() < 0.7 else y)
    return G.rand_type(rng, depth, MODELS), y


def literal_boundary_pairs():
    """Literal types against every plain / constrained atom, complete over the literal value corpus:
    each single value (values inside and outside the atom, the empty and the blank string among
    them), each value together with an ordinary member, bare and inside Optional / List."""
    out = []
    atoms = [[a] for a in ["bool", "int", "float", "str"] + G.CSTR]
    vals = list(G.LIT_STR) + list(G.LIT_INT) + [True, False]
    for t in atoms:
        for v in vals:
            out.append((["lit", [v]], t))
            if isinstance(v, str) and v != "a":
                out.append((["lit", ["a", v]], t))
        for v in ("", " ", "a", 0):
            out.append((["opt", ["lit", [v]]], ["opt", t]))
            out.append((["list", ["lit", [v]]], ["list", t]))
            out.append((["lit", [v]], ["union", [t, ["dur"]]] if t != ["bool"] else ["opt", t]))
    return out


def gen_sub_cases(ctx):
    rng = ctx.rng
    fam = base_table()
    cases = []
    if ctx.quick:
        pairs = [related_pair(rng, rng.randrange(0, 3)) for _ in range(2000)]
    else:
        ts = G.all_types(2, MODELS)
        ctx.exhaustive_spaces.append("is_subtype on all ordered pairs of the %d grammar types of depth <= 1 over the class table, plus all pairs (depth<=2 type, depth<=1 type) sampled evenly" % len(G.all_types(1, MODELS)))
        t1 = G.all_types(1, MODELS)
        pairs = [(a, b) for a in t1 for b in t1]
        # depth 2 x depth 2 is ~10^8 pairs; all related pairs by construction + a large sample
        for a in ts:
            pairs.append((a, a))
        for _ in range(60000):
            pairs.append((rng.choice(ts), rng.choice(ts)))
        for _ in range(20000):
            pairs.append(related_pair(rng, 2))
    # the F12 pair and its relatives are always present
    pairs += [(["qhash"], ["hash"]), (["qhash"], ["nes"]), (["hash"], ["nes"]), (["mime"], ["nes"]), (["hash"], ["qhash"]), (["list", ["mime"]], ["list", ["nes"]]),
              (["nes"], ["union", [["qty"], ["nes"]]]), (["nes"], ["union", [["unit"], ["nes"]]]), (["str"], ["opt", ["union", [["qty"], ["str"]]]]),
              (["list", ["mime"]], ["list", ["union", [["unit"], ["dur"], ["nes"]]]])]
    pairs += literal_boundary_pairs()
    chunk = 100 if ctx.quick else 400
    for i in range(0, len(pairs), chunk):
        cases.append(dict(kind="sub", fam=fam, pairs=[list(p) for p in pairs[i:i + chunk]], seed=rng.randrange(1 << 30)))
    return cases


def gen_acc_cases(ctx):
    rng = ctx.rng
    fam = base_table()
    types = [[a] for a in G.ATOMS] + [["lit", ["a", 1, True]], ["lit", [0, "x"]], ["lit", [False, "", 2]], ["opt", ["int"]], ["union", [["int"], ["str"]]],
                                      ["union", [["str"], ["int"]]], ["list", ["int"]], ["set", ["int"]], ["set", ["union", [["int"], ["bool"]]]], ["set", ["union", [["int"], ["float"]]]],
                                      ["model", "Na"], ["model", "Nc"], ["model", "Nd"], ["list", ["model", "Nb"]], ["opt", ["union", [["model", "Nd"], ["nes"]]]], ["set", ["str"]],
                                      ["list", ["dur"]], ["set", ["unit"]], ["union", [["lit", [1]], ["bool"]]], ["ann", ["opt", ["nes"]]], ["set", ["lit", [1, True, "a"]]]]
    for _ in range(40 if ctx.quick else 600):
        types.append(G.rand_type(rng, rng.randrange(1, 3), MODELS))
    cases = []
    for ty in types:
        vals = [v for v in G.boundary_values(ty, fam, rng) if G.model_safe_json(v)]
        for _ in range(4):
            try:
                v = G.gen_json(rng, ty, fam, 2)
                if v is not G.OMIT and G.model_safe_json(v):
                    vals.append(v)
            except Exception:
                pass
        cases.append(dict(kind="acc", fam=fam, ty=ty, values=vals))
    return cases


def _cd(name, parent, **kw):
    d = dict(name=name, parent=parent, extra=None, fields=[], consts=[], overrides=[], mandatory=[])
    d.update(kw)
    return d


def _new_field(rng, fam, fname):
    """A field the bases do not have: required, Optional, or with a default value."""
    ty = G.rand_field_type(rng, 1, MODELS)
    r = rng.random()
    dflt = None
    if r < 0.25:
        ty = ["opt", G.unopt(ty)]
    elif r < 0.55 and '"model"' not in json.dumps(ty):
        v = G.gen_json(rng, G.unopt(ty), fam, 1)
        if v is not G.OMIT and v is not None:
            dflt = {"v": v}
    return [fname, ty, dflt]


def _reannotate(rng, y, mode):
    if mode == "narrow":
        return narrow(rng, y)
    if mode == "widen":
        return widen(rng, y)
    if mode == "same":
        return y
    return G.rand_field_type(rng, rng.randrange(0, 3), MODELS)


def rand_ovr_case(rng):
    """Chain of 2-4 schema classes (some of them plugins, some plain intermediate classes). Every
    class below the top may re-annotate the inherited field `f` (narrower / wider / same /
    unrelated type, relative to what it inherits; declared with @override or not), add new
    fields (required / Optional / defaulted, also below a parent that forbids extras), constants,
    change the extra policy; nested classes, decorators."""
    fam = base_table()
    y = G.rand_field_type(rng, rng.randrange(0, 3), MODELS)
    mode = rng.choice(["narrow", "narrow", "widen", "widen", "same", "random", "mandatory", "inherit"])
    if mode == "mandatory":
        y = ["opt", G.unopt(y)]
    layers = rng.choice([1, 1, 2, 2, 3])
    other = G.rand_field_type(rng, 1, MODELS)
    top = _cd("Ga", None, extra=rng.choice([None, None, "allow", "ignore", "forbid"]), fields=[["f", y, None], ["g", other, None]], plugin=rng.random() < 0.6)
    if rng.random() < 0.3:
        top["consts"].append(["@type", "Top"])
    fam.append(top)
    prev, cur_f = "Ga", y
    for i in range(layers - 1):
        name = ["Pa", "Pb"][i]
        mid = _cd(name, prev, plugin=rng.random() < 0.5)
        forbid = G.eff_extra(fam, prev) == "forbid"
        if rng.random() < 0.45:
            # the intermediate class re-annotates the field itself
            cur_f = _reannotate(rng, cur_f, rng.choice(["narrow", "narrow", "narrow", "widen", "widen", "same", "random"]))
            mid["fields"].append(["f", cur_f, None])
            if rng.random() < 0.35:
                mid["overrides"].append("f")
        if rng.random() < (0.25 if forbid else 0.5):
            mid["fields"].append(_new_field(rng, fam, "m%d" % i))
        if rng.random() < 0.25:
            mid["extra"] = rng.choice(["allow", "ignore", "forbid"])
        fam.append(mid)
        prev = name
    forbid = G.eff_extra(fam, prev) == "forbid"
    child = _cd("Ch", prev, extra=rng.choice([None, None, None, "allow", "ignore", "forbid"]), plugin=rng.random() < 0.85)
    if mode == "mandatory":
        child["mandatory"] = ["f"]
    elif mode != "inherit":
        child["fields"].append(["f", _reannotate(rng, cur_f, mode), None])
        if rng.random() < 0.2:
            child["overrides"].append("f")
    r = rng.random()
    if r < 0.08:
        child["overrides"].append("nonexistent")  # no parent field to override
    elif r < 0.16:
        child["overrides"].append("g")  # claimed but missing override
    if rng.random() < (0.3 if forbid else 0.4):
        child["fields"].append(_new_field(rng, fam, "n"))
    if rng.random() < (0.08 if forbid else 0.2):
        child["consts"].append(["@type", "Child"])
    if rng.random() < 0.05:
        child["fields"].append(["@type" if top["consts"] else "g", ["str"], None])
    fam.append(child)
    root = "Ch"
    if rng.random() < 0.3:
        # the checked plugin only *uses* the child as a nested schema
        shape = rng.choice([["model", "Ch"], ["opt", ["model", "Ch"]], ["list", ["model", "Ch"]], ["opt", ["union", [["model", "Nd"], ["model", "Ch"]]]]])
        fam.append(_cd("Us", None, fields=[["h", shape, None]], plugin=True))
        root = "Us"
    return dict(kind="ovr", fam=fam, root=root, seed=rng.randrange(1 << 30), n_inst=10)


def focused_ovr():
    I, S, O = ["int"], ["str"], lambda t: ["opt", t]
    out = []

    def fam3(y, x, layers=1, declared=False, nested=None, extra_top=None, extra_child=None, child_consts=()):
        fam = base_table()
        fam.append(dict(name="Ga", parent=None, extra=extra_top, fields=[["f", y, None]], consts=[], overrides=[], mandatory=[]))
        prev = "Ga"
        for i in range(layers - 1):
            fam.append(dict(name=["Pa", "Pb"][i], parent=prev, extra=None, fields=[], consts=[], overrides=[], mandatory=[]))
            prev = ["Pa", "Pb"][i]
        fam.append(dict(name="Ch", parent=prev, extra=extra_child, fields=[["f", x, None]] if x else [], consts=[list(c) for c in child_consts], overrides=["f"] if declared else [], mandatory=[]))
        root = "Ch"
        if nested:
            fam.append(dict(name="Us", parent=None, extra=None, fields=[["h", nested, None]], consts=[], overrides=[], mandatory=[]))
            root = "Us"
        return dict(kind="ovr", fam=fam, root=root, seed=7, n_inst=12)

    def chain(specs, extras=None, plugins=None, nested=None):
        """Ga <- Pa <- ... <- Ch; specs[i] = None (field untouched) | (type of `f`, declared?) per
        class, top first; plugins[i] = class i carries a Plugin section."""
        names = ["Ga", "Pa", "Pb"][:len(specs) - 1] + ["Ch"]
        fam, prev = base_table(), None
        for i, (nm, sp) in enumerate(zip(names, specs)):
            cd = _cd(nm, prev, extra=(extras or {}).get(i))
            if sp:
                cd["fields"].append(["f", sp[0], None])
                if sp[1]:
                    cd["overrides"].append("f")
            if plugins is not None:
                cd["plugin"] = bool(plugins[i])
            fam.append(cd)
            prev = nm
        root = "Ch"
        if nested:
            fam.append(_cd("Us", None, fields=[["h", nested, None]], plugin=True))
            root = "Us"
        return dict(kind="ovr", fam=fam, root=root, seed=7, n_inst=12)

    # the override sits in an intermediate class (plugin or plain helper class), the checked class
    # re-annotates, narrows again or leaves the field alone
    for mid_plugin in (False, True):
        for last in (None, (I, False), (O(I), False)):
            out.append(chain([(I, False), (O(I), False), last], plugins=[True, mid_plugin, True]))
            out.append(chain([(I, False), (["union", [I, S]], False), last], plugins=[True, mid_plugin, True]))
            out.append(chain([(O(I), False), (I, False), last], plugins=[True, mid_plugin, True]))
        out.append(chain([(I, False), None, (O(I), False), None], plugins=[True, False, mid_plugin, True]))
        out.append(chain([(I, False), (O(I), False), None], plugins=[True, mid_plugin, True], nested=O(["model", "Ch"])))
        # an ancestor declared its incompatible override; the declaration is that class's own
        for last in (None, (S, False), (O(S), False), (O(S), True), (["union", [S, I]], False), (["lit", ["a"]], False)):
            out.append(chain([(I, False), (S, True), last], plugins=[True, mid_plugin, True]))
        out.append(chain([(I, False), (S, True), None, (O(S), False)], plugins=[True, mid_plugin, False, True]))
        out.append(chain([(["lit", ["a"]], False), (["lit", ["a", "b"]], True), (["lit", ["a", "b", "c"]], False)], plugins=[True, mid_plugin, True]))

    for layers in (1, 2, 3):
        out.append(fam3(I, O(I), layers))                        # Optional widening
        out.append(fam3(O(I), I, layers))                        # narrowing
        out.append(fam3(["lit", ["a"]], ["lit", ["a", "b"]], layers))  # literal superset
        out.append(fam3(["lit", ["a", "b"]], ["lit", ["b"]], layers))
        out.append(fam3(["nes"], ["mime"], layers))
        out.append(fam3(["hash"], ["qhash"], layers))             # F12
        out.append(fam3(["mime"], ["nes"], layers))
        out.append(fam3(I, O(I), layers, declared=True))
        out.append(fam3(["union", [I, S]], I, layers))
        out.append(fam3(I, ["union", [I, S]], layers))
        out.append(fam3(["list", ["nes"]], ["list", ["hash"]], layers))
        out.append(fam3(["model", "Na"], ["model", "Nc"], layers))
        out.append(fam3(["model", "Nc"], ["model", "Na"], layers))
    for nested in (["model", "Ch"], O(["model", "Ch"]), ["list", ["model", "Ch"]], O(["list", ["model", "Ch"]]), O(["union", [["model", "Nd"], ["model", "Ch"]]])):
        out.append(fam3(I, O(I), 1, nested=nested))
        out.append(fam3(I, O(I), 2, nested=nested))
        out.append(fam3(O(I), I, 2, nested=nested))
    out.append(fam3(I, None, 1, extra_top="forbid", extra_child="allow"))
    out.append(fam3(I, None, 1, extra_top="forbid", extra_child="forbid"))
    out.append(fam3(I, None, 1, extra_top="ignore", extra_child="allow"))
    return out


NEW_FIELD_KINDS = {
    "required": ["n", ["str"], None],
    "optional": ["n", ["opt", ["str"]], None],
    "default": ["n", ["int"], {"v": 3}],
    "optional-list": ["n", ["opt", ["list", ["int"]]], None],
    "default-lit": ["n", ["lit", ["a", "b"]], {"v": "a"}],
}


def extra_policy_space():
    """Small scope, complete: extra policy of the top class x extra policy of the class that adds
    something x what it adds (nothing / a required, Optional or defaulted field / a constant) x
    directly below the top or below a plain intermediate class."""
    out = []
    for et in (None, "allow", "ignore", "forbid"):
        for ec in (None, "allow", "ignore", "forbid"):
            for kind in [None, "const"] + sorted(NEW_FIELD_KINDS):
                for layers in (1, 2):
                    fam = base_table()
                    fam.append(_cd("Ga", None, extra=et, fields=[["x", ["int"], None]], plugin=True))
                    prev = "Ga"
                    if layers == 2:
                        fam.append(_cd("Pa", "Ga", plugin=False))
                        prev = "Pa"
                    ch = _cd("Ch", prev, extra=ec, plugin=True)
                    if kind == "const":
                        ch["consts"].append(["k_const", "v"])
                    elif kind:
                        ch["fields"].append(json.loads(json.dumps(NEW_FIELD_KINDS[kind])))
                    fam.append(ch)
                    out.append(dict(kind="ovr", fam=fam, root="Ch", seed=11, n_inst=8))
    return out


OVR_SPACE_TYPES = [["int"], ["opt", ["int"]], ["str"], ["opt", ["str"]], ["union", [["int"], ["str"]]], ["lit", ["a"]], ["lit", ["a", ""]], ["nes"]]


def override_chain_space():
    """Small scope, complete: Ga.f : y; Pa (plugin or plain class) leaves f alone or re-annotates
    it with m (declared or not); Ch leaves it alone or re-annotates it with x (declared or not);
    y, m, x from OVR_SPACE_TYPES."""
    out = []
    Ts = OVR_SPACE_TYPES
    mids = [None] + [(m, d) for m in Ts for d in (False, True)]
    for y in Ts:
        for mid in mids:
            for last in mids:
                if mid is None and last is None:
                    continue
                for mid_plugin in (False, True):
                    fam = base_table()
                    fam.append(_cd("Ga", None, fields=[["f", y, None]], plugin=True))
                    pa = _cd("Pa", "Ga", plugin=mid_plugin)
                    ch = _cd("Ch", "Pa", plugin=True)
                    for cd, sp in ((pa, mid), (ch, last)):
                        if sp:
                            cd["fields"].append(["f", sp[0], None])
                            if sp[1]:
                                cd["overrides"].append("f")
                    fam += [pa, ch]
                    out.append(dict(kind="ovr", fam=fam, root="Ch", seed=13, n_inst=8))
    return out


def const_forbid_probe():
    """Known situation: constants added below a parent that forbids extra fields."""
    fam = base_table()
    fam.append(dict(name="Ga", parent=None, extra="forbid", fields=[["x", ["int"], None]], consts=[], overrides=[], mandatory=[]))
    fam.append(dict(name="Ch", parent="Ga", extra=None, fields=[], consts=[["k_const", "v"]], overrides=[], mandatory=[]))
    return dict(kind="ovr", fam=fam, root="Ch", seed=1, n_inst=4, probe="const-forbid")


def gen_ovr_cases(ctx):
    n = 200 if ctx.quick else 4000
    pol, chn = extra_policy_space(), override_chain_space()
    if ctx.quick:
        # a sample of the two small-scope spaces (the thorough tier runs them completely)
        pol = ctx.rng.sample(pol, 60)
        chn = ctx.rng.sample(chn, 120)
    else:
        ctx.exhaustive_spaces.append("extra policy of parent x extra policy of child x {no new member, required / Optional / defaulted new field, constant} x {direct child, below a plain intermediate class}: %d families" % len(pol))
        ctx.exhaustive_spaces.append("three-class chains Ga.f:y <- Pa (plugin or plain class; f untouched or re-annotated m, declared or not) <- Ch (f untouched or re-annotated x, declared or not), y, m, x from %d types: %d families" % (len(OVR_SPACE_TYPES), len(chn)))
    return focused_ovr() + pol + chn + [rand_ovr_case(ctx.rng) for _ in range(n)]


PLAIN_OF = {"str": "pstr", "int": "pint", "float": "pfloat", "bool": "pbool"}


def plainify(rng, ty, p=0.5):
    """Replace strict primitives by the plain builtins at some leaves."""
    k = ty[0]
    if k in PLAIN_OF:
        return [PLAIN_OF[k]] if rng.random() < p else ty
    if k in ("opt", "list", "set", "ann"):
        return [k, plainify(rng, ty[1], p)]
    if k == "union":
        alts = []
        for t in ty[1]:
            t2 = plainify(rng, t, p)
            if t2 not in alts:
                alts.append(t2)
        return ["union", alts] if len(alts) > 1 else alts[0]
    return ty


def plain_pairs():
    """Complete over atoms x atoms with at least one plain builtin, and Literal values (each value
    of the literal corpus alone and next to an ordinary member) against every plain builtin,
    bare and inside Optional / List."""
    out = []
    plains = [[p] for p in G.PLAIN_ATOMS]
    atoms = [[a] for a in G.ATOMS] + plains
    for p in plains:
        for q in atoms:
            out.append((q, p))
            if q not in plains:
                out.append((p, q))
    vals = list(G.LIT_STR) + list(G.LIT_INT) + [True, False]
    for p in plains:
        for v in vals:
            out.append((["lit", [v]], p))
            if isinstance(v, str) and v != "a":
                out.append((["lit", ["a", v]], p))
            elif not isinstance(v, str) and v != 1:
                out.append((["lit", [1, v]], p))
        for v in ("", " ", "a", 0, True):
            out.append((["opt", ["lit", [v]]], ["opt", p]))
            out.append((["list", ["lit", [v]]], ["list", p]))
            out.append((["lit", [v]], ["opt", p]))
    return out


def gen_pln_cases(ctx):
    rng = ctx.rng
    pairs = plain_pairs()
    for _ in range(300 if ctx.quick else 6000):
        a, b = related_pair(rng, rng.randrange(0, 3))
        a, b = plainify(rng, a), plainify(rng, b, 0.8)
        if '"model"' in json.dumps([a, b]):
            continue
        pairs.append((a, b))
    if not ctx.quick:
        ctx.exhaustive_spaces.append("override families Ga.f:b <- Ch.f:a for all atom pairs with a plain builtin (str/int/float/bool) on either side and all Literal values of the corpus against every plain builtin: %d pairs" % len(plain_pairs()))
    chunk = 60
    return [dict(kind="pln", pairs=[list(x) for x in pairs[i:i + chunk]], seed=rng.randrange(1 << 30)) for i in range(0, len(pairs), chunk)]


def gen_anc_cases(ctx, names):
    per = 2 if ctx.quick else 10
    return [dict(kind="anc", schema=n, seed=ctx.rng.randrange(1 << 30), n=8 if ctx.quick else 25, depth=2) for n in names for _ in range(per)]


_crash_seen = set()


def report_crashes(ctx):
    """A library parser that raises something other than a validation error aborts the whole
    validation (no Union fall-through): child-accepts / parent-rejects for `nes < union(qty,nes)`."""
    for k in G.OPAQUE:
        for s, n in sorted(C12.NF.get(k, {}).items()):
            if n is False and (k, s) not in _crash_seen:
                _crash_seen.add((k, s))
                if sum(1 for x in _crash_seen if x[0] == k) <= 3:
                    ctx.oracle_hit(dict(kind="crash", type=k, input=s), dict(kind="opaque-parser-raises", type=k, input=s, error=G.NF_ERRORS.get((k, s), "")), group="accepts")


def run(ctx):
    ctx.rule = ("cases: (sub) ordered pairs of grammar types over a class table of nested schemas (related pairs built by narrowing / widening), real is_subtype vs model, "
                "with a witness search for every accepted pair; (acc) single-field validation on a boundary corpus per type; (ovr) chains of 2-4 classes (plugins and plain "
                "intermediate classes) in which every class below the top may re-annotate the inherited field (declared or not), add required/Optional/defaulted fields or "
                "constants (also below a forbidding parent) and change the extra policy, nested use, decorators; class construction + check_types vs model, and instances of every "
                "reachable class parsed by each of its ancestors; (pln, oracle only) override pairs with the plain builtins str/int/float/bool on either side; (anc) installed schemas parsed by every ancestor. Non-trivial = tagged.")
    ctx.assumptions += [
        "date/time types are outside the grammar (excluded by the property)",
        "runtype 0.3.5 `<=` on canonical types, typing's normalisation of Union/Optional/Literal and pydantic 1.10 validation are modelled for the grammar and compared on every case",
        "ClassTableSound (every nominal subclass edge is an inclusion of accepted values) is a hypothesis of isSubtype_sound; it fails for the installed pair QualHashsumStr < HashsumStr (known finding F12, theorem qualhashsum_not_subtype)",
    ]
    C12.load_nf(ctx)
    ctx.oracle_hits[:] = [h for h in ctx.oracle_hits if h.get("group") != "normal-forms"]  # C12's business
    report_crashes(ctx)
    corpus = core.load_corpus(ID)
    sub = [c for c in corpus if c["kind"] == "sub"] + gen_sub_cases(ctx)
    ctx.correspond("is_subtype", MOD, sub, lines, "drv_cod", compare=compare, timeout=300)
    acc = [c for c in corpus if c["kind"] == "acc"] + gen_acc_cases(ctx)
    C12.ensure_nf(ctx, acc, report=False)
    report_crashes(ctx)
    ctx.correspond("accepts", MOD, acc, lines, "drv_cod", compare=compare, timeout=120)
    ovr = [c for c in corpus if c["kind"] == "ovr"] + gen_ovr_cases(ctx)
    ctx.correspond("check_types", MOD, ovr, lines, "drv_cod", compare=compare, timeout=120)
    pln = [c for c in corpus if c["kind"] == "pln"] + gen_pln_cases(ctx)
    n_pln = 0
    for c, r in zip(pln, pool.run(MOD, "impl", pln, timeout=300)):
        if "timeout" in r:
            ctx.oracle_hit(c, {"kind": "does-not-terminate", "limit_s": 300}, group="plain-builtins")
            continue
        if "crash" in r:
            raise lean.InfraError("harness crashed on %s: %s\n%s" % (core.canon(c)[:200], r["crash"], r.get("tb", "")))
        for d in r["ok"]["oracle"]:
            ctx.oracle_hit(c, d, group="plain-builtins")
        n_pln += r["ok"]["n_ok"]
        ctx.note_case(c, r["ok"]["tags"], len(c["pairs"]))
    ctx.notes.append("plain builtins: %d override pairs, %d let through by check_types and searched for a witness" % (sum(len(c["pairs"]) for c in pln), n_pln))
    names = C12.installed_names()
    anc = [c for c in corpus if c["kind"] == "anc"] + gen_anc_cases(ctx, names)
    res = pool.run(MOD, "impl", anc, timeout=300)
    n_anc = 0
    for c, r in zip(anc, res):
        if "timeout" in r:
            ctx.oracle_hit(c, {"kind": "does-not-terminate", "limit_s": 300}, group="installed")
            continue
        if "crash" in r:
            raise lean.InfraError("harness crashed on %s: %s\n%s" % (core.canon(c)[:200], r["crash"], r.get("tb", "")))
        for d in r["ok"]["oracle"]:
            ctx.oracle_hit(c, d, group="installed")
        n_anc += r["ok"]["nvalid"] * r["ok"]["ancestors"]
        ctx.note_case(c, r["ok"]["tags"], c.get("n", 1))
    ctx.notes.append("installed schemas: %d (instance, ancestor) parses" % n_anc)
    prioritise_hits(ctx)


def prioritise_hits(ctx, budget=30):
    """`core.finish` looks at one representative of at most six distinct pre-shrink signatures, in
    the order of `ctx.oracle_hits`. The known pair QualHashsumStr / HashsumStr shows up inside many
    type pairs whose signature only collapses to the known one after shrinking on the real code
    (e.g. `union(qhash, lit(a)) < hash`), which would use up the six places. So: hits that do not
    involve `qhash` first; the others are shrunk here (smallest first, up to `budget` distinct
    signatures) and whatever does not collapse to the known signature comes next."""
    first, f12, q, seen = [], [], {}, set()
    for h in ctx.oracle_hits:
        pre = signature(h["case"], h["detail"])
        if pre == F12_SIG:
            f12.append(h)
        elif "qhash" not in pre:
            first.append(h)
        else:
            q.setdefault(pre, []).append(h)
    real, rest = [], []
    for n, pre in enumerate(sorted(q, key=lambda x: (len(x), x))):
        hs = q[pre]
        if n < budget:
            try:
                c2, d2 = shrink(ctx, hs[0]["case"], hs[0]["detail"])
                if signature(c2, d2) == F12_SIG:
                    f12.append(dict(hs[0], case=c2, detail=d2))
                    continue
                real.append(dict(hs[0], case=c2, detail=d2))
                continue
            except lean.InfraError:
                raise
            except Exception as e:
                ctx.notes.append("pre-shrink failed: %r" % (e,))
        rest += hs
    ctx.oracle_hits[:] = first + real + f12[:1] + rest + f12[1:]


# ----------------------------------------------------------------------------- signatures / shrinking
def _subterms(t):
    out = [t]
    if t[0] in ("opt", "list", "set", "ann"):
        out += _subterms(t[1])
    elif t[0] == "union":
        for x in t[1]:
            out += _subterms(x)
    return out


def _f12_only(a, b, flag):
    """The two types have the same structure and differ only in leaves `qhash` (left) where the
    right one has `hash`: a witness for the pair is then the known pair QualHashsumStr / HashsumStr
    inside containers. flag[0] is set when such a leaf is met."""
    if a == ["qhash"] and b == ["hash"]:
        flag[0] = True
        return True
    if a == b:
        return True
    if a[0] == b[0] and a[0] in ("opt", "list", "set", "ann"):
        return _f12_only(a[1], b[1], flag)
    if b[0] == "opt" and a[0] != "opt":
        return _f12_only(a, b[1], flag)
    if b[0] == "union":
        for x in (a[1] if a[0] == "union" else [a]):
            if x in b[1]:
                continue
            if x == ["qhash"] and ["hash"] in b[1]:
                flag[0] = True
                continue
            return False
        return True
    return False


def _has_blank_lit(t):
    return any(x[0] == "lit" and any(isinstance(v, str) and v.strip() == "" for v in x[1]) for x in _subterms(t))


def _nested_blank_literal(a, b, detail):
    """The child type is not itself a Literal (after Annotated), but has a Literal member with an
    empty / blank string below Optional / Union / List / Set, the parent type has the plain builtin
    `str` there, and the parent refused the value for its length."""
    while a[0] == "ann" and b[0] == "ann":
        a, b = a[1], b[1]
    if a[0] == "lit":
        return False
    return bool(_has_blank_lit(a) and any(x == ["pstr"] for x in _subterms(b)) and "min_length" in str(detail.get("error", "")))


def _is_f12(a, b):
    flag = [False]
    try:
        return bool(_f12_only(a, b, flag) and flag[0])
    except Exception:
        return False


def signature(case, detail):
    if not isinstance(detail, dict):
        return "%s:%s" % (ID, str(detail)[:40])
    kind = detail.get("kind")
    if kind == "opaque-parser-raises":
        return "%s:%s:%s" % (ID, kind, detail.get("type"))
    if kind == "subtype-unsound":
        a, b = detail.get("sub"), detail.get("base")
        if _is_f12(a, b):
            return F12_SIG
        return "%s:subtype-unsound:%s<%s" % (ID, G.ty_str(a), G.ty_str(b))
    if kind == "child-instance-rejected-by-parent":
        fam = detail.get("fam") or case.get("fam")
        ch, pa = detail.get("child"), detail.get("parent")
        flds = detail.get("fields") or []
        try:
            ft_c = {f[0]: f[1] for f in G.eff_fields(fam, ch)}
            ft_p = {f[0]: f[1] for f in G.eff_fields(fam, pa)}
            consts_c = [k for k, _ in G.eff_consts(fam, ch)]
            consts_p = [k for k, _ in G.eff_consts(fam, pa)]
            if flds and all(k in consts_c and k not in consts_p for k in flds) and G.eff_extra(fam, pa) == "forbid":
                return CONST_FORBID_SIG
            if flds and all(k in ft_c and k not in ft_p and k not in consts_p for k in flds) and G.eff_extra(fam, pa) == "forbid":
                return NEW_FIELD_FORBID_SIG
            if len(flds) == 1 and flds[0] in ft_c and flds[0] in ft_p:
                a, b = ft_c[flds[0]], ft_p[flds[0]]
                if _is_f12(a, b):
                    return F12_SIG
                if _nested_blank_literal(a, b, detail):
                    return NESTED_BLANK_LIT_SIG
                ser = (detail.get("serialised") or {}).get(flds[0])
                if a[0] == "lit" and b[0] in G.PLAIN_ATOMS and any(type(v) is type(ser) and v == ser for v in a[1]):
                    a = ["lit", [ser]]  # the offending member only
                return "%s:override-unsound:%s<%s" % (ID, G.ty_str(a), G.ty_str(b))
        except Exception:
            pass
        return "%s:child-instance-rejected-by-parent:%s" % (ID, ",".join(flds))
    if kind == "instance-rejected-by-ancestor":
        return "%s:%s:%s<%s:%s" % (ID, kind, detail.get("schema"), detail.get("ancestor"), ",".join(detail.get("fields") or []))
    return "%s:%s" % (ID, kind)


def shrink(ctx, case, detail):
    if not isinstance(detail, dict):
        return case, detail
    kind = detail.get("kind")
    if kind == "opaque-parser-raises":
        return "%s:%s:%s" % (ID, kind, detail.get("type"))
    if kind == "subtype-unsound":
        # smallest pair of sub-terms that is still accepted by is_subtype and has a witness
        a, b = detail["sub"], detail["base"]
        cands = sorted(((x, y) for x in _subterms(a) for y in _subterms(b)), key=lambda p: len(json.dumps(p)))
        c = dict(kind="sub", fam=case["fam"], pairs=[list(p) for p in cands[:300]], seed=case.get("seed", 0))
        r = pool.run_one(MOD, "impl", c, timeout=600)
        if "ok" in r and r["ok"]["oracle"]:
            best = min(r["ok"]["oracle"], key=lambda d: len(json.dumps([d["sub"], d["base"]])))
            return dict(kind="sub", fam=case["fam"], pairs=[[best["sub"], best["base"]]], seed=case.get("seed", 0)), best
        return dict(case, pairs=[[a, b]]), detail
    if kind == "child-instance-rejected-by-parent" and case.get("kind") == "pln":
        # smallest pair of sub-terms that is still let through and has a witness
        a, b = detail["sub"], detail["base"]
        cands = sorted(((x, y) for x in _subterms(a) for y in _subterms(b)), key=lambda p: len(json.dumps(p)))
        c = dict(kind="pln", pairs=[list(p) for p in cands[:200]], seed=case.get("seed", 0))
        r = pool.run_one(MOD, "impl", c, timeout=600)
        if "ok" in r and r["ok"]["oracle"]:
            best = min(r["ok"]["oracle"], key=lambda d: len(json.dumps([d["sub"], d["base"]])))
            return dict(kind="pln", pairs=[[best["sub"], best["base"]]], seed=case.get("seed", 0)), best
        return dict(case, pairs=[[a, b]]), detail
    if kind == "child-instance-rejected-by-parent":
        r = pool.run_one(MOD, "shrink_ovr", dict(case=case, detail=detail), timeout=600)
        if "ok" in r and r["ok"]:
            return r["ok"]["case"], r["ok"]["detail"]
        return case, detail
    if kind == "instance-rejected-by-ancestor":
        r = pool.run_one(MOD, "shrink_anc", dict(case=case, detail=detail), timeout=600)
        if "ok" in r and r["ok"]:
            return r["ok"]["case"], r["ok"]["detail"]
    return case, detail


def shrink_ovr(req):
    """Inside a worker: drop fields / constants / classes of the family while the same kind
    of witness is still produced."""
    case, detail = req["case"], req["detail"]
    budget = [150]

    def fails(c):
        budget[0] -= 1
        try:
            r = _impl_ovr(c)
        except Exception:
            return None
        ds = [d for d in r["oracle"] if d.get("kind") == detail["kind"]]
        return ds[0] if ds else None

    cur = dict(case)
    det = fails(cur)
    if not det:
        return None
    # drop unused classes (from the end), then fields and constants
    i = len(cur["fam"]) - 1
    while i >= 0 and budget[0] > 0:
        if cur["fam"][i]["name"] != cur["root"]:
            c = dict(cur, fam=[cd for k, cd in enumerate(cur["fam"]) if k != i])
            try:
                d = fails(c)
            except Exception:
                d = None
            if d:
                cur, det = c, d
        i -= 1
    if cur["root"] != det["child"]:
        c = dict(cur, root=det["child"])
        d = fails(c)
        if d:
            cur, det = c, d
    for ci in range(len(cur["fam"])):
        for part in ("fields", "consts", "overrides", "mandatory"):
            j = 0
            while j < len(cur["fam"][ci].get(part, [])) and budget[0] > 0:
                fam2 = json.loads(json.dumps(cur["fam"]))
                del fam2[ci][part][j]
                c = dict(cur, fam=fam2)
                try:
                    d = fails(c)
                except Exception:
                    d = None
                if d:
                    cur, det = c, d
                else:
                    j += 1
    return dict(case=cur, detail=det)


def shrink_anc(req):
    case, detail = req["case"], req["detail"]
    budget = [200]

    def fails(inp):
        budget[0] -= 1
        r = _impl_anc(dict(kind="anc", schema=case["schema"], seed=0, n=1, inputs=[inp]))
        ds = [d for d in r["oracle"] if d.get("kind") == detail["kind"]]
        return ds[0] if ds else None

    inp = detail.get("input")
    if not isinstance(inp, dict) or not fails(inp):
        return None
    inp = C12._shrink_json(inp, fails, budget)
    return dict(case=dict(kind="anc", schema=case["schema"], seed=0, n=1, inputs=[inp]), detail=fails(inp) or detail)


def search(ctx):
    for s in range(1, 3):
        sub = core.Ctx(ID, "quick", ctx.seed + 7919 * s)
        cases = gen_sub_cases(sub) + gen_ovr_cases(sub) + gen_pln_cases(sub)
        res = pool.run(MOD, "impl", cases, timeout=300)
        ctx.search_log.append("seed %d: %d cases (subtype pairs with witness search, override families), oracle only" % (sub.seed, len(cases)))
        known = {k.get("signature") for k in core.load_findings() if k.get("kind") == "known"}
        for c, r in zip(cases, res):
            if "ok" in r:
                for d in r["ok"]["oracle"]:
                    c2, d2 = shrink(ctx, c, d)
                    if signature(c2, d2) not in known:
                        return c2, d2
    return None


def replay(ctx, rep):
    case = rep.get("case")
    if not case:
        print(core.canon(rep)[:3000])
        return 0
    r = pool.run_one(MOD, "impl", case, timeout=300)
    print("implementation:", core.canon(r)[:4000])
    if case.get("kind") not in ("anc", "pln"):
        C12.load_nf(ctx)
        print("model:", lean.run_driver("drv_cod", [lines(case)]))
    return 1 if ("ok" in r and r["ok"]["oracle"]) else 0
