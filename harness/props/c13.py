"""C13 — Every child-schema instance is a valid parent-schema instance.

Lean: Model/Codec.lean (accepts/decode/encode), Model/Subtype.lean (isSubtype mirroring
util/typing.is_subtype + runtype's canonical `<=`, class construction rules of SchemaMagic,
checkTypes / checkOverrides), Proofs/Subtype*.lean, Props/C13.lean; driver drv_cod.

Case kinds
  sub  real `is_subtype` vs model `isSubtype` on ordered pairs of grammar types over a class
       table; oracle: a value the left type accepts whose serialisation the right type rejects
       although `is_subtype` said yes.
  acc  pydantic validation of a single-field schema vs model `decode` on a boundary corpus.
  ovr  generated class families (chains of 2-4 classes, each a plugin (inner `Plugin` section)
       or a plain intermediate class; every class below the top may re-annotate the inherited
       field - declared with @override or not -, add required / Optional / defaulted fields and
       constants - also below a parent that forbids extras -, change the extra policy; nested
       schemas, decorators): class construction + `check_types` vs model; oracle: if
       `check_types` lets the family through, every generated instance of every reachable
       class must be accepted by each of its ancestors (child-accepts / ancestor-rejects
       witness otherwise); only fields whose override was explicitly declared by the class or
       by a class between it and that ancestor are exempt.
  seq  load order: a tree of 2-7 classes below one top class (a chain of 2-4 levels plus further
       children of classes on the chain), every class derived from its parent by any of the means a
       schema author has (re-annotation of `f` - declared or not -, @make_mandatory, the Literal
       discriminator `k` re-annotated or pinned with @add_const_fields, a constant over an inherited
       constant, new fields / constants, extra policy); the plugins are loaded one after the other
       with `check_types(cls)` *without* `recheck`, as `PGSchema.check_plugin` does (parents before /
       after / between their children, several children of one parent, repetitions) vs model
       `loadPlugin` (marks kept between the loads, the marks of a refused walk cleared); the sequences
       go on after a refusal (the refused class again, its subclasses, siblings, the parent). Oracle
       after every load that passes, whatever was refused before: instances of the loaded class and
       of everything reachable from it - generated documents also carry explicit valid / foreign /
       ill-typed values in constant fields - parsed by each ancestor. Constants also over
       collection-valued discriminators (`List/Set/Optional[List]` of Literals), scalar or list
       valued, with and without `override=True`. Plus documents parsed by family classes, validated
       value (constants included) vs model `decode`.
  enm  oracle only: the same "marked subclass" pattern with Enum discriminators (outside the grammar),
       plain and collection-valued (`List[E]`, `Set[E]`, `Optional[List[E]]`).
  pln  oracle only: override pairs with the plain builtins `str/int/float/bool` (pydantic's
       coercing validators + the schema Config's anystr limits; outside the Lean grammar) on
       either side: parent `f: b`, child `f: a`; if construction + `check_types` let the child
       through, every value it accepts must serialise to something the parent accepts.
  fin  oracle only: pydantic Field settings (alias, description, bounds, lengths, regex, item counts, const,
       defaults, `...`) on the child's and / or the parent's side of an override, attached as
       `Annotated[T, Field(..)]`, as `f: T = Field(..)` or not at all; chains of 2-4 classes; values given under
       the field name, under each alias of the chain, or left to the default. Known findings F40 / F41 (the check
       compares hints only) have fixed probes; an Annotated child over a plain parent hint (refused as the code
       stands) has a signature of its own.
  plg  oracle only: the plugins of a family installed through synthetic entry points of the real `schemas`
       group and requested repeatedly in every way the group hands plugins out; a plugin that fails its
       load-time checks must be refused by every request (F37).
  anc  installed schemas: every generated instance parsed by every ancestor.

Serialisation forms: wherever an instance of a child class is handed to an ancestor (ovr, seq, enm, pln, fin, anc) it
travels as `json_dict()` and as `bytes(obj)` (what containers store; the property's observation point is
`Parent.parse_raw(bytes(child_obj))`), the first instances of every class also as `json()`, `str()` and `yaml()`
(`_rejected_form`); a form counts only if the class reads its own output back (otherwise it is C12's business).
Re-annotations come with and without a default value (`f: T = v` over a field that is required further up), and the
generated documents leave such fields out (tag `relies-on-default-of-field-required-above`).
"""
import itertools
import json
import random

from .. import core, lean, pool
from . import schema_gen as G
from . import c12 as C12

ID = "C13"
MOD = "harness.props.c13"
T = "MetadorModel.C13."
TB = "MetadorModel.Bridge.SubtypeFns."
BRIDGE_THEOREMS = [
    "traverse_unfold", "gen_has_literal", "gen_is_subtype", "gen_check_type_mergeable", "gen_check_allowed_types",
    "gen_detect_field_overrides", "gen_check_overrides", "gen_new_policy", "gen_make_mandatory", "gen_add_const_fields",
    "gen_override", "defineOk_eq", "gen_defineOk",
    "gen_check_types_inner", "gen_check_types", "gen_check_types_loadPlugin", "checkTypesF_stable", "tableOk_tblDecl"]
LEAN = dict(
    modules=["MetadorModel.Props.C13", "MetadorModel.Bridge.SubtypeFns", "MetadorModel.Bridge.SubtypeFnsChecks",
             "MetadorModel.Bridge.SubtypeFnsDeco", "MetadorModel.Bridge.SubtypeFnsWalk"],
    theorems=[TB + n for n in BRIDGE_THEOREMS] + [T + n for n in [
        "isSubtype_sound", "Sub_refl", "child_valid_in_parent", "child_in_Sub_parent", "undeclared_widening_refused",
        "checked_overrides_are_subtypes", "installedStrings_sound_except", "qualhashsum_not_subtype",
        "classTable_unsound_with_qualhashsum", "optional_not_subtype", "literal_subtype_iff", "literal_superset_not_subtype",
        "legacy_crash_breaks_union_subtype", "checkTypes_visits_ancestors", "intermediate_widening_refused", "declaration_not_inherited",
        "new_field_below_forbidding_parent_refused", "nested_literal_refused",
        "loads_examine_every_ancestor", "loads_examine_every_ancestor_at", "refused_stays_refused", "refused_at_every_load",
        "checkTypesF_marksOk", "loadAll_marksOk", "refused_load_restores_marks", "load_examines_unmarked", "child_refused_whatever_is_marked",
        "legacy_refused_class_passes_next_load", "legacy_nested_descendant_keeps_mark_of_refused_walk",
        "const_over_container_refused", "legacy_const_over_container_accepted"]],
    drivers=["drv_cod"],
)



def translate(ctx):
    """regenerate Gen/SubtypeFns.lean from the current source of `is_subtype`, `check_types`, `check_overrides`,
    `check_allowed_types`, the tail of `SchemaMagic.__new__` and the decorators (harness/translate_c13.py)"""
    from .. import translate_c13
    try:
        return translate_c13.write(lean)
    except Exception as e:  # noqa: BLE001
        # leave no text of an earlier run (possibly of another tree) behind
        translate_c13.write_stub(lean, "%s: %s" % (type(e).__name__, e))
        raise


F12_SIG = "C13:phantom-subclass-non-included-pattern:QualHashsumStr<HashsumStr"
CONST_FORBID_SIG = "C13:const-field-under-forbidding-parent"
NEW_FIELD_FORBID_SIG = "C13:new-field-under-forbidding-parent"
NESTED_BLANK_LIT_SIG = "C13:blank-literal-nested-below-plain-str"
CONST_CONTAINER_SIG = "C13:const-over-container-literal"  # F30 (repaired): a constant over a List/Set of Literals without override
FORM_SIG = "serialisation-form-rejected-by-parent"  # + ":<form>": json_dict() is accepted, bytes()/json()/str()/yaml() of the same instance is not
AFTER_REFUSAL_SIG = "C13:accepted-after-refusal"  # F31 (repaired): a refused class, or a class below it, passes a later check


# ----------------------------------------------------------------------------- real code helpers
def _wrapper(F, ty, tag):
    """Single-field schema class `f: ty` inside the family's module."""
    from metador_core.schema import MetadataSchema

    ns = F.mod.__dict__
    name = "W%s%d" % (tag, len(ns))
    cls = type(MetadataSchema)(name, (MetadataSchema,), {"__module__": F.modname, "__qualname__": name, "__annotations__": {"f": G.to_hint(ty, ns)}})
    cls.update_forward_refs(**F.classes)
    return cls


def _accept(cls, v):
    """(accepted?, instance)"""
    try:
        return True, cls.parse_obj({"f": json.loads(json.dumps(v))})
    except Exception:
        return False, None


def _witness(F, a, b, rng, extra_vals=()):
    """A JSON input accepted by `f: a` whose serialised value `f: b` rejects."""
    Wa, Wb = _wrapper(F, a, "a"), _wrapper(F, b, "b")
    vals = list(extra_vals) + G.boundary_values(a, F.fam, rng)
    for _ in range(6):
        try:
            vals.append(G.gen_json(rng, a, F.fam, 2))
        except Exception:
            pass
    for v in vals:
        if v is G.OMIT:
            continue
        ok, o = _accept(Wa, v)
        if not ok:
            continue
        try:
            jd = o.json_dict()
        except Exception:
            continue
        if C12._has_nan(jd):
            continue
        try:
            Wb.parse_obj(jd)
        except Exception as e:
            return dict(input=v, serialised=jd.get("f", None), error=("%s: %s" % (type(e).__name__, e))[:200])
    return None


def impl(case):
    kind = case["kind"]
    out, oracle, tags = [], [], []
    if kind == "anc":
        return _impl_anc(case)
    if kind == "pln":
        return _impl_pln(case)
    if kind == "enm":
        return _impl_enm(case)
    if kind == "fin":
        return _impl_fin(case)
    if kind == "plg":
        return _impl_plg(case)
    from metador_core.util.typing import is_subtype

    if kind == "sub":
        F = G.Family(case["fam"])
        rng = random.Random(case.get("seed", 0))
        try:
            ns = F.mod.__dict__
            for a, b in case["pairs"]:
                try:
                    r = bool(is_subtype(G.to_hint(a, ns), G.to_hint(b, ns)))
                    out.append("T" if r else "F")
                except Exception as e:
                    out.append("E:%s" % type(e).__name__)
                    continue
                if r:
                    tags.append("subtype-yes")
                    if a != b:
                        tags.append("subtype-yes-proper")
                    w = _witness(F, a, b, rng)
                    if w:
                        oracle.append(dict(kind="subtype-unsound", sub=a, base=b, fam=case["fam"], **w))
                else:
                    tags.append("subtype-no")
        finally:
            F.close()
        return dict(out=out, oracle=oracle[:10], tags=sorted(set(tags)))
    if kind == "acc":
        F = G.Family(case["fam"])
        try:
            W = _wrapper(F, case["ty"], "v")
            for v in case["values"]:
                ok, o = _accept(W, v)
                if ok:
                    try:
                        out.append(G.pyval_str(o.f))
                        tags.append("accepted")
                    except ValueError:
                        out.append("*")
                else:
                    out.append("err")
                    tags.append("rejected")
        finally:
            F.close()
        return dict(out=out, oracle=[], tags=sorted(set(tags)))
    if kind == "ovr":
        return _impl_ovr(case)
    if kind == "seq":
        return _impl_seq(case)
    raise ValueError(kind)


def _const_candidates(fam, name, key, const):
    """Explicit values an input document may carry in a constant field: the constant itself, the
    other members of the typed (Literal) field of an ancestor that the constant pins (a sibling's
    marker: valid for that ancestor), foreign / ill-typed values."""
    cands = [const]
    for anc in _ancestor_chain(fam, name):
        ft = {f[0]: f[1] for f in G.eff_fields(fam, anc)}
        if key in ft:
            for x in _subterms(ft[key]):
                if x[0] == "lit":
                    cands += [v for v in x[1] if not any(type(v) is type(w) and v == w for w in cands)]
            break
    return cands + ["zz_foreign", "", 17, True, None, ["a"], {"a": 1}]


def _sprinkle_consts(rng, fam, ty, val, p=0.5):
    """Put explicit values for constant fields into a generated input (at any nesting depth)."""
    k = ty[0]
    if k in ("opt", "ann"):
        return val if val is None else _sprinkle_consts(rng, fam, ty[1], val, p)
    if k == "list" and isinstance(val, list):
        return [_sprinkle_consts(rng, fam, ty[1], x, p) for x in val]
    if k == "union" and isinstance(val, dict):
        ms = [t for t in ty[1] if t[0] == "model"]
        return _sprinkle_consts(rng, fam, ms[-1], val, p) if ms else val
    if k == "model" and isinstance(val, dict):
        ft = {f[0]: f[1] for f in G.eff_fields(fam, ty[1])}
        out = {kk: (_sprinkle_consts(rng, fam, ft[kk], v, p) if kk in ft else v) for kk, v in val.items()}
        for ck, cv in G.eff_consts(fam, ty[1]):
            if rng.random() < p:
                out[ck] = rng.choice(_const_candidates(fam, ty[1], ck, cv))
        return out
    return val


def gen_input(rng, fam, name, depth=2):
    """A (mostly valid) input document for a family class; constant fields are left out, or carry
    an explicit valid / foreign / ill-typed value."""
    return _sprinkle_consts(rng, fam, ["model", name], G.gen_obj(rng, fam, name, depth))


def eff_const_override(fam, cd):
    """What `schema_gen.Family` passes as `override=` to `add_const_fields`: the flag of the class,
    or True when one of its constants replaces an inherited constant (as the `ld` decorator does)."""
    if not cd["consts"]:
        return False
    inherited = {k for k, _ in G.eff_consts(fam, cd["parent"])} if cd["parent"] else set()
    return bool(cd.get("const_override")) or any(k in inherited for k, _ in cd["consts"])


def _singleton(ty):
    """pydantic's `type_` of a field with SHAPE_SINGLETON, None for a collection-valued field."""
    while ty[0] in ("opt", "ann"):
        ty = ty[1]
    return None if ty[0] in ("list", "set") else ty


def _declared_by(fam, name):
    """Fields whose incompatible override the class itself declared explicitly: @override(...),
    constants put over an inherited constant, and - with `add_const_fields(..., override=True)` -
    constants put over an inherited field that is not a plain Literal field (a constant over a plain
    Literal field is the "marked subclass" pattern: checked by the decorator, not declared)."""
    cd = G.get_cd(fam, name)
    if not cd["parent"]:
        return set(cd.get("overrides", []))
    inherited = {k for k, _ in G.eff_consts(fam, cd["parent"])}
    out = set(cd.get("overrides", [])) | {k for k, _ in cd["consts"] if k in inherited}
    if eff_const_override(fam, cd):
        pf = {f[0]: f[1] for f in G.eff_fields(fam, cd["parent"])}
        for k, _ in cd["consts"]:
            if k in pf:
                st = _singleton(pf[k])
                if st is None or st[0] != "lit":
                    out.add(k)
    return out


def _class_oracle(F, fam, name, rng, n_inst, oracle, tags, root, witness=None, n_forms=2):
    """Every generated instance the class accepts must be accepted, serialised (in each form the
    library offers: `_rejected_form`), by each of its ancestors; only the fields whose incompatible
    override was explicitly declared (by the class itself or by a class between it and that
    ancestor) are exempt."""
    chain = _ancestor_chain(fam, name)  # nearest first
    if not chain:
        return
    child = F.classes[name]
    tags.append("child-parent-checked")
    if len(chain) > 1:
        tags.append("child-grandparent-checked")
    if not G.get_cd(fam, chain[0]).get("plugin") and any(G.get_cd(fam, a).get("plugin") for a in chain[1:]):
        tags.append("unregistered-intermediate")
    consts = [k for k, _ in G.eff_consts(fam, name)]
    # fields that have a default here and are required in some ancestor
    req_above = {f[0] for a in chain for f in G.eff_fields(fam, a) if G.field_required(f)}
    dflt_req = [f[0] for f in G.eff_fields(fam, name) if f[2] is not None and f[0] in req_above]
    insts = []
    docs = [witness[1]] if witness and witness[0] == name else []  # a replay names its document
    for inp in docs + [gen_input(rng, fam, name, 2) for i in range(n_inst)]:
        try:
            o = child.parse_obj(json.loads(json.dumps(inp)))
        except Exception:
            continue
        jd = o.json_dict()
        if C12._has_nan(jd):
            continue
        if any(k not in inp for k in dflt_req):
            tags.append("relies-on-default-of-field-required-above")
        if any(k in inp for k in consts):
            tags.append("explicit-constant-input")
            if any(k in inp and k in jd and inp[k] != jd[k] for k in consts):
                tags.append("foreign-constant-input")
        insts.append((inp, jd, o))
    if insts:
        tags.append("child-instances")
    declared, below = set(), name
    for anc in chain:
        cdb = G.get_cd(fam, below)
        declared |= _declared_by(fam, below)
        if eff_const_override(fam, cdb):
            tags.append("const-override-passed")
        if declared:
            tags.append("declared-override")
        if cdb.get("mandatory"):
            tags.append("below-make-mandatory" if below != name else "make-mandatory")
        parent = F.classes[anc]
        for i, (inp, jd, o) in enumerate(insts):
            # every instance: the JSON value and `bytes(obj)`; the first few in every form the library offers
            r = _rejected_form(child, parent, o, FORMS if i < n_forms else FORMS[:2], exempt=lambda bad: bad <= declared)
            if r is None:
                continue  # accepted, or only explicitly declared overrides are affected
            d = dict(kind="child-instance-rejected-by-parent", child=name, parent=anc, input=inp, serialised=jd,
                     fields=sorted(r["fields"] - declared), error=r["error"], fam=fam, root=root)
            if r["form"] != "json_dict":
                d.update(form=r["form"], payload=r["payload"])  # the JSON value is fine, this form of it is not
            oracle.append(d)
            return
        below = anc


def _impl_ovr(case):
    from metador_core.schema.core import check_types

    out, oracle, tags = [], [], []
    fam = case["fam"]
    try:
        F = G.Family(fam)
    except (TypeError, ValueError) as e:
        return dict(out=["new:%s" % type(e).__name__], oracle=[], tags=["construction-refused"])
    try:
        out.append("new:ok")
        root = F.classes[case["root"]]
        try:
            check_types(root, recheck=True)
            out.append("check:ok")
            tags.append("check-ok")
        except (TypeError, ValueError) as e:
            out.append("check:%s" % type(e).__name__)
            tags.append("check-refused")
        if out[-1] == "check:ok":
            # oracle: every reachable class below a schema base accepts ... what its children produce
            rng = random.Random(case.get("seed", 0))
            for name in _reachable(fam, case["root"]):
                _class_oracle(F, fam, name, rng, case.get("n_inst", 12), oracle, tags, case["root"], case.get("witness"))
    finally:
        F.close()
    return dict(out=out, oracle=oracle[:5], tags=sorted(set(tags)))


def _depth(fam, name):
    return len(_ancestor_chain(fam, name))


def _impl_seq(case):
    """Plugin loads one after the other, as `PGSchema.check_plugin` does them: `check_types(cls)`
    without `recheck`, on one set of classes, in the given order (parents before / after /
    between their children, several children of one parent, repetitions, going on after a
    refusal). After every load that passes - whatever was refused before - the oracle looks at the
    loaded class and at everything reachable from it; a witness whose chain from the child up to the
    rejecting ancestor has a class that was refused earlier in the sequence is reported as
    `accepted-after-refusal`. Then `inputs`: documents parsed by family classes, validated value
    compared with the model (constant fields with explicit values among them)."""
    from metador_core.schema.core import check_types

    out, oracle, tags = [], [], []
    fam = case["fam"]
    try:
        F = G.Family(fam)
    except (TypeError, ValueError) as e:
        return dict(out=["new:%s" % type(e).__name__], oracle=[], tags=["construction-refused"])
    try:
        out.append("new:ok")
        rng = random.Random(case.get("seed", 0))
        refused, examined, checked = [], set(), []
        for name in case["loads"]:
            cls = F.classes[name]
            try:
                check_types(cls)
                out.append("check:ok")
                ok = True
            except (TypeError, ValueError) as e:
                out.append("check:%s" % type(e).__name__)
                ok = False
                tags.append("load-refused")
                if name in refused:
                    tags.append("load-refused-again")
                if any(a in refused for a in _ancestor_chain(fam, name)):
                    tags.append("load-refused-below-refused")
                if refused and name not in refused:
                    tags.append("load-refused-after-refusal")
                refused.append(name)
            if ok:
                tags.append("load-ok")
                anc = _ancestor_chain(fam, name)
                if any(a in checked for a in anc):
                    tags.append("load-after-ancestor")
                if any(name in _ancestor_chain(fam, c) for c in checked):
                    tags.append("load-after-descendant")
                if any(c not in anc and c != name and set(_ancestor_chain(fam, c)) & set(anc) for c in checked):
                    tags.append("load-after-sibling")
                if name in checked:
                    tags.append("load-repeated")
                if refused:
                    tags.append("load-ok-after-refusal")
                for n in _reachable(fam, name):
                    if n in examined:
                        continue
                    examined.add(n)
                    k = len(oracle)
                    _class_oracle(F, fam, n, rng, case.get("n_inst", 8), oracle, tags, name, case.get("witness"))
                    for d in oracle[k:]:
                        d["loads"] = list(case["loads"])
                        chain = [d["child"]] + _ancestor_chain(fam, d["child"])
                        below = chain[:chain.index(d["parent"])] if d["parent"] in chain else chain
                        if any(x in refused for x in below):
                            d["kind"] = "accepted-after-refusal"
                            d["refused_before"] = list(refused)
            checked.append(name)
        for cname, inp in case.get("inputs", []):
            try:
                o = F.classes[cname].parse_obj(json.loads(json.dumps(inp)))
            except Exception:
                out.append("err")
                tags.append("input-rejected")
                continue
            try:
                out.append(G.pyval_str(o))
                tags.append("input-accepted")
            except ValueError:
                out.append("*")
    finally:
        F.close()
    return dict(out=out, oracle=oracle[:5], tags=sorted(set(tags)))


def pln_family(a, b, dflt=None):
    """Parent `f: b`, child re-annotating `f: a` (both plugins, nothing declared), optionally with a default."""
    return [_cd("Ga", None, fields=[["f", b, None]], plugin=True), _cd("Ch", "Ga", fields=[["f", a, dflt]], plugin=True)]


def _impl_pln(case):
    """Oracle only (the plain builtins `str/int/float/bool` with pydantic's coercing validators are
    outside the Lean grammar): for each pair (a, b) the family Ga.f: b <- Ch.f: a; if class
    construction and `check_types` let it through, every value Ch accepts must serialise to
    something Ga accepts."""
    from metador_core.schema.core import check_types

    oracle, tags = [], []
    rng = random.Random(case.get("seed", 0))
    n_ok = 0
    todo = [(a, b, None) for a, b in case["pairs"]]
    while todo:
        a, b, dflt = todo.pop(0)
        fam = pln_family(a, b, dflt)
        try:
            F = G.Family(fam)
        except (TypeError, ValueError):
            tags.append("construction-refused")
            continue
        try:
            Ch, Ga = F.classes["Ch"], F.classes["Ga"]
            try:
                check_types(Ch, recheck=True)
            except (TypeError, ValueError):
                tags.append("check-refused")
                continue
            tags.append("check-ok")
            if a != b:
                tags.append("check-ok-proper")
            if dflt is None:
                n_ok += 1
            else:
                tags.append("child-gives-default")
            vals = G.boundary_values(a, fam, rng)
            for _ in range(6):
                try:
                    vals.append(G.gen_json(rng, a, fam, 2))
                except Exception:
                    pass
            n_acc, queued = 0, bool(case.get("no_defaults"))
            for v in [G.OMIT] + (vals if dflt is None else vals[:0]):
                try:
                    inp = {} if v is G.OMIT else {"f": json.loads(json.dumps(v))}
                    o = Ch.parse_obj(json.loads(json.dumps(inp)))
                    jd = o.json_dict()
                except Exception:
                    continue
                if C12._has_nan(jd):
                    continue
                n_acc += 1
                if dflt is None and v is not G.OMIT and not any(t[2] is not None and t[:2] == (a, b) for t in todo[:1]) and not queued:
                    queued = True
                    # the same pair again, the child giving the field this value as its default
                    # (the document without the field then relies on it)
                    todo.insert(0, (a, b, {"v": inp["f"]}))
                r = _rejected_form(Ch, Ga, o, FORMS if n_acc <= 3 else FORMS[:2])
                if r:
                    d = dict(kind="child-instance-rejected-by-parent", child="Ch", parent="Ga", input=inp, serialised=jd, fields=sorted(r["fields"]),
                             error=r["error"], fam=fam, root="Ch", sub=a, base=b)
                    if r["form"] != "json_dict":
                        d.update(form=r["form"], payload=r["payload"])
                    oracle.append(d)
                    break
        finally:
            F.close()
    return dict(out=None, oracle=oracle[:8], tags=sorted(set(tags)), n_ok=n_ok)


ENUMS = {
    "str": ("str", [["circle", "circle"], ["square", "square"]]),
    "int": ("int", [["one", 1], ["two", 2]]),
    "plain": (None, [["aa", "a"], ["bb", "b"]]),
}


def _impl_enm(case):
    """Oracle only (Enum types are outside the Lean grammar): the "marked subclass" pattern with an
    Enum discriminator. Chain Ga (kind: E, Optional[E], or collection-valued: List[E], Set[E],
    Optional[List[E]]; size: int) <- ... <- leaf; a class may pin `kind` with @add_const_fields (an
    Enum member, a list of members, a raw value, a foreign value, a member of another Enum; with or
    without override=True). If class construction and `check_types` let the chain through, whatever a class accepts
    (documents with and without an explicit value in the discriminator field) must serialise to
    something each of its ancestors accepts."""
    import enum
    import typing

    from metador_core.schema import MetadataSchema
    from metador_core.schema import decorators as D
    from metador_core.schema.core import check_types

    oracle, tags = [], []
    mixin, members = ENUMS[case["enum"]]
    bases = {"str": (str, enum.Enum), "int": (int, enum.Enum), None: (enum.Enum,)}[mixin]
    E = enum.Enum("Kind", [tuple(m) for m in members], type=bases[0]) if mixin else enum.Enum("Kind", [tuple(m) for m in members])
    Other = enum.Enum("Other", [("zz", "zz"), ("circle", "circle")], type=str)
    hint = {None: E, "list": typing.List[E], "set": typing.Set[E], "optlist": typing.Optional[typing.List[E]]}[case.get("shape")]
    if case.get("optional"):
        hint = typing.Optional[hint]
    meta = type(MetadataSchema)
    classes, prev = [], MetadataSchema
    try:
        for i, spec in enumerate(case["chain"]):
            name = "E%d" % i
            body = {"__module__": __name__, "__qualname__": name, "__annotations__": {}}
            if i == 0:
                body["__annotations__"] = {"kind": hint, "size": int}
            cls = meta(name, (prev,), body)
            if spec is not None:
                how, v = spec
                val = {"member": lambda: E[v], "memberlist": lambda: [E[x] for x in v], "raw": lambda: v, "other": lambda: Other[v]}[how]()
                cls = D.add_const_fields({"kind": val}, override=bool(case.get("override")))(cls)
            classes.append(cls)
            prev = cls
        check_types(classes[-1])
    except (TypeError, ValueError, KeyError) as e:
        return dict(out=None, oracle=[], tags=["refused:%s" % type(e).__name__], n_ok=0)
    tags.append("check-ok")
    if any(sp is not None for sp in case["chain"]):
        tags.append("enum-pinned")
        if case.get("shape"):
            tags.append("enum-collection-pinned")
    for ci in range(1, len(classes)):
        child = classes[ci]
        if case.get("override") and any(sp is not None for sp in case["chain"][1:ci + 1]):
            continue  # `override=True`: explicitly declared
        for doc in case["docs"]:
            try:
                o = child.parse_obj(json.loads(json.dumps(doc)))
                jd = o.json_dict()
            except Exception:
                continue
            tags.append("child-instances")
            if "kind" in doc:
                tags.append("explicit-constant-input")
            hit = False
            for ai in range(ci - 1, -1, -1):
                r = _rejected_form(child, classes[ai], o, FORMS)
                if r:
                    d = dict(kind="enum-child-instance-rejected-by-parent", child="E%d" % ci, parent="E%d" % ai, input=doc, serialised=jd, fields=sorted(r["fields"]),
                             error=r["error"], enum=case["enum"], chain=case["chain"])
                    if r["form"] != "json_dict":
                        d.update(form=r["form"], payload=r["payload"])
                    oracle.append(d)
                    hit = True
                    break
            if hit:
                break
    return dict(out=None, oracle=oracle[:3], tags=sorted(set(tags)), n_ok=1)


def gen_enm_cases(ctx):
    """Small scope, complete: Enum flavour x Optional or not x chains of 2-4 classes with a pin at
    one or two levels x how the constant is given."""
    out = []
    for en, (mixin, members) in sorted(ENUMS.items()):
        vals = [m[1] for m in members]
        docs = [{"size": 1}] + [{"size": 2, "kind": v} for v in vals] + [{"size": 3, "kind": x} for x in ("triangle", 17, None, True, [vals[0]], members[0][0])]
        pins = [("member", members[0][0]), ("member", members[1][0]), ("raw", vals[0]), ("raw", "triangle"), ("other", "zz"), ("other", "circle")]
        for optional in (False, True):
            for depth in (2, 3, 4):
                for at in range(1, depth):
                    for pin in pins:
                        chain = [None] * depth
                        chain[at] = list(pin)
                        out.append(dict(kind="enm", enum=en, optional=optional, chain=chain, docs=docs))
                        if at + 1 < depth and pin[0] == "member":
                            chain2 = list(chain)
                            chain2[at + 1] = ["member", members[1][0]]
                            out.append(dict(kind="enm", enum=en, optional=optional, chain=chain2, docs=docs, override=True))
                            out.append(dict(kind="enm", enum=en, optional=optional, chain=chain2, docs=docs))
        # collection-valued discriminators: a constant is no valid value of the collection; without
        # override=True the class definition is refused, with it the replacement is declared
        cdocs = [{"size": 1}] + [{"size": 2, "kind": [v]} for v in vals] + [{"size": 3, "kind": x} for x in (vals, [], vals[0], ["triangle"], None, [vals[0], 17])]
        cpins = [("member", members[0][0]), ("memberlist", [members[0][0]]), ("memberlist", [members[0][0], members[1][0]]), ("raw", vals[0]), ("raw", [vals[0]]), ("raw", "triangle"), ("other", "circle")]
        for shape in ("list", "set", "optlist"):
            for depth in (2, 3):
                for at in range(1, depth):
                    for pin in cpins:
                        for ovr in (False, True):
                            chain = [None] * depth
                            chain[at] = list(pin)
                            c = dict(kind="enm", enum=en, optional=False, shape=shape, chain=chain, docs=cdocs)
                            if ovr:
                                c["override"] = True
                            out.append(c)
    return out


# ----------------------------------------------------------------------------- plugin group hand-out (oracle only)
PLG_SIG = "C13:refused-plugin-handed-out"  # F37 (repaired): a schema plugin that failed its load-time checks is handed out by a later get()
PLG_HOWS = ("get", "getitem", "get-version", "get-class", "contains-get")
_plg_counter = [0]


class _PlgEP:
    """Synthetic entry point of the real `schemas` plugin group."""

    def __init__(self, obj, pkg):
        self._obj = obj
        self.dist = type("Dist", (), {"name": pkg})()

    def load(self):
        return self._obj


def _impl_plg(case):
    """Oracle only: the plugin classes of a family are installed through synthetic entry points of
    the real `schemas` plugin group (nothing loaded yet) and then asked for, one request after the
    other, in every way the group hands plugins out (`get(name)`, `[name]`, `get(name, version)`,
    `get(cls)`), the same plugin repeatedly. A plugin that fails its load-time checks
    (`PGSchema.check_plugin` = `check_types`) must be refused by EVERY request: whatever a request
    hands out must pass an independent `check_types` (on the same family built afresh), and a plugin refused once
    must not be handed out later (the family does not change in between)."""
    from metador_core.plugin.types import to_ep_name
    from metador_core.plugins import schemas
    from metador_core.schema.core import check_types
    from metador_core.schema.plugins import PluginPkgMeta

    oracle, tags, log = [], [], []
    fam = case["fam"]
    try:
        F = G.Family(fam)
    except (TypeError, ValueError) as e:
        return dict(out=None, oracle=[], tags=["construction-refused"], n_ok=0, log=["new:%s" % type(e).__name__])
    _plg_counter[0] += 1
    pkg = "vt-plg-%d" % _plg_counter[0]
    installed = {}
    try:
        for cd in fam:
            if not cd.get("plugin"):
                continue
            cls = F.classes[cd["name"]]
            pname = "vt.%s.x%d" % (cd["name"].lower(), _plg_counter[0])
            cls.Plugin.name = pname  # unique per case: the worker process lives on
            ver = tuple(cls.Plugin.version)
            ref = schemas.PluginRef(name=pname, version=ver)
            ep = to_ep_name(pname, ver)
            schemas._ENTRY_POINTS[ep] = _PlgEP(cls, pkg)
            schemas._VERSIONS.setdefault(pname, []).append(ref)
            installed[cd["name"]] = (pname, ver, ref, ep, cls)
        schemas._PKG_META[pkg] = PluginPkgMeta(name=pkg, version=(0, 1, 0), plugins={"schema": [x[2] for x in installed.values()]})
        refused, handed = {}, []
        for i, (name, how) in enumerate(case["gets"]):
            pname, ver, ref, ep, cls = installed[name]
            try:
                if how == "get":
                    r = schemas.get(pname)
                elif how == "getitem":
                    r = schemas[pname]
                elif how == "get-version":
                    r = schemas.get(pname, ver)
                elif how == "get-class":
                    r = schemas.get(cls)
                elif how == "contains-get":
                    r = schemas[pname, ver] if (pname, ver) in schemas else None
                else:
                    raise ValueError(how)
            except (TypeError, ValueError) as e:
                log.append("%s %s: refused:%s" % (how, name, type(e).__name__))
                tags.append("request-refused")
                if name in refused:
                    tags.append("request-refused-again")
                refused.setdefault(name, i)
                continue
            if r is None:
                log.append("%s %s: none" % (how, name))
                continue
            log.append("%s %s: handed-out" % (how, name))
            tags.append("handed-out")
            if refused:
                tags.append("handed-out-after-a-refusal")
            handed.append((i, name, how))
            if name in refused:
                oracle.append(dict(kind="refused-plugin-handed-out", plugin=name, request=i, how=how, refused_at=refused[name], log=list(log), fam=fam, gets=case["gets"]))
                break
        if not oracle:
            seen = set()
            for i, name, how in handed:
                if name in seen:
                    continue
                seen.add(name)
                F2 = G.Family(fam)  # the same family built afresh: no marks of earlier examinations
                try:
                    check_types(F2.classes[name])
                except (TypeError, ValueError) as e:
                    oracle.append(dict(kind="refused-plugin-handed-out", plugin=name, request=i, how=how, refused_at=None, check_error=("%s: %s" % (type(e).__name__, e))[:200],
                                       log=list(log), fam=fam, gets=case["gets"]))
                    break
                finally:
                    F2.close()
    finally:
        for name, (pname, ver, ref, ep, cls) in installed.items():
            schemas._ENTRY_POINTS.pop(ep, None)
            schemas._VERSIONS.pop(pname, None)
            schemas._LOADED_PLUGINS.pop(ref, None)
            for dct in (getattr(schemas, "_parents", None), getattr(schemas, "_children", None)):
                if isinstance(dct, dict):
                    dct.pop(ref, None)
            for dname in ("_parent_schema", "_field_types", "_subschemas", "_partials"):
                dct = getattr(schemas, dname, None)
                if isinstance(dct, dict):
                    dct.pop(cls, None)
        schemas._PKG_META.pop(pkg, None)
        F.close()
    return dict(out=None, oracle=oracle, tags=sorted(set(tags)), n_ok=len(log), log=log)


def shrink_plg(req):
    case, detail = req["case"], req["detail"]

    def fails(c):
        try:
            r = _impl_plg(c)
        except Exception:
            return None
        return r["oracle"][0] if r["oracle"] else None

    cur, det = dict(case), fails(case)
    if not det:
        return None
    j = 0
    while j < len(cur["gets"]) and len(cur["gets"]) > 1:
        c = dict(cur, gets=cur["gets"][:j] + cur["gets"][j + 1:])
        d = fails(c)
        if d:
            cur, det = c, d
        else:
            j += 1
    i = len(cur["fam"]) - 1
    while i >= 0:
        nm = cur["fam"][i]["name"]
        if nm not in [g[0] for g in cur["gets"]]:
            c = dict(cur, fam=[cd for k, cd in enumerate(cur["fam"]) if k != i])
            d = fails(c)
            if d:
                cur, det = c, d
        i -= 1
    return dict(case=cur, detail=det)


def gen_plg_cases(ctx):
    """The families of the load-sequence cases (focused ones, those that go on after a refusal, random
    trees), their load orders turned into requests to the plugin group: every load becomes one to
    three requests of a randomly chosen kind, so that refused plugins are asked for again."""
    rng = ctx.rng
    src = after_refusal_cases() + focused_seq()[::3] + [rand_seq_case(rng, 0) for _ in range(60 if ctx.quick else 1200)]
    out = []
    for c in src:
        plugins = {cd["name"] for cd in c["fam"] if cd.get("plugin")}
        gets = []
        for n in c["loads"]:
            if n in plugins:
                for _ in range(rng.choice([1, 2, 2, 3])):
                    gets.append([n, rng.choice(PLG_HOWS)])
        if gets:
            out.append(dict(kind="plg", fam=c["fam"], gets=gets))
    # F37 as found: the same refused plugin asked for twice, each kind of request first / second
    I = ["int"]
    fam = seq_family([("Ch", "Ga", dict(f=(["opt", I], False))), ("Le", "Ch", dict())], [["f", I, None]])
    for h1 in PLG_HOWS:
        for h2 in PLG_HOWS:
            out.append(dict(kind="plg", fam=fam, gets=[["Ch", h1], ["Ch", h2]]))
            out.append(dict(kind="plg", fam=fam, gets=[["Le", h1], ["Ga", "get"], ["Ch", h2], ["Le", h2]]))
    return out


# ----------------------------------------------------------------------------- pydantic Field settings (oracle only)
FIN_KIND = "field-settings-instance-rejected-by-parent"
# Known findings of this case kind on the repository as it is (recorded in known_findings.json, not repaired:
# `check_overrides` / `is_subtype` compare type hints only - metadata of Annotated dropped, `= Field(...)` is no
# hint at all - so the pydantic Field settings of an overriding field are invisible to the check):
FIN_ALIAS_SIG = "C13:field-info-override-unsound:alias"  # F40: the child introduces / changes / drops a Field alias
FIN_CONSTRAINT_SIG = "C13:field-info-override-unsound:constraint"  # F41: a constraint of the parent's Field (bound, length, regex, item count, `...` = required) is dropped / loosened by the re-annotation
# Both hold where the annotation status of the two hints agrees (both Annotated, or both not). A child
# `Annotated[T, Field(..)]` over a plain parent hint (or the reverse) is REFUSED by `is_subtype` as the code
# stands; a witness of that shape gets its own signature:
FIN_ANN_OVER_PLAIN_SIG = "C13:override-unsound:annotated-over-plain"
FIN_PLAIN_OVER_ANN_SIG = "C13:override-unsound:plain-over-annotated"
FIN_ADDED_SIG = "C13:field-info-override-unsound:constraint-added"  # F42: a Field constraint ADDED by the child to a phantom string type makes
# pydantic swap the type for a constrained `str` - the phantom type's parser is lost (P.f: MimeTypeStr <- C.f: MimeTypeStr = Field(max_length=3);
# C accepts "ab", P rejects it)
FIN_KNOWN_SIGS = (FIN_ALIAS_SIG, FIN_CONSTRAINT_SIG, FIN_ADDED_SIG)
# Signatures of this case kind that were reported to the coordinator and are neither repaired nor recorded yet: their hits are printed as
# notes ("PENDING-FINDING"), not as violations. Empty: F40-F42 are recorded in known_findings.json and go the normal known-finding way.
FIN_PENDING = set()
FIN_CONSTRAINTS = ("gt", "ge", "lt", "le", "multiple_of", "min_length", "max_length", "regex", "min_items", "max_items", "unique_items", "const")


def _fin_field(args):
    from pydantic import Field

    return Field(**{k: v for k, v in args.items()})


def fin_build(chain, modname=__name__):
    """Real classes E0 <- E1 <- ... of a `fin` chain. chain[i] = None (the class leaves `f` alone) or
    dict(ty, how, args, default, declared): `f` (re-)annotated with the grammar type `ty`, the pydantic
    Field settings `args` attached as `Annotated[T, Field(...)]` (how = "ann"), as `f: T = Field(...)`
    (how = "dflt") or not at all (how = "plain"); `default` = {"v": value} | None; `declared` = @override."""
    from typing_extensions import Annotated

    from metador_core.schema import MetadataSchema
    from metador_core.schema import decorators as D

    meta = type(MetadataSchema)
    classes, prev = [], MetadataSchema
    for i, sp in enumerate(chain):
        name = "E%d" % i
        body = {"__module__": modname, "__qualname__": name, "__annotations__": {}}
        if i == 0:
            body["__annotations__"]["size"] = int
        if sp is not None:
            if '"lit"' in json.dumps(sp["ty"]):
                G.typing_cache_clear()
            hint = G.to_hint(sp["ty"], {})
            args, dflt = dict(sp.get("args") or {}), sp.get("default")
            if sp["how"] == "ann":
                hint = Annotated[hint, _fin_field(args)]
                if dflt is not None:
                    body["f"] = dflt["v"]
            elif sp["how"] == "dflt":
                from pydantic import Field

                body["f"] = Field(dflt["v"] if dflt is not None else ..., **args)
            elif dflt is not None:
                body["f"] = dflt["v"]
            body["__annotations__"]["f"] = hint
        cls = meta(name, (prev,), body)
        if sp is not None and sp.get("declared"):
            cls = D.override("f")(cls)
        classes.append(cls)
        prev = cls
    return classes


def _fin_eff(chain, i):
    """The spec that defines `f` as class i sees it."""
    while chain[i] is None:
        i -= 1
    return chain[i]


def _fin_values(chain):
    """Candidate values for `f`: the boundary corpus of every type in the chain and the
    neighbourhood of every bound named by a Field setting anywhere in the chain."""
    vals = [5, "ab", "a/b", [1, 2], 1.5]  # ordinary values first: the witness found first reads best
    for sp in chain:
        if sp is None:
            continue
        vals += G.boundary_values(sp["ty"])
        a = sp.get("args") or {}
        for k in ("gt", "ge", "lt", "le", "multiple_of"):
            if k in a:
                b = a[k]
                vals += [b - 1, b, b + 1, float(b), b + 0.5, 2 * b, 3 * b + 1]
        for k in ("min_length", "max_length"):
            if k in a:
                vals += ["x" * n for n in (a[k] - 1, a[k], a[k] + 1) if n >= 0]
        for k in ("min_items", "max_items"):
            if k in a:
                vals += [list(range(n)) for n in (a[k] - 1, a[k], a[k] + 1) if n >= 0]
        if "unique_items" in a:
            vals += [[1, 1], [1, 2]]
        if "regex" in a:
            vals += ["ab", "zz", "a1", "abab"]
        if sp.get("default") is not None:
            vals.append(sp["default"]["v"])
    seen, out = set(), []
    for v in vals:
        key = json.dumps(v, sort_keys=True) + type(v).__name__
        if key not in seen:
            seen.add(key)
            out.append(v)
    return out


def _impl_fin(case):
    """Oracle only (pydantic's Field settings are outside the Lean grammar): chains E0 <- E1 [<- E2]
    in which every class may (re-)annotate `f` and attach Field settings (alias, description,
    bounds, lengths, regex, item counts, const, a default) via Annotated, via `= Field(...)`, or
    not at all - on the child's and / or the parent's side. If class construction and `check_types`
    let the chain through, whatever a class accepts (the value given under the field name, under
    each alias of the chain, or left to the default) must serialise - in every form - to something
    each of its ancestors accepts, unless the override was declared."""
    from metador_core.schema.core import check_types

    oracle, tags = [], []
    chain = case["chain"]
    try:
        classes = fin_build(chain)
    except Exception as e:  # noqa: BLE001 - pydantic raises ValueError / ConfigError / TypeError for settings it cannot enforce
        return dict(out=None, oracle=[], tags=["construction-refused:%s" % type(e).__name__], n_ok=0)
    try:
        check_types(classes[-1], recheck=True)
    except (TypeError, ValueError) as e:
        return dict(out=None, oracle=[], tags=["check-refused:%s" % type(e).__name__], n_ok=0)
    tags.append("check-ok")
    hows = sorted({sp["how"] for sp in chain if sp})
    tags.append("hows:" + "+".join(hows))
    if any((sp.get("args") or {}).get("alias") for sp in chain if sp):
        tags.append("alias-in-chain")
    if any(set(sp.get("args") or {}) & set(FIN_CONSTRAINTS) for sp in chain if sp):
        tags.append("constraint-in-chain")
    keys = ["f"] + sorted({sp["args"]["alias"] for sp in chain if sp and (sp.get("args") or {}).get("alias")})
    docs = case.get("docs")
    if docs is None:
        docs = [{"size": 1}] + [{"size": 1, k: v} for v in _fin_values(chain) for k in keys]
    for ci in range(1, len(classes)):
        child = classes[ci]
        n_acc = 0
        for doc in docs:
            try:
                o = child.parse_obj(json.loads(json.dumps(doc)))
                jd = o.json_dict()
            except Exception:
                continue
            if C12._has_nan(jd):
                continue
            n_acc += 1
            tags.append("child-instances")
            if not any(k in doc for k in keys):
                tags.append("relies-on-default")
            for ai in range(ci - 1, -1, -1):
                if any(chain[k] is not None and chain[k].get("declared") for k in range(ai + 1, ci + 1)):
                    break  # explicitly declared: this ancestor and those above need not accept
                r = _rejected_form(child, classes[ai], o, FORMS if n_acc <= 4 else FORMS[:2])
                if r:
                    d = dict(kind=FIN_KIND, child=ci, parent=ai, input=doc, serialised=jd, fields=sorted(r["fields"]), error=r["error"], chain=chain)
                    if r["form"] != "json_dict":
                        d.update(form=r["form"], payload=r["payload"])
                    if not case.get("noshrink"):
                        # minimised right here (cheap, and the signature is read off the minimal chain)
                        sh = shrink_fin(dict(case=case, detail=d))
                        if sh:
                            d = dict(sh["detail"], shrunk_case=sh["case"])
                    oracle.append(d)
                    return dict(out=None, oracle=oracle, tags=sorted(set(tags)), n_ok=1)
    return dict(out=None, oracle=oracle, tags=sorted(set(tags)), n_ok=1)


def _fin_aspect(detail):
    """What the accepted child changed relative to the rejecting ancestor (read off the - shrunk - chain)."""
    chain = detail["chain"]
    cs, ps = _fin_eff(chain, detail["child"]), _fin_eff(chain, detail["parent"])
    ca, pa = cs.get("args") or {}, ps.get("args") or {}
    if ca.get("alias") != pa.get("alias"):
        aspect = "alias"  # the key the value travels under (dumps are by alias; an unknown key is an extra field)
    elif any(k in pa and ca.get(k) != pa[k] for k in FIN_CONSTRAINTS):
        aspect = "constraint"  # a bound of the ancestor's field is gone / different (a re-annotated field is a fresh field)
    elif any(k in ca and k not in pa for k in FIN_CONSTRAINTS):
        aspect = "constraint-added"  # pydantic swaps the type for a constrained one
    elif cs["ty"] != ps["ty"]:
        aspect = "type"
    elif ps["how"] == "dflt" and ps.get("default") is None and not (cs["how"] == "dflt" and cs.get("default") is None):
        aspect = "required"  # `= Field(...)`: required even if nullable
    elif cs.get("default") is not None and ps.get("default") is None:
        aspect = "default"
    else:
        aspect = "other"
    return aspect, cs["how"], ps["how"]


def shrink_fin(req):
    """Inside a worker: the witness document only, then drop classes / settings / defaults of the
    chain while the same kind of witness (same serialisation form) is still produced."""
    case, detail = req["case"], req["detail"]

    def fails(c):
        try:
            r = _impl_fin(dict(c, noshrink=True))
        except Exception:
            return None
        ds = [d for d in r["oracle"] if d.get("form") == detail.get("form")]
        return ds[0] if ds else None

    case = {k: v for k, v in case.items() if k != "noshrink"}
    cur = dict(case, docs=[detail["input"]])
    det = fails(cur)
    if not det:
        cur, det = dict(case), fails(case)
        if not det:
            return None
    changed = True
    while changed:
        changed = False
        chain = cur["chain"]
        cands = []
        for i in range(1, len(chain)):
            if len(chain) > 2:
                cands.append(chain[:i] + chain[i + 1:])  # without class i
            if chain[i] is not None and i < len(chain) - 1:
                cands.append(chain[:i] + [None] + chain[i + 1:])
        for i, sp in enumerate(chain):
            if sp is None:
                continue
            for k in sorted(sp.get("args") or {}):
                sp2 = dict(sp, args={kk: vv for kk, vv in sp["args"].items() if kk != k})
                cands.append(chain[:i] + [sp2] + chain[i + 1:])
            if sp.get("default") is not None:
                cands.append(chain[:i] + [dict(sp, default=None)] + chain[i + 1:])
            if sp["how"] != "plain" and not (sp.get("args") or {}):
                cands.append(chain[:i] + [dict(sp, how="plain")] + chain[i + 1:])
        for ch2 in cands:
            c = dict(cur, chain=ch2)
            d = fails(c)
            if d:
                cur, det, changed = c, d, True
                break
    return dict(case=cur, detail=det)


FIN_TYPES = {
    # inherited type -> (types a child may re-annotate with, settings that make sense for it)
    "pint": ([["pint"]], [dict(gt=0), dict(ge=1, lt=10), dict(le=5), dict(multiple_of=2)]),
    "int": ([["int"]], [dict(gt=0)]),  # strict phantom type: pydantic refuses bounds it cannot enforce
    "pfloat": ([["pfloat"], ["pint"]], [dict(gt=0), dict(le=1.5)]),
    "pstr": ([["pstr"], ["nes"]], [dict(max_length=2), dict(min_length=2), dict(regex="^a")]),
    "str": ([["str"], ["nes"]], [dict(max_length=2), dict(regex="^a")]),
    "nes": ([["nes"], ["mime"]], [dict(max_length=3)]),
    "mime": ([["mime"]], [dict(max_length=3), dict(min_length=2)]),
    "list": ([["list", ["int"]]], [dict(max_items=1), dict(min_items=1), dict(unique_items=True)]),
    "optint": ([["opt", ["pint"]], ["pint"]], [dict(gt=0), dict(lt=3)]),
    "lit": ([["lit", ["a", "b"]], ["lit", ["a"]]], []),
}
FIN_TOP = {"pint": ["pint"], "int": ["int"], "pfloat": ["pfloat"], "pstr": ["pstr"], "str": ["str"], "nes": ["nes"], "mime": ["mime"], "list": ["list", ["int"]], "optint": ["opt", ["pint"]], "lit": ["lit", ["a", "b"]]}
FIN_DEFAULTS = {"pint": 4, "int": 4, "pfloat": 1.0, "pstr": "ab", "str": "ab", "nes": "a/b", "mime": "a/b", "list": [1], "optint": 2, "lit": "a"}
FIN_ALIASES = ["@id", "f_alias"]


def _fin_settings(tk, side):
    """Field settings one side of an override may carry: nothing, something harmless, an alias,
    each constraint that fits the type, const (with a default), combinations."""
    cons = FIN_TYPES[tk][1]
    out = [dict(), dict(description="text"), dict(alias=FIN_ALIASES[0]), dict(alias=FIN_ALIASES[1] if side == "child" else FIN_ALIASES[0], title="T")]
    out += [dict(c) for c in cons]
    if cons:
        out.append(dict(cons[0], alias=FIN_ALIASES[0]))
    out.append(dict(const=True))
    return out


def _fin_specs(tk, ty, side):
    """All ways one class can put `f: ty` with settings: plain (no settings, with / without a default),
    Annotated[ty, Field(...)], `= Field(...)`."""
    dv = {"v": FIN_DEFAULTS[tk]}
    out = [dict(ty=ty, how="plain", args={}, default=None), dict(ty=ty, how="plain", args={}, default=dv)]
    for a in _fin_settings(tk, side):
        for how in ("ann", "dflt"):
            if "const" in a:
                out.append(dict(ty=ty, how=how, args=a, default=dv))
            else:
                out.append(dict(ty=ty, how=how, args=a, default=None))
                if a.get("alias") or not a:
                    out.append(dict(ty=ty, how=how, args=a, default=dv))
    return out


def fin_space():
    """Small scope, complete: two-class chains over each type of FIN_TYPES: parent spec x child spec
    (child type the same or narrower)."""
    out = []
    for tk in sorted(FIN_TYPES):
        for ps in _fin_specs(tk, FIN_TOP[tk], "parent"):
            for x in FIN_TYPES[tk][0]:
                for cs in _fin_specs(tk, x, "child"):
                    out.append(dict(kind="fin", chain=[ps, cs]))
    return out


def rand_fin_case(rng):
    """Chains of 3-4 classes: every class below the top leaves `f` alone or re-annotates it in one of
    the ways of `_fin_specs`, sometimes declared."""
    tk = rng.choice(sorted(FIN_TYPES))
    chain = [rng.choice(_fin_specs(tk, FIN_TOP[tk], "parent"))]
    for i in range(rng.choice([2, 2, 3])):
        if rng.random() < 0.35:
            chain.append(None)
            continue
        sp = dict(rng.choice(_fin_specs(tk, rng.choice(FIN_TYPES[tk][0]), rng.choice(["child", "parent"]))))
        if rng.random() < 0.12:
            sp["declared"] = True
        chain.append(sp)
    if all(sp is None for sp in chain[1:]):
        chain[-1] = rng.choice(_fin_specs(tk, FIN_TOP[tk], "child"))
    return dict(kind="fin", chain=chain)


def gen_fin_cases(ctx):
    spc = fin_space()
    total = len(spc)
    if ctx.quick:
        spc = ctx.rng.sample(spc, 320)
        n = 80
    else:
        # a third of the space per run (the whole of it takes ~15 min of the thorough budget: every hit is minimised)
        spc = ctx.rng.sample(spc, 4000)
        n = 800
    ctx.notes.append("field settings: %d of the %d two-class chains (%d types x parent spec x child spec), %d random chains of 3-4 classes, %d fixed probes" % (len(spc), total, len(FIN_TYPES), n, len(focused_fin())))
    return focused_fin() + spc + [rand_fin_case(ctx.rng) for _ in range(n)]


def focused_fin():
    """Always present: the alias / constraint / default patterns on each attachment form, in two- and three-class chains."""
    out = []
    P = lambda ty, how="plain", default=None, **a: dict(ty=ty, how=how, args=a, default=default)
    I, S = ["pint"], ["pstr"]
    for ph in ("plain", "ann", "dflt"):
        for ch in ("ann", "dflt"):
            pa = {} if ph == "plain" else dict(description="d")
            out.append(dict(kind="fin", chain=[P(I, ph, **pa), P(I, ch, alias="@id")]))
            out.append(dict(kind="fin", chain=[P(["int"], ph, **pa), P(["int"], ch, alias="@id")]))
            out.append(dict(kind="fin", chain=[P(I, ph, **pa), None, P(I, ch, alias="@id"), None]))
            out.append(dict(kind="fin", chain=[P(I, ph, **pa), P(I, ch, alias="@id", default={"v": 3})]))
            out.append(dict(kind="fin", chain=[P(S, ph, **pa), P(S, ch, max_length=2)]))
            out.append(dict(kind="fin", chain=[P(I, ph, **pa), P(I, ch, gt=0)]))
            out.append(dict(kind="fin", chain=[P(I, ph, **pa), P(I, ch, const=True, default={"v": 3})]))
        for ch in ("ann", "dflt"):
            # a constraint ADDED to a phantom string type
            pa = {} if ph == "plain" else dict(description="d")
            out.append(dict(kind="fin", chain=[P(["mime"], ph, **pa), P(["mime"], ch, max_length=3)]))
            out.append(dict(kind="fin", chain=[P(["nes"], ph, **pa), P(["mime"], ch, min_length=2)]))
        if ph != "plain":
            for ch in ("plain", "ann", "dflt"):
                ca = {} if ch == "plain" else dict(description="d")
                out.append(dict(kind="fin", chain=[P(I, ph, alias="@id"), P(I, ch, **ca)]))
                out.append(dict(kind="fin", chain=[P(S, ph, max_length=2), P(S, ch, **ca)]))
                out.append(dict(kind="fin", chain=[P(I, ph, gt=0), P(I, ch, **ca)]))
                out.append(dict(kind="fin", chain=[P(I, ph, gt=0), None, P(I, ch, **ca)]))
    return out


def _bad_fields(e):
    """Top-level field names a validation error complains about (`parse_raw` reports through a
    wrapper model: locations start with `__root__` there)."""
    try:
        out = set()
        for er in e.errors():
            loc = [x for x in er.get("loc", ()) if x != "__root__"]
            if loc:
                out.add(str(loc[0]))
        return out
    except Exception:
        return set()


# ----------------------------------------------------------------------------- serialisation forms
# Every way the library offers to turn an instance into something that can be stored / handed on.
# `bytes(obj)` is what gets written into containers (the property's observation point:
# `Parent.parse_raw(bytes(child_obj))`); `json_dict` comes first because the signatures of
# violations that show in every form are those of the value, not of the form.
FORMS = ("json_dict", "bytes", "json", "str", "yaml")
TEXT_FORMS = ("bytes", "json", "str")


def _payload(o, form):
    if form == "json_dict":
        return o.json_dict()
    if form == "bytes":
        return bytes(o)
    if form == "json":
        return o.json()
    if form == "str":
        return str(o)
    if form == "yaml":
        return o.yaml()
    raise ValueError(form)


def _parse_form(cls, form, payload):
    if form == "json_dict":
        return cls.parse_obj(json.loads(json.dumps(payload)))
    return cls.parse_raw(payload)


def _payload_text(payload):
    if isinstance(payload, bytes):
        return payload.decode("utf-8", "replace")
    return payload if isinstance(payload, str) else json.dumps(payload)


def _rejected_form(child, parent, o, forms, exempt=None):
    """The first serialisation form of the instance `o` that `parent` rejects although the class
    of the instance reads it back: dict(form, payload, error, fields), or None. `exempt(fields)`
    true = the rejection only concerns fields that need not be accepted (declared overrides)."""
    for form in forms:
        try:
            p = _payload(o, form)
        except Exception:
            continue  # no such serialisation: the round trip is C12's business
        try:
            _parse_form(parent, form, p)
            continue
        except Exception as e:
            err = e
        bad = _bad_fields(err)
        if form in TEXT_FORMS:
            # the fields from a direct parse of the document (a YAML fallback may say less)
            try:
                parent.parse_obj(json.loads(p))
            except Exception as e2:
                bad = _bad_fields(e2) or bad
        if exempt is not None and bad and exempt(bad):
            continue
        try:
            _parse_form(child, form, p)
        except Exception:
            continue  # the class does not read its own output back: C12's business
        return dict(form=form, payload=_payload_text(p)[:400], error=("%s: %s" % (type(err).__name__, err))[:300], fields=bad)
    return None


def _ancestor_chain(fam, name):
    """Proper ancestors of a family class, nearest first."""
    out, p = [], G.get_cd(fam, name)["parent"]
    while p and p not in out:
        out.append(p)
        p = G.get_cd(fam, p)["parent"]
    return out


def _mentions(ty, acc):
    if ty[0] == "model":
        acc.add(ty[1])
    elif ty[0] in ("opt", "list", "set", "ann"):
        _mentions(ty[1], acc)
    elif ty[0] == "union":
        for t in ty[1]:
            _mentions(t, acc)
    return acc


def _reachable(fam, root):
    seen, todo = [], [root]
    while todo:
        n = todo.pop()
        if n in seen:
            continue
        seen.append(n)
        cd = G.get_cd(fam, n)
        if cd["parent"]:
            todo.append(cd["parent"])
        for f in G.eff_fields(fam, n):
            todo += sorted(_mentions(f[1], set()))
    return seen


def _impl_anc(case):
    from pydantic import ValidationError

    from metador_core.schema.core import MetadataSchema

    S = G.installed_schemas()[case["schema"]]
    ancestors = [c for c in S.__mro__[1:] if isinstance(c, type) and issubclass(c, MetadataSchema) and c is not MetadataSchema]
    rng = random.Random(case["seed"])
    oracle, tags, nvalid = [], [], 0
    explicit = case.get("inputs")
    for i in range(len(explicit) if explicit is not None else case["n"]):
        inp = explicit[i] if explicit is not None else G.gen_model_input(rng, S, case.get("depth", 2))
        o = None
        for attempt in range(8):
            try:
                o = S.parse_obj(json.loads(json.dumps(inp)))
                break
            except ValidationError as e:
                if explicit is not None or not G.repair_input(inp, e.errors()):
                    break
        if o is None:
            tags.append("gen-invalid")
            continue
        nvalid += 1
        try:
            jd = o.json_dict()
        except Exception:
            continue  # C12's business
        for A in ancestors:
            r = _rejected_form(S, A, o, FORMS if nvalid <= 1 else FORMS[:2])
            if r:
                d = dict(kind="instance-rejected-by-ancestor", schema=case["schema"], ancestor=A.__name__, input=json.loads(json.dumps(inp)),
                         fields=sorted(r["fields"]), error=r["error"])
                if r["form"] != "json_dict":
                    d.update(form=r["form"], payload=r["payload"])
                oracle.append(d)
                break
    tags.append("installed:%s:%d-ancestors" % (case["schema"], len(ancestors)))
    if ancestors:
        tags.append("has-ancestors")
    return dict(out=None, oracle=oracle[:5], tags=tags, nvalid=nvalid, ancestors=len(ancestors))


# ----------------------------------------------------------------------------- model lines
def fam_lines(fam):
    """`def` lines: the class table as *declared* (own annotations, parent, decorators)."""
    L = []
    for cd in fam:
        parts = ["def", cd["name"], cd["parent"] or "-", cd["extra"] or "-"]
        for f in cd["fields"]:
            d = "-" if f[2] is None else G.json_str(f[2]["v"])
            parts.append("fld(%s,%s,%s)" % (G.hx(f[0]), G.ty_str(f[1]), d))
        for k, v in cd["consts"]:
            parts.append("const(%s,%s)" % (G.hx(k), G.json_str(v)))
        for n in cd.get("overrides", []):
            parts.append("ovr(%s)" % G.hx(n))
        for n in cd.get("mandatory", []):
            parts.append("mand(%s)" % G.hx(n))
        if eff_const_override(fam, cd):
            parts.append("constovr")  # the `override=True` that Family passes to add_const_fields
        L.append(" ".join(parts))
    return L


def _nf(strs):
    closure = set(strs)
    for k in G.OPAQUE:
        for s in strs:
            n = C12.NF.get(k, {}).get(s)
            if isinstance(n, str):
                closure.add(n)
    return G.nf_lines(C12.NF, closure)


def lines(case):
    kind = case["kind"]
    if kind == "sub":
        return fam_lines(case["fam"]) + ["build"] + ["sub %s %s" % (G.ty_str(a), G.ty_str(b)) for a, b in case["pairs"]]
    if kind == "acc":
        strs = G.strings_in(case["values"])
        for cd in case["fam"]:
            for f in cd["fields"]:
                if f[2] is not None:
                    G.strings_in(f[2]["v"], strs)
        return _nf(strs) + fam_lines(case["fam"]) + ["build"] + ["dec %s %s" % (G.ty_str(case["ty"]), G.json_str(v)) for v in case["values"]]
    if kind == "ovr":
        return fam_lines(case["fam"]) + ["build", "chk %s" % case["root"]]
    if kind == "seq":
        strs = G.strings_in([inp for _, inp in case.get("inputs", [])])
        for cd in case["fam"]:
            for f in cd["fields"]:
                if f[2] is not None:
                    G.strings_in(f[2]["v"], strs)
        return (_nf(strs) + fam_lines(case["fam"]) + ["build"] + ["load %s" % n for n in case["loads"]]
                + ["dec model(%s) %s" % (n, G.json_str(inp)) for n, inp in case.get("inputs", [])])
    return []


def compare(case, ir, mo):
    kind = case["kind"]
    if kind == "anc":
        return None
    if kind in ("pln", "enm", "fin", "plg"):
        return None
    nf = len(fam_lines(case["fam"]))
    if kind == "seq":
        nl, ni = len(case["loads"]), len(case.get("inputs", []))
        mo = mo[len(mo) - (nl + ni + 1):]
        build, a = mo[0], ir["out"]
        if a[0] != "new:ok":
            return "construction: impl=%s model=ok" % a[0] if build == "ok" else None
        if build != "ok":
            return "construction: impl=ok model=%s" % build
        for i, n in enumerate(case["loads"]):
            if a[1 + i] != mo[1 + i]:
                return "load %d (%s after %s): check_types: impl=%s model=%s" % (i, n, ",".join(case["loads"][:i]) or "-", a[1 + i], mo[1 + i])
        for i, (n, inp) in enumerate(case.get("inputs", [])):
            x, y = a[1 + nl + i], mo[1 + nl + i]
            if x == "*":
                continue
            if (x == "err") != y.startswith("err"):
                return "input %d (%s %s): acceptance differs: impl=%r model=%r" % (i, n, json.dumps(inp)[:120], x[:120], y[:120])
            if x != "err" and G.canon_term(x) != G.canon_term(y):
                return "input %d (%s %s): validated value differs: impl=%r model=%r" % (i, n, json.dumps(inp)[:120], G.canon_term(x)[:200], G.canon_term(y)[:200])
        return None
    if kind == "sub":
        mo = mo[nf + 1:]
        return core.default_compare(case, ir, mo)
    if kind == "acc":
        mo = mo[len(mo) - len(case["values"]):]
        a = ir["out"]
        for i, (x, y) in enumerate(zip(a, mo)):
            if x == "*":
                continue
            if (x == "err") != y.startswith("err"):
                return "value %d (%s): acceptance differs: impl=%r model=%r" % (i, json.dumps(case["values"][i])[:80], x[:120], y[:120])
            if x != "err" and G.canon_term(x) != G.canon_term(y):
                return "value %d (%s): validated value differs: impl=%r model=%r" % (i, json.dumps(case["values"][i])[:80], G.canon_term(x)[:200], G.canon_term(y)[:200])
        return None
    if kind == "ovr":
        build, chk = mo[nf], mo[nf + 1]
        a = ir["out"]
        if a[0] != "new:ok":
            # class construction refused by the metaclass / decorators
            if build == "ok":
                return "construction: impl=%s model=ok" % a[0]
            return None
        if build != "ok":
            return "construction: impl=ok model=%s" % build
        if a[1] != chk:
            return "check_types: impl=%s model=%s" % (a[1], chk)
        return None
    return None


# ----------------------------------------------------------------------------- generators
def base_table(rng=None):
    """Class table used for subtype pairs: a small hierarchy of nested schemas."""
    I = ["int"]
    return [
        dict(name="Na", parent=None, extra=None, fields=[["x", ["opt", I], None]], consts=[], overrides=[], mandatory=[]),
        dict(name="Nb", parent="Na", extra=None, fields=[["y", ["opt", ["nes"]], None]], consts=[], overrides=[], mandatory=[]),
        dict(name="Nc", parent="Nb", extra=None, fields=[["x", I, None]], consts=[], overrides=[], mandatory=[]),
        dict(name="Nd", parent=None, extra="forbid", fields=[["id", ["nes"], None]], consts=[], overrides=[], mandatory=[]),
    ]


MODELS = ["Na", "Nb", "Nc", "Nd"]


def narrow(rng, ty, depth=2):
    """A type that should be accepted as an override of `ty` (mostly)."""
    k = ty[0]
    r = rng.random()
    if k == "opt":
        return ty[1] if r < 0.5 else ["opt", narrow(rng, ty[1], depth - 1)]
    if k == "union":
        if r < 0.5 and len(ty[1]) > 1:
            alts = [t for t in ty[1]]
            del alts[rng.randrange(len(alts))]
            return alts[0] if len(alts) == 1 else ["union", alts]
        i = rng.randrange(len(ty[1]))
        alts = list(ty[1])
        n = narrow(rng, alts[i], depth - 1)
        if n[0] not in ("opt", "union") and n not in alts:
            alts[i] = n
        return ["union", alts]
    if k in ("list", "set"):
        return [k, narrow(rng, ty[1], depth - 1)]
    if (k in G.STRLIKE or k in ("int", "bool")) and r < 0.25:
        # a Literal over a plain / constrained type: values from the type's boundary corpus
        # (for strings that includes the empty and the blank string)
        pool = G.LIT_STR if k in G.STRLIKE else (G.LIT_INT if k == "int" else [True, False])
        return ["lit", rng.sample(pool, rng.randrange(1, min(3, len(pool)) + 1))]
    if k == "nes":
        return [rng.choice(["nes", "mime", "hash", "qhash"])]
    if k == "hash":
        return [rng.choice(["hash", "qhash"])]
    if k == "lit":
        vals = [v for v in ty[1] if rng.random() < 0.6] or [ty[1][0]]
        return ["lit", vals]
    if k == "model":
        chain = {"Na": ["Na", "Nb", "Nc"], "Nb": ["Nb", "Nc"]}.get(ty[1], [ty[1]])
        return ["model", rng.choice(chain)]
    return ty


def widen(rng, ty, depth=2):
    k = ty[0]
    r = rng.random()
    if k == "opt":
        w = widen(rng, ty[1], depth - 1)
        return w if w[0] == "opt" else ["opt", w]
    if r < 0.3 and k != "union":
        return ["opt", ty]
    if k == "union":
        extra = [rng.choice(G.ATOMS)]
        return ["union", ty[1] + [extra]] if extra not in ty[1] else ["opt", ty]
    if k in ("list", "set"):
        return [k, widen(rng, ty[1], depth - 1)]
    if k in ("mime", "hash"):
        return ["nes"]
    if k == "qhash":
        return [rng.choice(["hash", "nes"])]
    if k == "lit":
        more = [v for v in G.LIT_STR + G.LIT_INT if not any(type(v) is type(w) and v == w for w in ty[1])]
        return ["lit", ty[1] + [rng.choice(more)]]
    if k == "model":
        up = {"Nc": ["Nb", "Na"], "Nb": ["Na"]}.get(ty[1])
        if up:
            return ["model", rng.choice(up)]
    other = [rng.choice([a for a in G.ATOMS if a != k])]
    return ["union", rng.choice([[ty, other], [other, ty]])] if k != "union" else ["opt", ty]


def related_pair(rng, depth):
    y = G.rand_type(rng, depth, MODELS)
    r = rng.random()
    if r < 0.3:
        return narrow(rng, y), y
    if r < 0.55:
        return widen(rng, y), y
    if r < 0.65:
        return y, y
    if r < 0.75:
        return ["ann", narrow(rng, y)], (["ann", y] if rng.random() < 0.7 else y)
    return G.rand_type(rng, depth, MODELS), y


def literal_boundary_pairs():
    """Literal types against every plain / constrained atom, complete over the literal value corpus:
    each single value (values inside and outside the atom, the empty and the blank string among
    them), each value together with an ordinary member, bare and inside Optional / List."""
    out = []
    atoms = [[a] for a in ["bool", "int", "float", "str"] + G.CSTR]
    vals = list(G.LIT_STR) + list(G.LIT_INT) + [True, False]
    for t in atoms:
        for v in vals:
            out.append((["lit", [v]], t))
            if isinstance(v, str) and v != "a":
                out.append((["lit", ["a", v]], t))
        for v in ("", " ", "a", 0):
            out.append((["opt", ["lit", [v]]], ["opt", t]))
            out.append((["list", ["lit", [v]]], ["list", t]))
            out.append((["lit", [v]], ["union", [t, ["dur"]]] if t != ["bool"] else ["opt", t]))
    return out


def gen_sub_cases(ctx):
    rng = ctx.rng
    fam = base_table()
    cases = []
    if ctx.quick:
        pairs = [related_pair(rng, rng.randrange(0, 3)) for _ in range(2000)]
    else:
        ts = G.all_types(2, MODELS)
        ctx.exhaustive_spaces.append("is_subtype on all ordered pairs of the %d grammar types of depth <= 1 over the class table, plus all pairs (depth<=2 type, depth<=1 type) sampled evenly" % len(G.all_types(1, MODELS)))
        t1 = G.all_types(1, MODELS)
        pairs = [(a, b) for a in t1 for b in t1]
        # depth 2 x depth 2 is ~10^8 pairs; all related pairs by construction + a large sample
        for a in ts:
            pairs.append((a, a))
        for _ in range(60000):
            pairs.append((rng.choice(ts), rng.choice(ts)))
        for _ in range(20000):
            pairs.append(related_pair(rng, 2))
    # the F12 pair and its relatives are always present
    pairs += [(["qhash"], ["hash"]), (["qhash"], ["nes"]), (["hash"], ["nes"]), (["mime"], ["nes"]), (["hash"], ["qhash"]), (["list", ["mime"]], ["list", ["nes"]]),
              (["nes"], ["union", [["qty"], ["nes"]]]), (["nes"], ["union", [["unit"], ["nes"]]]), (["str"], ["opt", ["union", [["qty"], ["str"]]]]),
              (["list", ["mime"]], ["list", ["union", [["unit"], ["dur"], ["nes"]]]])]
    pairs += literal_boundary_pairs()
    chunk = 100 if ctx.quick else 400
    for i in range(0, len(pairs), chunk):
        cases.append(dict(kind="sub", fam=fam, pairs=[list(p) for p in pairs[i:i + chunk]], seed=rng.randrange(1 << 30)))
    return cases


def gen_acc_cases(ctx):
    rng = ctx.rng
    fam = base_table()
    types = [[a] for a in G.ATOMS] + [["lit", ["a", 1, True]], ["lit", [0, "x"]], ["lit", [False, "", 2]], ["opt", ["int"]], ["union", [["int"], ["str"]]],
                                      ["union", [["str"], ["int"]]], ["list", ["int"]], ["set", ["int"]], ["set", ["union", [["int"], ["bool"]]]], ["set", ["union", [["int"], ["float"]]]],
                                      ["model", "Na"], ["model", "Nc"], ["model", "Nd"], ["list", ["model", "Nb"]], ["opt", ["union", [["model", "Nd"], ["nes"]]]], ["set", ["str"]],
                                      ["list", ["dur"]], ["set", ["unit"]], ["union", [["lit", [1]], ["bool"]]], ["ann", ["opt", ["nes"]]], ["set", ["lit", [1, True, "a"]]]]
    for _ in range(40 if ctx.quick else 600):
        types.append(G.rand_type(rng, rng.randrange(1, 3), MODELS))
    cases = []
    for ty in types:
        vals = [v for v in G.boundary_values(ty, fam, rng) if G.model_safe_json(v)]
        for _ in range(4):
            try:
                v = G.gen_json(rng, ty, fam, 2)
                if v is not G.OMIT and G.model_safe_json(v):
                    vals.append(v)
            except Exception:
                pass
        cases.append(dict(kind="acc", fam=fam, ty=ty, values=vals))
    return cases


def _cd(name, parent, **kw):
    d = dict(name=name, parent=parent, extra=None, fields=[], consts=[], overrides=[], mandatory=[])
    d.update(kw)
    return d


def _new_field(rng, fam, fname):
    """A field the bases do not have: required, Optional, or with a default value."""
    ty = G.rand_field_type(rng, 1, MODELS)
    r = rng.random()
    dflt = None
    if r < 0.25:
        ty = ["opt", G.unopt(ty)]
    elif r < 0.55 and '"model"' not in json.dumps(ty):
        v = G.gen_json(rng, G.unopt(ty), fam, 1)
        if v is not G.OMIT and v is not None:
            dflt = {"v": v}
    return [fname, ty, dflt]


def _maybe_default(rng, fam, ty, p=0.3):
    """Sometimes a default value for a re-annotated field (`f: T = v`): a valid value of the type.
    The field may be required in the ancestors - instances that leave it out then rely on the default."""
    if rng.random() >= p or '"model"' in json.dumps(ty):
        return None
    try:
        v = G.gen_json(rng, G.unopt(ty), fam, 1)
    except Exception:
        return None
    if v is G.OMIT or v is None or not G.model_safe_json(v):
        return None
    return {"v": v}


def _reannotate(rng, y, mode):
    if mode == "narrow":
        return narrow(rng, y)
    if mode == "widen":
        return widen(rng, y)
    if mode == "same":
        return y
    return G.rand_field_type(rng, rng.randrange(0, 3), MODELS)


def rand_ovr_case(rng):
    """Chain of 2-4 schema classes (some of them plugins, some plain intermediate classes). Every
    class below the top may re-annotate the inherited field `f` (narrower / wider / same /
    unrelated type, relative to what it inherits; declared with @override or not), add new
    fields (required / Optional / defaulted, also below a parent that forbids extras), constants,
    change the extra policy; nested classes, decorators."""
    fam = base_table()
    y = G.rand_field_type(rng, rng.randrange(0, 3), MODELS)
    mode = rng.choice(["narrow", "narrow", "widen", "widen", "same", "random", "mandatory", "inherit"])
    if mode == "mandatory":
        y = ["opt", G.unopt(y)]
    layers = rng.choice([1, 1, 2, 2, 3])
    other = G.rand_field_type(rng, 1, MODELS)
    top = _cd("Ga", None, extra=rng.choice([None, None, "allow", "ignore", "forbid"]), fields=[["f", y, None], ["g", other, None]], plugin=rng.random() < 0.6)
    if rng.random() < 0.3:
        top["consts"].append(["@type", "Top"])
    fam.append(top)
    prev, cur_f = "Ga", y
    for i in range(layers - 1):
        name = ["Pa", "Pb"][i]
        mid = _cd(name, prev, plugin=rng.random() < 0.5)
        forbid = G.eff_extra(fam, prev) == "forbid"
        if rng.random() < 0.45:
            # the intermediate class re-annotates the field itself
            cur_f = _reannotate(rng, cur_f, rng.choice(["narrow", "narrow", "narrow", "widen", "widen", "same", "random"]))
            mid["fields"].append(["f", cur_f, _maybe_default(rng, fam, cur_f)])
            if rng.random() < 0.35:
                mid["overrides"].append("f")
        if rng.random() < (0.25 if forbid else 0.5):
            mid["fields"].append(_new_field(rng, fam, "m%d" % i))
        if rng.random() < 0.25:
            mid["extra"] = rng.choice(["allow", "ignore", "forbid"])
        fam.append(mid)
        prev = name
    forbid = G.eff_extra(fam, prev) == "forbid"
    child = _cd("Ch", prev, extra=rng.choice([None, None, None, "allow", "ignore", "forbid"]), plugin=rng.random() < 0.85)
    if mode == "mandatory":
        child["mandatory"] = ["f"]
    elif mode != "inherit":
        ty = _reannotate(rng, cur_f, mode)
        child["fields"].append(["f", ty, _maybe_default(rng, fam, ty)])
        if rng.random() < 0.2:
            child["overrides"].append("f")
    r = rng.random()
    if r < 0.08:
        child["overrides"].append("nonexistent")  # no parent field to override
    elif r < 0.16:
        child["overrides"].append("g")  # claimed but missing override
    if rng.random() < (0.3 if forbid else 0.4):
        child["fields"].append(_new_field(rng, fam, "n"))
    if rng.random() < (0.08 if forbid else 0.2):
        child["consts"].append(["@type", "Child"])
    if rng.random() < 0.05:
        child["fields"].append(["@type" if top["consts"] else "g", ["str"], None])
    fam.append(child)
    root = "Ch"
    if rng.random() < 0.3:
        # the checked plugin only *uses* the child as a nested schema
        shape = rng.choice([["model", "Ch"], ["opt", ["model", "Ch"]], ["list", ["model", "Ch"]], ["opt", ["union", [["model", "Nd"], ["model", "Ch"]]]]])
        fam.append(_cd("Us", None, fields=[["h", shape, None]], plugin=True))
        root = "Us"
    return dict(kind="ovr", fam=fam, root=root, seed=rng.randrange(1 << 30), n_inst=10)


def focused_ovr():
    I, S, O = ["int"], ["str"], lambda t: ["opt", t]
    out = []

    def fam3(y, x, layers=1, declared=False, nested=None, extra_top=None, extra_child=None, child_consts=()):
        fam = base_table()
        fam.append(dict(name="Ga", parent=None, extra=extra_top, fields=[["f", y, None]], consts=[], overrides=[], mandatory=[]))
        prev = "Ga"
        for i in range(layers - 1):
            fam.append(dict(name=["Pa", "Pb"][i], parent=prev, extra=None, fields=[], consts=[], overrides=[], mandatory=[]))
            prev = ["Pa", "Pb"][i]
        fam.append(dict(name="Ch", parent=prev, extra=extra_child, fields=[["f", x, None]] if x else [], consts=[list(c) for c in child_consts], overrides=["f"] if declared else [], mandatory=[]))
        root = "Ch"
        if nested:
            fam.append(dict(name="Us", parent=None, extra=None, fields=[["h", nested, None]], consts=[], overrides=[], mandatory=[]))
            root = "Us"
        return dict(kind="ovr", fam=fam, root=root, seed=7, n_inst=12)

    def chain(specs, extras=None, plugins=None, nested=None):
        """Ga <- Pa <- ... <- Ch; specs[i] = None (field untouched) | (type of `f`, declared?) per
        class, top first; plugins[i] = class i carries a Plugin section."""
        names = ["Ga", "Pa", "Pb"][:len(specs) - 1] + ["Ch"]
        fam, prev = base_table(), None
        for i, (nm, sp) in enumerate(zip(names, specs)):
            cd = _cd(nm, prev, extra=(extras or {}).get(i))
            if sp:
                cd["fields"].append(["f", sp[0], None])
                if sp[1]:
                    cd["overrides"].append("f")
            if plugins is not None:
                cd["plugin"] = bool(plugins[i])
            fam.append(cd)
            prev = nm
        root = "Ch"
        if nested:
            fam.append(_cd("Us", None, fields=[["h", nested, None]], plugin=True))
            root = "Us"
        return dict(kind="ovr", fam=fam, root=root, seed=7, n_inst=12)

    # the override sits in an intermediate class (plugin or plain helper class), the checked class
    # re-annotates, narrows again or leaves the field alone
    for mid_plugin in (False, True):
        for last in (None, (I, False), (O(I), False)):
            out.append(chain([(I, False), (O(I), False), last], plugins=[True, mid_plugin, True]))
            out.append(chain([(I, False), (["union", [I, S]], False), last], plugins=[True, mid_plugin, True]))
            out.append(chain([(O(I), False), (I, False), last], plugins=[True, mid_plugin, True]))
        out.append(chain([(I, False), None, (O(I), False), None], plugins=[True, False, mid_plugin, True]))
        out.append(chain([(I, False), (O(I), False), None], plugins=[True, mid_plugin, True], nested=O(["model", "Ch"])))
        # an ancestor declared its incompatible override; the declaration is that class's own
        for last in (None, (S, False), (O(S), False), (O(S), True), (["union", [S, I]], False), (["lit", ["a"]], False)):
            out.append(chain([(I, False), (S, True), last], plugins=[True, mid_plugin, True]))
        out.append(chain([(I, False), (S, True), None, (O(S), False)], plugins=[True, mid_plugin, False, True]))
        out.append(chain([(["lit", ["a"]], False), (["lit", ["a", "b"]], True), (["lit", ["a", "b", "c"]], False)], plugins=[True, mid_plugin, True]))

    for layers in (1, 2, 3):
        out.append(fam3(I, O(I), layers))                        # Optional widening
        out.append(fam3(O(I), I, layers))                        # narrowing
        out.append(fam3(["lit", ["a"]], ["lit", ["a", "b"]], layers))  # literal superset
        out.append(fam3(["lit", ["a", "b"]], ["lit", ["b"]], layers))
        out.append(fam3(["nes"], ["mime"], layers))
        out.append(fam3(["hash"], ["qhash"], layers))             # F12
        out.append(fam3(["mime"], ["nes"], layers))
        out.append(fam3(I, O(I), layers, declared=True))
        out.append(fam3(["union", [I, S]], I, layers))
        out.append(fam3(I, ["union", [I, S]], layers))
        out.append(fam3(["list", ["nes"]], ["list", ["hash"]], layers))
        out.append(fam3(["model", "Na"], ["model", "Nc"], layers))
        out.append(fam3(["model", "Nc"], ["model", "Na"], layers))
    for nested in (["model", "Ch"], O(["model", "Ch"]), ["list", ["model", "Ch"]], O(["list", ["model", "Ch"]]), O(["union", [["model", "Nd"], ["model", "Ch"]]])):
        out.append(fam3(I, O(I), 1, nested=nested))
        out.append(fam3(I, O(I), 2, nested=nested))
        out.append(fam3(O(I), I, 2, nested=nested))
    out.append(fam3(I, None, 1, extra_top="forbid", extra_child="allow"))
    out.append(fam3(I, None, 1, extra_top="forbid", extra_child="forbid"))
    out.append(fam3(I, None, 1, extra_top="ignore", extra_child="allow"))
    # @make_mandatory over an inherited *constant* (a field of the pydantic model too, `field_parent_type` finds the
    # `Any` that add_const_fields wrote): accepted by the source; over an unknown name / an own annotation: refused
    # (corner found while bridging `make_mandatory` to the model, harness/translate_c13.py)
    for mand in (["k"], ["k", "f"], ["zz"], ["k", "zz"]):
        fam = base_table()
        fam.append(_cd("Ga", None, fields=[["f", O(I), None]]))
        fam.append(_cd("Pa", "Ga", consts=[["k", "v"]]))
        fam.append(_cd("Ch", "Pa", mandatory=list(mand)))
        out.append(dict(kind="ovr", fam=fam, root="Ch", seed=7, n_inst=12))
    return out


NEW_FIELD_KINDS = {
    "required": ["n", ["str"], None],
    "optional": ["n", ["opt", ["str"]], None],
    "default": ["n", ["int"], {"v": 3}],
    "optional-list": ["n", ["opt", ["list", ["int"]]], None],
    "default-lit": ["n", ["lit", ["a", "b"]], {"v": "a"}],
}


def extra_policy_space():
    """Small scope, complete: extra policy of the top class x extra policy of the class that adds
    something x what it adds (nothing / a required, Optional or defaulted field / a constant) x
    directly below the top or below a plain intermediate class."""
    out = []
    for et in (None, "allow", "ignore", "forbid"):
        for ec in (None, "allow", "ignore", "forbid"):
            for kind in [None, "const"] + sorted(NEW_FIELD_KINDS):
                for layers in (1, 2):
                    fam = base_table()
                    fam.append(_cd("Ga", None, extra=et, fields=[["x", ["int"], None]], plugin=True))
                    prev = "Ga"
                    if layers == 2:
                        fam.append(_cd("Pa", "Ga", plugin=False))
                        prev = "Pa"
                    ch = _cd("Ch", prev, extra=ec, plugin=True)
                    if kind == "const":
                        ch["consts"].append(["k_const", "v"])
                    elif kind:
                        ch["fields"].append(json.loads(json.dumps(NEW_FIELD_KINDS[kind])))
                    fam.append(ch)
                    out.append(dict(kind="ovr", fam=fam, root="Ch", seed=11, n_inst=8))
    return out


OVR_SPACE_TYPES = [["int"], ["opt", ["int"]], ["str"], ["opt", ["str"]], ["union", [["int"], ["str"]]], ["lit", ["a"]], ["lit", ["a", ""]], ["nes"]]


def override_chain_space():
    """Small scope, complete: Ga.f : y; Pa (plugin or plain class) leaves f alone or re-annotates
    it with m (declared or not); Ch leaves it alone or re-annotates it with x (declared or not);
    y, m, x from OVR_SPACE_TYPES."""
    out = []
    Ts = OVR_SPACE_TYPES
    mids = [None] + [(m, d) for m in Ts for d in (False, True)]
    for y in Ts:
        for mid in mids:
            for last in mids:
                if mid is None and last is None:
                    continue
                for mid_plugin in (False, True):
                    fam = base_table()
                    fam.append(_cd("Ga", None, fields=[["f", y, None]], plugin=True))
                    pa = _cd("Pa", "Ga", plugin=mid_plugin)
                    ch = _cd("Ch", "Pa", plugin=True)
                    for cd, sp in ((pa, mid), (ch, last)):
                        if sp:
                            cd["fields"].append(["f", sp[0], None])
                            if sp[1]:
                                cd["overrides"].append("f")
                    fam += [pa, ch]
                    out.append(dict(kind="ovr", fam=fam, root="Ch", seed=13, n_inst=8))
    return out


DEFAULT_SPACE = [
    # (inherited type y, re-annotation x, default value of x)
    (["int"], ["int"], 3), (["opt", ["int"]], ["int"], 3), (["opt", ["int"]], ["opt", ["int"]], 3), (["str"], ["str"], "m"), (["nes"], ["nes"], "m"), (["nes"], ["mime"], "a/b"),
    (["lit", ["a", "b"]], ["lit", ["a", "b"]], "b"), (["lit", ["a", "b"]], ["lit", ["a"]], "a"), (["list", ["int"]], ["list", ["int"]], [1, 2]), (["list", ["int"]], ["list", ["int"]], []),
    (["union", [["int"], ["str"]]], ["int"], 0), (["bool"], ["bool"], False), (["float"], ["float"], 1.5),
    (["ann", ["int"]], ["ann", ["int"]], 3),
]


def default_space():
    """Small scope, complete: Ga.f : y (required unless y is Optional) <- [Pa] <- Ch [<- Le]; Pa
    and / or Ch re-annotate `f` with x and give it a DEFAULT (a legal narrowing: the type stays or
    gets narrower); Pa a plugin or a plain class; a leaf below that leaves the field alone. The
    instances generated for such a class leave the field out with probability 0.4, i.e. rely on
    the default, and whatever form they are serialised in must carry what the ancestors require."""
    out = []
    for y, x, v in DEFAULT_SPACE:
        for where in ("ch", "pa", "both", "pa-then-plain"):
            for mid_plugin in (False, True):
                for leaf in (False, True):
                    fam = base_table()
                    fam.append(_cd("Ga", None, fields=[["f", y, None], ["g", ["int"], None]], plugin=True))
                    pa = _cd("Pa", "Ga", plugin=mid_plugin)
                    ch = _cd("Ch", "Pa", plugin=True)
                    if where in ("pa", "both", "pa-then-plain"):
                        pa["fields"].append(["f", x, {"v": v}])
                    if where in ("ch", "both"):
                        ch["fields"].append(["f", x, {"v": v}])
                    if where == "pa-then-plain":
                        ch["fields"].append(["f", x, None])  # required again: a fresh field
                    fam += [pa, ch]
                    root = "Ch"
                    if leaf:
                        fam.append(_cd("Le", "Ch", plugin=True))
                        root = "Le"
                    out.append(dict(kind="ovr", fam=fam, root=root, seed=19, n_inst=8))
    return out


def const_forbid_probe():
    """Known situation: constants added below a parent that forbids extra fields."""
    fam = base_table()
    fam.append(dict(name="Ga", parent=None, extra="forbid", fields=[["x", ["int"], None]], consts=[], overrides=[], mandatory=[]))
    fam.append(dict(name="Ch", parent="Ga", extra=None, fields=[], consts=[["k_const", "v"]], overrides=[], mandatory=[]))
    return dict(kind="ovr", fam=fam, root="Ch", seed=1, n_inst=4, probe="const-forbid")


def gen_ovr_cases(ctx):
    n = 200 if ctx.quick else 4000
    pol, chn = extra_policy_space(), override_chain_space()
    if ctx.quick:
        # a sample of the two small-scope spaces (the thorough tier runs them completely)
        pol = ctx.rng.sample(pol, 60)
        chn = ctx.rng.sample(chn, 120)
    else:
        ctx.exhaustive_spaces.append("extra policy of parent x extra policy of child x {no new member, required / Optional / defaulted new field, constant} x {direct child, below a plain intermediate class}: %d families" % len(pol))
        ctx.exhaustive_spaces.append("three-class chains Ga.f:y <- Pa (plugin or plain class; f untouched or re-annotated m, declared or not) <- Ch (f untouched or re-annotated x, declared or not), y, m, x from %d types: %d families" % (len(OVR_SPACE_TYPES), len(chn)))
    dfl = default_space()
    if ctx.quick:
        dfl = ctx.rng.sample(dfl, 90)
    else:
        ctx.exhaustive_spaces.append("defaults given to inherited fields: %d (inherited type, re-annotation, default) triples x {in Ch, in Pa, in both, in Pa and taken back in Ch} x Pa plugin or plain class x with / without a leaf below: %d families" % (len(DEFAULT_SPACE), len(default_space())))
    return focused_ovr() + pol + chn + dfl + [rand_ovr_case(ctx.rng) for _ in range(n)]


# ----------------------------------------------------------------------------- load sequences
DISCRIMINATORS = [["lit", ["a", "b"]], ["lit", ["a", "b", "c"]], ["lit", [1, 2]], ["lit", ["a", 1]], ["lit", ["a"]],
                  ["opt", ["lit", ["a", "b"]]], ["opt", ["lit", ["b", "c", 2]]]]
# collection-valued discriminators: `field_def.type_` is the Literal, the shape is not SHAPE_SINGLETON
CONTAINER_DISCRIMINATORS = [["list", ["lit", ["a", "b"]]], ["set", ["lit", ["a", "b"]]], ["opt", ["list", ["lit", ["a", "b", "c"]]]], ["list", ["lit", [1, 2]]],
                            ["opt", ["set", ["lit", ["a", 1]]]], ["ann", ["list", ["lit", ["a", "b"]]]]]


def _relit(ty, new):
    """`ty` with its Literal replaced by `new` (the structure around it kept)."""
    if ty[0] == "lit":
        return new
    if ty[0] in ("opt", "list", "set", "ann"):
        return [ty[0], _relit(ty[1], new)]
    return ty


def _lit_members(ty):
    out = []
    for x in _subterms(ty):
        if x[0] == "lit":
            out += [v for v in x[1] if not any(type(v) is type(w) and v == w for w in out)]
    return out


def _derive(rng, fam, name, parent, plugin_p=0.8):
    """A class below `parent` using any of the ways a schema author has to change what is
    inherited: re-annotate `f` (narrower / wider / same / unrelated; declared with @override or
    not), @make_mandatory on it, re-annotate the Literal discriminator `k` or pin it with
    @add_const_fields (a member of the inherited Literal, sometimes a foreign value), put another
    constant over an inherited constant, add fields / constants, change the extra policy."""
    cd = _cd(name, parent, plugin=rng.random() < plugin_p)
    pf = {f[0]: f for f in G.eff_fields(fam, parent)}
    pc = dict((k, v) for k, v in G.eff_consts(fam, parent))
    forbid = G.eff_extra(fam, parent) == "forbid"
    if "f" in pf:
        cur, r = pf["f"][1], rng.random()
        if r < 0.4:
            ty = _reannotate(rng, cur, rng.choice(["narrow", "narrow", "narrow", "widen", "widen", "same", "random"]))
            cd["fields"].append(["f", ty, _maybe_default(rng, fam, ty)])
            if rng.random() < 0.25:
                cd["overrides"].append("f")
        elif r < 0.6 and (G.is_nullable(cur) or rng.random() < 0.2):
            cd["mandatory"].append("f")
    if "g" in pf and rng.random() < 0.1:
        if G.is_nullable(pf["g"][1]) and rng.random() < 0.5:
            cd["mandatory"].append("g")
        else:
            ty = _reannotate(rng, pf["g"][1], rng.choice(["narrow", "widen", "same"]))
            cd["fields"].append(["g", ty, _maybe_default(rng, fam, ty, 0.5)])
    if "k" in pf:
        kt, r = pf["k"][1], rng.random()
        mem = _lit_members(kt)
        coll = _singleton(kt) is None
        if r < 0.35 and mem:
            v = rng.choice(mem) if rng.random() < 0.85 else rng.choice(["zz", 7, "c", True])
            if coll and rng.random() < 0.5:
                v = rng.choice([[v], [v, rng.choice(mem)], []])  # a value of the collection (needs override=True all the same)
            cd["consts"].append(["k", v])
            if rng.random() < (0.6 if coll else 0.15):
                cd["const_override"] = True
        elif r < 0.5 and mem:
            if rng.random() < 0.6:
                new = ["lit", [v for v in mem if rng.random() < 0.6] or [mem[0]]]
            else:
                new = ["lit", mem + [rng.choice([v for v in ["a", "b", "c", "d", 1, 2, 3] if v not in mem])]]
            if coll:
                new = _relit(kt, new) if rng.random() < 0.85 else new
            else:
                new = ["opt", new] if kt[0] == "opt" and rng.random() < 0.7 else new
            cd["fields"].append(["k", new, None])
            if rng.random() < 0.2:
                cd["overrides"].append("k")
        elif r < 0.56 and G.is_nullable(kt):
            cd["mandatory"].append("k")
    elif "k" in pc and rng.random() < 0.2:
        # another constant over the inherited constant (needs override=True, which Family passes)
        cd["consts"].append(["k", rng.choice(["a", "b", "c", 1, 2, "zz", ["a"]])])
    if "g" in pf and not cd["fields"] and not cd["mandatory"] and rng.random() < 0.04:
        # a constant over an ordinary field: refused unless declared with override=True
        cd["consts"].append(["g", rng.choice(["a", 1, ["a"]])])
        if rng.random() < 0.6:
            cd["const_override"] = True
    if rng.random() < (0.12 if forbid else 0.3):
        cd["fields"].append(_new_field(rng, fam, "n%s" % name.lower()))
    if rng.random() < (0.05 if forbid else 0.15):
        cd["consts"].append(["@type", name])
    if rng.random() < 0.15:
        cd["extra"] = rng.choice(["allow", "ignore", "forbid"])
    if rng.random() < 0.05:
        cd["overrides"].append(rng.choice(["nonexistent", "g"]))
    return cd


def _load_orders(rng, fam, plugins):
    """Orders in which the plugins of a family get loaded."""
    by_depth = sorted(plugins, key=lambda n: (_depth(fam, n), n))
    r = rng.random()
    if r < 0.35:
        loads = list(by_depth)  # every parent before its children
    elif r < 0.5:
        loads = list(reversed(by_depth))  # children first
    elif r < 0.85:
        loads = list(plugins)
        rng.shuffle(loads)
    else:
        loads = [by_depth[-1]]  # only a leaf
    if len(loads) > 2 and rng.random() < 0.3:
        del loads[rng.randrange(len(loads))]
    if rng.random() < 0.2:
        loads.insert(rng.randrange(len(loads) + 1), rng.choice(plugins))  # something gets loaded twice
    if rng.random() < 0.3:
        # the process goes on after a load (that may have been refused): the same class again and
        # the plugins below it, in some order
        x = rng.choice(loads)
        below = [p for p in plugins if x in _ancestor_chain(fam, p)]
        rng.shuffle(below)
        again = [x] + below if rng.random() < 0.6 else below + [x]
        loads += again[:4]
    return loads


def _seq_inputs(rng, fam, names, n):
    """Documents for the model comparison of the validated value: classes with constants first."""
    withc = [x for x in names if G.eff_consts(fam, x)]
    out = []
    for _ in range(n):
        name = rng.choice(withc) if withc and rng.random() < 0.75 else rng.choice(names)
        for _ in range(4):
            inp = gen_input(rng, fam, name, 1)
            if G.model_safe_json(inp):
                out.append([name, inp])
                break
    return out


def rand_seq_case(rng, n_inputs=3):
    """A tree of 2-7 schema classes below one top class: a chain of 2-4 levels plus further
    children of classes on the chain (several children of one parent), every class derived by
    `_derive`; optionally a plugin that only uses a class as a nested schema. The plugins are
    loaded in some order (`_load_orders`)."""
    fam = base_table()
    y = G.rand_field_type(rng, rng.randrange(0, 3), MODELS)
    if rng.random() < 0.35:
        y = ["opt", G.unopt(y)]
    top = _cd("Ga", None, extra=rng.choice([None, None, None, "allow", "ignore", "forbid"]), plugin=rng.random() < 0.8,
              fields=[["f", y, None], ["g", G.rand_field_type(rng, 1, MODELS), None]])
    if rng.random() < 0.7:
        top["fields"].append(["k", rng.choice(CONTAINER_DISCRIMINATORS if rng.random() < 0.25 else DISCRIMINATORS), None])
    if rng.random() < 0.2:
        top["consts"].append(["@type", "Top"])
    fam.append(top)
    chain = ["Ga"]
    for name in ["Pa", "Pb", "Ch"][3 - rng.choice([1, 1, 2, 2, 3]):]:
        fam.append(_derive(rng, fam, name, chain[-1]))
        chain.append(name)
    names = list(chain)
    for name in ["Cb", "Cc", "Cd"][:rng.choice([0, 1, 1, 2, 3])]:
        fam.append(_derive(rng, fam, name, rng.choice(names if rng.random() < 0.3 else chain)))
        names.append(name)
    if rng.random() < 0.2:
        tgt = rng.choice(names[1:])
        shape = rng.choice([["model", tgt], ["opt", ["model", tgt]], ["list", ["model", tgt]], ["opt", ["union", [["model", "Nd"], ["model", tgt]]]]])
        fam.append(_cd("Us", None, fields=[["h", shape, None]], plugin=True))
        names.append("Us")
    if rng.random() < 0.2:
        # a dependency cycle: a class names one of its own descendants in a field (the descendant is
        # examined inside the walk of the class), or two users nest each other
        if rng.random() < 0.7:
            # (not below a class with @make_mandatory: the decorator evaluates the type hints of the
            # bases while the named class does not exist yet - a NameError in any Python program; no
            # Union around the forward reference: pydantic's update_forward_refs leaves the outer
            # `type_` of a field built from ForwardRef *objects* unresolved, which hand-written
            # annotations do not show)
            desc = lambda x: [d for d in names if d != "Us" and x in _ancestor_chain(fam, d)]
            withdesc = [x for x in names if x != "Us" and desc(x) and not any(G.get_cd(fam, d).get("mandatory") for d in desc(x))]
            if withdesc:
                x = rng.choice(withdesc)
                d = rng.choice(desc(x))
                G.get_cd(fam, x)["fields"].append(["h%s" % x.lower(), rng.choice([["opt", ["model", d]], ["list", ["model", d]], ["opt", ["list", ["model", d]]]]), None])
        else:
            tgt = rng.choice(names[1:]) if len(names) > 1 else names[0]
            fam.append(_cd("Ut", None, fields=[["u", ["opt", ["model", "Uu"]], None], ["t", ["opt", ["model", tgt]], None]], plugin=True))
            fam.append(_cd("Uu", None, fields=[["u", ["list", ["model", "Ut"]], None]], plugin=rng.random() < 0.7))
            names += ["Ut", "Uu"]
    plugins = [n for n in names if G.get_cd(fam, n).get("plugin")]
    if not plugins:
        G.get_cd(fam, names[-1])["plugin"] = True
        plugins = [names[-1]]
    return dict(kind="seq", fam=fam, loads=_load_orders(rng, fam, plugins), seed=rng.randrange(1 << 30), n_inst=8, inputs=_seq_inputs(rng, fam, names, n_inputs))


def seq_family(specs, top_fields, extras=None):
    """specs: [(name, parent, dict(f=(type, declared) | "mand" | None, k=..., const=value | None))]"""
    fam = base_table()
    fam.append(_cd("Ga", None, fields=[list(x) for x in top_fields], plugin=True, extra=(extras or {}).get("Ga")))
    for name, parent, sp in specs:
        cd = _cd(name, parent, plugin=sp.get("plugin", True), extra=(extras or {}).get(name))
        for fld in ("f", "k"):
            v = sp.get(fld)
            if v == "mand":
                cd["mandatory"].append(fld)
            elif v:
                cd["fields"].append([fld, v[0], None])
                if v[1]:
                    cd["overrides"].append(fld)
        if "const" in sp:
            cd["consts"].append(["k", sp["const"]])
            if sp.get("const_override"):
                cd["const_override"] = True
        fam.append(cd)
    return fam


def _perms(names, limit=24):
    return [list(p) for p in itertools.islice(itertools.permutations(names), limit)]


SEQ_F_TYPES = [["int"], ["opt", ["int"]], ["union", [["int"], ["str"]]]]
SEQ_DOCS = [{"f": 1}, {"f": 1, "k": "a"}, {"f": 1, "k": "b"}, {"f": 1, "k": "zz_foreign"}, {"f": 1, "k": 17}, {"f": 1, "k": None}, {"k": "a"}, {}]


def seq_space():
    """Small scope, complete: Ga (f: y, k: Literal[a, b]) <- Pa <- Ch, and a second child Cb of Pa;
    each of Pa, Ch, Cb does one thing - nothing, re-annotates f (each type of SEQ_F_TYPES,
    undeclared; Optional[int] also declared), @make_mandatory(f), pins k with a constant (member /
    foreign), narrows or widens k - and the plugins are loaded in 12 orders (parents first / last, single
    leaves, repetitions, going on after a load that may have been refused). Every family comes with the documents SEQ_DOCS for Ch."""
    K = ["lit", ["a", "b"]]
    acts = [dict()] + [dict(f=(t, False)) for t in SEQ_F_TYPES] + [dict(f=(["opt", ["int"]], True)), dict(f="mand"), dict(const="a"), dict(const="zz"),
                                                                    dict(k=(["lit", ["a"]], False)), dict(k=(["lit", ["a", "b", "c"]], False))]
    out = []
    for y in SEQ_F_TYPES[:2]:
        for a_pa in acts:
            for a_ch in acts:
                if "const" in a_pa and ("k" in a_ch):
                    continue  # a field named like an inherited constant: refused at construction, covered by rand
                for a_cb in (dict(), dict(f=(["opt", ["int"]], False)), dict(const="b")):
                    if "const" in a_pa and ("k" in a_cb):
                        continue
                    fam = seq_family([("Pa", "Ga", a_pa), ("Ch", "Pa", a_ch), ("Cb", "Pa", a_cb)], [["f", y, None], ["k", K, None]])
                    orders = [["Ga", "Pa", "Ch", "Cb"], ["Ch", "Cb", "Pa", "Ga"], ["Pa", "Ch", "Cb"], ["Pa", "Cb", "Ch"], ["Ch", "Pa", "Cb"], ["Ga", "Ch"], ["Ga", "Cb", "Ch"], ["Cb", "Ch"], ["Ch"], ["Pa", "Pa", "Ch"],
                              ["Pa", "Ch", "Pa", "Ch"], ["Ch", "Ch", "Cb", "Pa"]]
                    for loads in orders:
                        out.append(dict(kind="seq", fam=fam, loads=loads, seed=17, n_inst=6, inputs=[["Ch", d] for d in SEQ_DOCS[:4]]))
    return out


def focused_seq():
    I, S, O = ["int"], ["str"], lambda t: ["opt", t]
    K = ["lit", ["a", "b"]]
    out = []

    def case(fam, loads, inputs=(), n_inst=8):
        out.append(dict(kind="seq", fam=fam, loads=list(loads), seed=23, n_inst=n_inst, inputs=[list(x) for x in inputs]))

    # an undeclared widening in a child, the parent loaded before / after / not at all; in a second child
    for wid in (O(I), ["union", [I, S]]):
        fam = seq_family([("Ch", "Ga", dict(f=(wid, False))), ("Cb", "Ga", dict(f=(wid, False)))], [["f", I, None]])
        for loads in (["Ga", "Ch"], ["Ch", "Ga"], ["Ch"], ["Ga", "Cb", "Ch"], ["Ga", "Ga", "Cb"]):
            case(fam, loads)
        fam = seq_family([("Pa", "Ga", dict()), ("Ch", "Pa", dict(f=(wid, False))), ("Cb", "Pa", dict(f=(I, False)))], [["f", I, None]])
        for loads in _perms(["Ga", "Pa", "Ch"], 6) + [["Pa", "Cb", "Ch"], ["Cb", "Ch"], ["Ga", "Ch"]]:
            case(fam, loads)
        fam = seq_family([("Pa", "Ga", dict(plugin=False)), ("Pb", "Pa", dict(f=(I, False))), ("Ch", "Pb", dict(f=(wid, False)))], [["f", I, None]])
        for loads in (["Ga", "Pb", "Ch"], ["Pb", "Ch"], ["Ch", "Pb"], ["Ga", "Ch"]):
            case(fam, loads)
    # @make_mandatory at every level of 2-4 level chains; a descendant loosens the field again
    for depth in (1, 2, 3):
        for at in range(depth):
            for last in (None, (O(I), False), (O(I), True), (I, False), "mand"):
                names = ["Pa", "Pb", "Pc"][:depth]
                specs, prev = [], "Ga"
                for i, nm in enumerate(names):
                    specs.append((nm, prev, dict(f="mand") if i == at else dict()))
                    prev = nm
                specs.append(("Ch", prev, dict(f=last) if last else dict()))
                fam = seq_family(specs, [["f", O(I), None], ["y", S, None]])
                case(fam, ["Ch"], [["Ch", {"y": "a"}], ["Ch", {"y": "a", "f": 1}]])
                case(fam, ["Ga"] + names + ["Ch"])
    # a Literal discriminator pinned by a constant at every level, documents that carry the field
    docs = [{"f": 1}, {"f": 2, "k": "a"}, {"f": 3, "k": "b"}, {"f": 4, "k": "triangle"}, {"f": 5, "k": 17}, {"f": 6, "k": None}, {"f": 7, "k": ["a"]}]
    for kt in (K, O(K), ["lit", ["a", 1]], ["ann", K]):
        for depth in (1, 2, 3):
            for at in range(depth):
                names = ["Pa", "Pb", "Ch"][3 - depth:]
                specs, prev = [], "Ga"
                for i, nm in enumerate(names):
                    specs.append((nm, prev, dict(const="a") if i == at else dict()))
                    prev = nm
                fam = seq_family(specs, [["f", I, None], ["k", kt, None]])
                case(fam, [names[-1]], [[names[-1], d] for d in docs] + [[names[at], d] for d in docs[3:5]])
    fam = seq_family([("Pa", "Ga", dict(const="a")), ("Ch", "Pa", dict(const="b")), ("Cb", "Pa", dict())], [["f", I, None], ["k", K, None]])
    case(fam, ["Ga", "Pa", "Ch", "Cb"], [["Ch", d] for d in docs] + [["Cb", d] for d in docs[:4]])
    fam = seq_family([("Pa", "Ga", dict(k=(["lit", ["a"]], False))), ("Ch", "Pa", dict(const="a"))], [["f", I, None], ["k", ["lit", ["a", "b", "c"]], None]])
    case(fam, ["Pa", "Ch"], [["Ch", d] for d in docs])
    fam = seq_family([("Ch", "Ga", dict(const="a"))], [["f", I, None], ["k", K, None]])
    fam.append(_cd("Us", None, fields=[["h", ["list", ["model", "Ch"]], None]], plugin=True))
    case(fam, ["Us"], [["Us", {"h": [d]}] for d in docs[:5]])
    return out


def after_refusal_cases():
    """Sequences that go on after a refusal: the refused class again, the classes below it, a sibling,
    the parent; the defect sits in a leaf, in the middle of a chain, in a plain intermediate class,
    in a class on a dependency cycle."""
    I, S, O = ["int"], ["str"], lambda t: ["opt", t]
    out = []

    def case(fam, loads):
        out.append(dict(kind="seq", fam=fam, loads=list(loads), seed=29, n_inst=6, inputs=[]))

    for wid in (O(I), ["union", [I, S]]):
        fam = seq_family([("Ch", "Ga", dict(f=(wid, False))), ("Le", "Ch", dict()), ("Lf", "Le", dict(f=(wid, False))), ("Cb", "Ga", dict())], [["f", I, None]])
        for loads in (["Ch", "Ch"], ["Ch", "Le"], ["Ch", "Le", "Ch", "Le"], ["Le", "Le"], ["Le", "Ch"], ["Lf", "Le", "Ch", "Ga", "Lf"], ["Ga", "Ch", "Le", "Cb", "Le"],
                      ["Cb", "Ch", "Cb", "Lf", "Le"], ["Ch", "Ga", "Ch", "Cb"], ["Le", "Ga", "Cb", "Lf"]):
            case(fam, loads)
        # the defect in a plain intermediate class (no plugin): only ever reached from below
        fam = seq_family([("Pa", "Ga", dict(f=(wid, False), plugin=False)), ("Ch", "Pa", dict()), ("Cb", "Pa", dict(f=(wid, False)))], [["f", I, None]])
        for loads in (["Ch", "Ch"], ["Ch", "Cb"], ["Cb", "Ch", "Cb"], ["Ga", "Ch", "Ga", "Cb", "Ch"]):
            case(fam, loads)
        # refused for a declaration error (ValueError), not for the types
        fam = seq_family([("Ch", "Ga", dict()), ("Le", "Ch", dict(f=(wid, False)))], [["f", I, None]])
        G.get_cd(fam, "Ch")["overrides"].append("nonexistent")
        for loads in (["Ch", "Ch", "Le"], ["Le", "Ch", "Le"]):
            case(fam, loads)
    # dependency cycles: the refused class names its own descendant in a field (the descendant is
    # examined, and passes, inside the walk of the class that is then refused); two users nesting each other
    for shape in (lambda d: O(["model", d]), lambda d: ["list", ["model", d]]):
        fam = seq_family([("Mi", "Ga", dict(f=(O(I), False))), ("De", "Mi", dict()), ("Df", "De", dict())], [["f", I, None]])
        G.get_cd(fam, "Mi")["fields"].append(["h", shape("Df"), None])
        for loads in (["Mi", "De"], ["Mi", "Df", "De"], ["De", "Mi", "Df"], ["Ga", "Mi", "Mi", "Df", "Ga"], ["Df"]):
            case(fam, loads)
        fam = seq_family([("Ch", "Ga", dict(f=(O(I), False)))], [["f", I, None]])
        fam.append(_cd("Ut", None, fields=[["u", O(["model", "Uu"]), None], ["t", shape("Ch"), None]], plugin=True))
        fam.append(_cd("Uu", None, fields=[["u", shape("Ut"), None]], plugin=True))
        for loads in (["Ut", "Uu"], ["Uu", "Ut", "Uu"], ["Uu", "Uu", "Ga", "Ut"]):
            case(fam, loads)
        fam = seq_family([("Ch", "Ga", dict())], [["f", I, None]])
        fam.append(_cd("Ut", None, fields=[["u", O(["model", "Uu"]), None], ["t", shape("Ch"), None]], plugin=True))
        fam.append(_cd("Uu", None, fields=[["u", shape("Ut"), None]], plugin=True))
        for loads in (["Ut", "Uu"], ["Uu", "Ut", "Ch"]):
            case(fam, loads)
    # a nested schema that is refused: the user is refused, again and again; its sibling is not
    fam = seq_family([("Ch", "Ga", dict(f=(O(I), False)))], [["f", I, None]])
    fam.append(_cd("Us", None, fields=[["h", O(["model", "Ch"]), None]], plugin=True))
    fam.append(_cd("Ut", None, fields=[["h", O(["model", "Ga"]), None]], plugin=True))
    for loads in (["Us", "Us"], ["Us", "Ch", "Us"], ["Ut", "Us", "Ut", "Ch"], ["Ch", "Us", "Ut"]):
        case(fam, loads)
    return out


def const_container_cases():
    """Small scope, complete: Ga.k of each collection-valued / plain discriminator shape x constant
    (member, list of members, empty list, foreign, foreign list) x override=True or not x pinned
    directly below Ga or one level further down; documents with explicit values for `k`."""
    I = ["int"]
    L = ["lit", ["a", "b"]]
    out = []
    shapes = [["list", L], ["set", L], ["opt", ["list", L]], ["opt", ["set", L]], ["ann", ["list", L]], ["list", ["opt", L]], ["list", ["list", L]], L, ["opt", L], ["ann", L], ["list", I], I, ["opt", I],
              ["union", [L, I]]]
    docs = [{"f": 1}, {"f": 2, "k": ["a"]}, {"f": 3, "k": "a"}, {"f": 4, "k": ["zz"]}, {"f": 5, "k": None}, {"f": 6, "k": []}]
    for kt in shapes:
        for v in ("a", ["a"], [], "zz", ["zz"], 1):
            for ovr in (False, True):
                for depth in (1, 2):
                    specs = [("Pa", "Ga", dict())] if depth == 2 else []
                    specs.append(("Ch", "Pa" if depth == 2 else "Ga", dict(const=v, const_override=ovr)))
                    fam = seq_family(specs, [["f", I, None], ["k", kt, None]])
                    out.append(dict(kind="seq", fam=fam, loads=["Ch"], seed=31, n_inst=4, inputs=[["Ch", d] for d in docs]))
    return out


def gen_seq_cases(ctx):
    spc = seq_space()
    if ctx.quick:
        spc = ctx.rng.sample(spc, 150)
        n = 160
    else:
        ctx.exhaustive_spaces.append("load orders: Ga(f:y, k:Literal[a,b]) <- Pa <- {Ch, Cb}; each class does one of: nothing / re-annotate f (3 types, undeclared; Optional declared) / "
                                     "@make_mandatory(f) / pin k by a constant (member, foreign) / narrow or widen k; 12 load orders each (with repetitions and loads after a refusal): %d cases" % len(spc))
        n = 3000
    cc = const_container_cases()
    if ctx.quick:
        cc = ctx.rng.sample(cc, 80)
    else:
        ctx.exhaustive_spaces.append("constants over discriminator fields: 14 field shapes (List/Set/Optional[List]/Annotated[List] of Literals, nested lists, plain / Optional / Annotated Literal, "
                                     "non-literal fields, Union) x 6 constants (member, list, empty list, foreign) x override=True or not x directly below the top or one level down: %d families" % len(cc))
    return focused_seq() + after_refusal_cases() + cc + spc + [rand_seq_case(ctx.rng) for _ in range(n)]


PLAIN_OF = {"str": "pstr", "int": "pint", "float": "pfloat", "bool": "pbool"}


def plainify(rng, ty, p=0.5):
    """Replace strict primitives by the plain builtins at some leaves."""
    k = ty[0]
    if k in PLAIN_OF:
        return [PLAIN_OF[k]] if rng.random() < p else ty
    if k in ("opt", "list", "set", "ann"):
        return [k, plainify(rng, ty[1], p)]
    if k == "union":
        alts = []
        for t in ty[1]:
            t2 = plainify(rng, t, p)
            if t2 not in alts:
                alts.append(t2)
        return ["union", alts] if len(alts) > 1 else alts[0]
    return ty


def plain_pairs():
    """Complete over atoms x atoms with at least one plain builtin, and Literal values (each value
    of the literal corpus alone and next to an ordinary member) against every plain builtin,
    bare and inside Optional / List."""
    out = []
    plains = [[p] for p in G.PLAIN_ATOMS]
    atoms = [[a] for a in G.ATOMS] + plains
    for p in plains:
        for q in atoms:
            out.append((q, p))
            if q not in plains:
                out.append((p, q))
    vals = list(G.LIT_STR) + list(G.LIT_INT) + [True, False]
    for p in plains:
        for v in vals:
            out.append((["lit", [v]], p))
            if isinstance(v, str) and v != "a":
                out.append((["lit", ["a", v]], p))
            elif not isinstance(v, str) and v != 1:
                out.append((["lit", [1, v]], p))
        for v in ("", " ", "a", 0, True):
            out.append((["opt", ["lit", [v]]], ["opt", p]))
            out.append((["list", ["lit", [v]]], ["list", p]))
            out.append((["lit", [v]], ["opt", p]))
    return out


def gen_pln_cases(ctx):
    rng = ctx.rng
    pairs = plain_pairs()
    for _ in range(300 if ctx.quick else 6000):
        a, b = related_pair(rng, rng.randrange(0, 3))
        a, b = plainify(rng, a), plainify(rng, b, 0.8)
        if '"model"' in json.dumps([a, b]):
            continue
        pairs.append((a, b))
    if not ctx.quick:
        ctx.exhaustive_spaces.append("override families Ga.f:b <- Ch.f:a for all atom pairs with a plain builtin (str/int/float/bool) on either side and all Literal values of the corpus against every plain builtin: %d pairs" % len(plain_pairs()))
    chunk = 60
    return [dict(kind="pln", pairs=[list(x) for x in pairs[i:i + chunk]], seed=rng.randrange(1 << 30)) for i in range(0, len(pairs), chunk)]


def gen_anc_cases(ctx, names):
    per = 2 if ctx.quick else 10
    return [dict(kind="anc", schema=n, seed=ctx.rng.randrange(1 << 30), n=8 if ctx.quick else 25, depth=2) for n in names for _ in range(per)]


_crash_seen = set()


def report_crashes(ctx):
    """A library parser that raises something other than a validation error aborts the whole
    validation (no Union fall-through): child-accepts / parent-rejects for `nes < union(qty,nes)`."""
    for k in G.OPAQUE:
        for s, n in sorted(C12.NF.get(k, {}).items()):
            if n is False and (k, s) not in _crash_seen:
                _crash_seen.add((k, s))
                if sum(1 for x in _crash_seen if x[0] == k) <= 3:
                    ctx.oracle_hit(dict(kind="crash", type=k, input=s), dict(kind="opaque-parser-raises", type=k, input=s, error=G.NF_ERRORS.get((k, s), "")), group="accepts")


def run(ctx):
    ctx.rule = ("cases: (sub) ordered pairs of grammar types over a class table of nested schemas (related pairs built by narrowing / widening), real is_subtype vs model, "
                "with a witness search for every accepted pair; (acc) single-field validation on a boundary corpus per type; (ovr) chains of 2-4 classes (plugins and plain "
                "intermediate classes) in which every class below the top may re-annotate the inherited field (declared or not), add required/Optional/defaulted fields or "
                "constants (also below a forbidding parent) and change the extra policy, nested use, decorators; class construction + check_types vs model, and instances of every "
                "reachable class parsed by each of its ancestors; (seq) trees of 2-7 classes (chain of 2-4 levels + siblings; re-annotation, @make_mandatory, Literal discriminator pinned by @add_const_fields, at every level), "
                "constants over collection-valued discriminators with and without override=True; the plugins loaded in some order by check_types without recheck, going on after refusals (the refused class again, its subclasses), vs model loadPlugin with the marks kept / cleared on refusal, "
                "instances (also with explicit values in constant fields) of everything reachable parsed by every ancestor after each load that passes, whatever was refused before, "
                "documents decoded by family classes vs model; (enm, oracle only) Enum discriminators pinned by constants; (pln, oracle only) override pairs with the plain builtins str/int/float/bool on either side, with and without a default given by the child; "
                "(fin, oracle only) pydantic Field settings on either side of an override (Annotated / `= Field(..)` / none); (plg, oracle only) plugins installed through synthetic entry points of the real schemas group and requested repeatedly; "
                "(anc) installed schemas parsed by every ancestor. Child instances reach the ancestors as json_dict() and bytes(obj), the first ones of each class also as json(), str() and yaml(); re-annotated fields come with and without defaults. Non-trivial = tagged.")
    ctx.assumptions += [
        "date/time types are outside the grammar (excluded by the property)",
        "runtype 0.3.5 `<=` on canonical types, typing's normalisation of Union/Optional/Literal and pydantic 1.10 validation are modelled for the grammar and compared on every case",
        "ClassTableSound (every nominal subclass edge is an inclusion of accepted values) is a hypothesis of isSubtype_sound; it fails for the installed pair QualHashsumStr < HashsumStr (known finding F12, theorem qualhashsum_not_subtype)",
    ]
    import time

    t_phase = [time.time()]

    def phase(name):
        ctx.notes.append("phase %s: %.1f s" % (name, time.time() - t_phase[0]))
        t_phase[0] = time.time()

    C12.load_nf(ctx)
    ctx.oracle_hits[:] = [h for h in ctx.oracle_hits if h.get("group") != "normal-forms"]  # C12's business
    report_crashes(ctx)
    corpus = core.load_corpus(ID)
    sub = [c for c in corpus if c["kind"] == "sub"] + gen_sub_cases(ctx)
    ctx.correspond("is_subtype", MOD, sub, lines, "drv_cod", compare=compare, timeout=300)
    phase("sub")
    acc = [c for c in corpus if c["kind"] == "acc"] + gen_acc_cases(ctx)
    C12.ensure_nf(ctx, acc, report=False)
    report_crashes(ctx)
    ctx.correspond("accepts", MOD, acc, lines, "drv_cod", compare=compare, timeout=120)
    phase("acc")
    ovr = [c for c in corpus if c["kind"] == "ovr"] + gen_ovr_cases(ctx)
    ctx.correspond("check_types", MOD, ovr, lines, "drv_cod", compare=compare, timeout=120)
    phase("ovr")
    seq = [c for c in corpus if c["kind"] == "seq"] + gen_seq_cases(ctx)
    C12.ensure_nf(ctx, seq, report=False)
    ctx.correspond("load-order", MOD, seq, lines, "drv_cod", compare=compare, timeout=120)
    phase("seq")
    enm = [c for c in corpus if c["kind"] == "enm"] + gen_enm_cases(ctx)
    if not ctx.quick:
        ctx.exhaustive_spaces.append("Enum discriminators: {str, int, plain Enum} x {E, Optional[E]} x chains of 2-4 classes x pin (member, raw value, foreign value, member of another Enum) at every level, second pin below: %d chains" % len(enm))
    n_enm = 0
    for c, r in zip(enm, pool.run(MOD, "impl", enm, timeout=120)):
        if "ok" not in r:
            raise lean.InfraError("harness failed on %s: %s" % (core.canon(c)[:200], core.canon(r)[:400]))
        for d in r["ok"]["oracle"]:
            ctx.oracle_hit(c, d, group="enum-discriminator")
        n_enm += r["ok"]["n_ok"]
        ctx.note_case(c, r["ok"]["tags"], len(c["docs"]))
    ctx.notes.append("enum discriminators: %d chains, %d let through by class construction + check_types" % (len(enm), n_enm))
    phase("enm")
    pln = [c for c in corpus if c["kind"] == "pln"] + gen_pln_cases(ctx)
    n_pln = 0
    for c, r in zip(pln, pool.run(MOD, "impl", pln, timeout=300)):
        if "timeout" in r:
            ctx.oracle_hit(c, {"kind": "does-not-terminate", "limit_s": 300}, group="plain-builtins")
            continue
        if "crash" in r:
            raise lean.InfraError("harness crashed on %s: %s\n%s" % (core.canon(c)[:200], r["crash"], r.get("tb", "")))
        for d in r["ok"]["oracle"]:
            ctx.oracle_hit(c, d, group="plain-builtins")
        n_pln += r["ok"]["n_ok"]
        ctx.note_case(c, r["ok"]["tags"], len(c["pairs"]))
    ctx.notes.append("plain builtins: %d override pairs, %d let through by check_types and searched for a witness" % (sum(len(c["pairs"]) for c in pln), n_pln))
    phase("pln")
    run_oracle_only(ctx, "plg", [c for c in corpus if c["kind"] == "plg"] + gen_plg_cases(ctx), "plugin-group-requests", lambda c: len(c["gets"]))
    phase("plg")
    run_oracle_only(ctx, "fin", [c for c in corpus if c["kind"] == "fin"] + gen_fin_cases(ctx), "field-settings", lambda c: 1)
    phase("fin")
    names = C12.installed_names()
    anc = [c for c in corpus if c["kind"] == "anc"] + gen_anc_cases(ctx, names)
    res = pool.run(MOD, "impl", anc, timeout=300)
    n_anc = 0
    for c, r in zip(anc, res):
        if "timeout" in r:
            ctx.oracle_hit(c, {"kind": "does-not-terminate", "limit_s": 300}, group="installed")
            continue
        if "crash" in r:
            raise lean.InfraError("harness crashed on %s: %s\n%s" % (core.canon(c)[:200], r["crash"], r.get("tb", "")))
        for d in r["ok"]["oracle"]:
            ctx.oracle_hit(c, d, group="installed")
        n_anc += r["ok"]["nvalid"] * r["ok"]["ancestors"]
        ctx.note_case(c, r["ok"]["tags"], c.get("n", 1))
    ctx.notes.append("installed schemas: %d (instance, ancestor) parses" % n_anc)
    phase("anc")
    prioritise_hits(ctx)


def run_oracle_only(ctx, kind, cases, group, size):
    """Cases of an oracle-only kind (`plg`, `fin`): real code only; `fin` hits are shrunk right away
    (cheap) so that the signature is that of the minimal chain, one representative per raw signature."""
    n_ok, raw_seen, pending = 0, {}, {}
    for c, r in zip(cases, pool.run(MOD, "impl", cases, timeout=300)):
        if "timeout" in r:
            ctx.oracle_hit(c, {"kind": "does-not-terminate", "limit_s": 300}, group=group)
            continue
        if "ok" not in r:
            raise lean.InfraError("harness failed on %s: %s" % (core.canon(c)[:200], core.canon(r)[:400]))
        n_ok += 1 if r["ok"]["n_ok"] else 0
        ctx.note_case(c, r["ok"]["tags"], size(c))
        for d in r["ok"]["oracle"]:
            if kind != "fin":
                ctx.oracle_hit(c, d, group=group)
                continue
            c2 = d.get("shrunk_case") or c
            d2 = {k: v for k, v in d.items() if k != "shrunk_case"}
            sig = signature(c2, d2)
            raw = sig + "|%s:%s/%s" % _fin_aspect(d2)
            if raw in raw_seen:
                raw_seen[raw] += 1
                continue
            raw_seen[raw] = 1
            d2["aspect"] = "%s:%s/%s" % _fin_aspect(d2)  # what changed : how the child / the ancestor attach their settings
            if sig in FIN_PENDING:
                pending.setdefault(d2["aspect"], (c2, d2))
            else:
                ctx.oracle_hit(c2, d2, group=group)
    ctx.notes.append("%s: %d cases, %d let through / answered" % (group, len(cases), n_ok))
    for k, (c2, d2) in sorted(pending.items()):
        ctx.notes.append("PENDING-FINDING %s (%s): chain=%s input=%s error=%s" % (signature(c2, d2), k, json.dumps(c2["chain"]), json.dumps(d2["input"]), d2["error"][:120].replace("\n", " ")))


def prioritise_hits(ctx, budget=30):
    """`core.finish` looks at one representative of at most six distinct pre-shrink signatures, in
    the order of `ctx.oracle_hits`. The known pair QualHashsumStr / HashsumStr shows up inside many
    type pairs whose signature only collapses to the known one after shrinking on the real code
    (e.g. `union(qhash, lit(a)) < hash`), which would use up the six places. So: hits that do not
    involve `qhash` first; the others are shrunk here (smallest first, up to `budget` distinct
    signatures) and whatever does not collapse to the known signature comes next."""
    first, f12, q, seen, finknown = [], [], {}, set(), {}
    for h in ctx.oracle_hits:
        pre = signature(h["case"], h["detail"])
        if pre in FIN_KNOWN_SIGS:
            finknown.setdefault(pre, []).append(h)  # recorded findings: one representative each, after everything new
        elif pre == F12_SIG:
            f12.append(h)
        elif "qhash" not in pre:
            first.append(h)
        else:
            q.setdefault(pre, []).append(h)
    real, rest = [], []
    for n, pre in enumerate(sorted(q, key=lambda x: (len(x), x))):
        hs = q[pre]
        if n < budget:
            try:
                c2, d2 = shrink(ctx, hs[0]["case"], hs[0]["detail"])
                if signature(c2, d2) == F12_SIG:
                    f12.append(dict(hs[0], case=c2, detail=d2))
                    continue
                real.append(dict(hs[0], case=c2, detail=d2))
                continue
            except lean.InfraError:
                raise
            except Exception as e:
                ctx.notes.append("pre-shrink failed: %r" % (e,))
        rest += hs
    fk = [hs[0] for _, hs in sorted(finknown.items())]
    ctx.oracle_hits[:] = first + real + f12[:1] + fk + rest + f12[1:] + [h for _, hs in sorted(finknown.items()) for h in hs[1:]]


# ----------------------------------------------------------------------------- signatures / shrinking
def _subterms(t):
    out = [t]
    if t[0] in ("opt", "list", "set", "ann"):
        out += _subterms(t[1])
    elif t[0] == "union":
        for x in t[1]:
            out += _subterms(x)
    return out


def _f12_only(a, b, flag):
    """The two types have the same structure and differ only in leaves `qhash` (left) where the
    right one has `hash`: a witness for the pair is then the known pair QualHashsumStr / HashsumStr
    inside containers. flag[0] is set when such a leaf is met."""
    if a == ["qhash"] and b == ["hash"]:
        flag[0] = True
        return True
    if a == b:
        return True
    if a[0] == b[0] and a[0] in ("opt", "list", "set", "ann"):
        return _f12_only(a[1], b[1], flag)
    if b[0] == "opt" and a[0] != "opt":
        return _f12_only(a, b[1], flag)
    if b[0] == "union":
        for x in (a[1] if a[0] == "union" else [a]):
            if x in b[1]:
                continue
            if x == ["qhash"] and ["hash"] in b[1]:
                flag[0] = True
                continue
            return False
        return True
    return False


def _has_blank_lit(t):
    return any(x[0] == "lit" and any(isinstance(v, str) and v.strip() == "" for v in x[1]) for x in _subterms(t))


def _nested_blank_literal(a, b, detail):
    """The child type is not itself a Literal (after Annotated), but has a Literal member with an
    empty / blank string below Optional / Union / List / Set, the parent type has the plain builtin
    `str` there, and the parent refused the value for its length."""
    while a[0] == "ann" and b[0] == "ann":
        a, b = a[1], b[1]
    if a[0] == "lit":
        return False
    return bool(_has_blank_lit(a) and any(x == ["pstr"] for x in _subterms(b)) and "min_length" in str(detail.get("error", "")))


def _is_f12(a, b):
    flag = [False]
    try:
        return bool(_f12_only(a, b, flag) and flag[0])
    except Exception:
        return False


def signature(case, detail):
    if not isinstance(detail, dict):
        return "%s:%s" % (ID, str(detail)[:40])
    kind = detail.get("kind")
    if kind == "opaque-parser-raises":
        return "%s:%s:%s" % (ID, kind, detail.get("type"))
    if kind == "subtype-unsound":
        a, b = detail.get("sub"), detail.get("base")
        if _is_f12(a, b):
            return F12_SIG
        return "%s:subtype-unsound:%s<%s" % (ID, G.ty_str(a), G.ty_str(b))
    if kind in ("enum-child-instance-rejected-by-parent", "instance-rejected-by-ancestor") and detail.get("form"):
        return "%s:%s:%s" % (ID, FORM_SIG, detail["form"])
    if kind == "enum-child-instance-rejected-by-parent":
        return "%s:enum-constant-rejected-by-parent:%s:%s" % (ID, detail.get("enum"), ",".join(detail.get("fields") or []))
    if kind == "refused-plugin-handed-out":
        return PLG_SIG
    if kind == FIN_KIND:
        if detail.get("form"):
            return "%s:%s:%s" % (ID, FORM_SIG, detail["form"])
        try:
            aspect, hc, hp = _fin_aspect(detail)
        except Exception:
            return "%s:field-info-override-unsound" % ID
        if hc == "ann" and hp != "ann":
            return FIN_ANN_OVER_PLAIN_SIG
        if hc != "ann" and hp == "ann":
            return FIN_PLAIN_OVER_ANN_SIG
        if aspect == "alias":
            return FIN_ALIAS_SIG
        if aspect in ("constraint", "required"):
            return FIN_CONSTRAINT_SIG
        return "%s:field-info-override-unsound:%s" % (ID, aspect)
    if kind == "accepted-after-refusal":
        return AFTER_REFUSAL_SIG
    if kind == "child-instance-rejected-by-parent" and detail.get("form"):
        # the JSON value of the instance is accepted by the ancestor, this serialisation form of it is not
        return "%s:%s:%s" % (ID, FORM_SIG, detail["form"])
    if kind == "child-instance-rejected-by-parent":
        fam = detail.get("fam") or case.get("fam")
        ch, pa = detail.get("child"), detail.get("parent")
        flds = detail.get("fields") or []
        try:
            ft_c = {f[0]: f[1] for f in G.eff_fields(fam, ch)}
            ft_p = {f[0]: f[1] for f in G.eff_fields(fam, pa)}
            consts_c = [k for k, _ in G.eff_consts(fam, ch)]
            consts_p = [k for k, _ in G.eff_consts(fam, pa)]
            if flds and all(k in consts_c and k not in consts_p for k in flds) and G.eff_extra(fam, pa) == "forbid":
                return CONST_FORBID_SIG
            if flds and all(k in ft_c and k not in ft_p and k not in consts_p for k in flds) and G.eff_extra(fam, pa) == "forbid":
                return NEW_FIELD_FORBID_SIG
            if flds and all(k in consts_c for k in flds) and any(k in ft_p for k in flds):
                # a constant of the child sits where the ancestor has a typed field
                b = ft_p[[k for k in flds if k in ft_p][0]]
                inner = b
                while inner[0] in ("opt", "ann"):
                    inner = inner[1]
                if inner[0] in ("list", "set"):
                    return CONST_CONTAINER_SIG
                return "%s:constant-field-rejected-by-parent:%s" % (ID, G.ty_str(b))
            if len(flds) == 1 and flds[0] in ft_c and flds[0] in ft_p:
                a, b = ft_c[flds[0]], ft_p[flds[0]]
                if _is_f12(a, b):
                    return F12_SIG
                if _nested_blank_literal(a, b, detail):
                    return NESTED_BLANK_LIT_SIG
                ser = (detail.get("serialised") or {}).get(flds[0])
                if a[0] == "lit" and b[0] in G.PLAIN_ATOMS and any(type(v) is type(ser) and v == ser for v in a[1]):
                    a = ["lit", [ser]]  # the offending member only
                return "%s:override-unsound:%s<%s" % (ID, G.ty_str(a), G.ty_str(b))
        except Exception:
            pass
        return "%s:child-instance-rejected-by-parent:%s" % (ID, ",".join(flds))
    if kind == "instance-rejected-by-ancestor":
        return "%s:%s:%s<%s:%s" % (ID, kind, detail.get("schema"), detail.get("ancestor"), ",".join(detail.get("fields") or []))
    return "%s:%s" % (ID, kind)


def shrink(ctx, case, detail):
    if not isinstance(detail, dict):
        return case, detail
    kind = detail.get("kind")
    if kind == "opaque-parser-raises":
        return "%s:%s:%s" % (ID, kind, detail.get("type"))
    if kind == "subtype-unsound":
        # smallest pair of sub-terms that is still accepted by is_subtype and has a witness
        a, b = detail["sub"], detail["base"]
        cands = sorted(((x, y) for x in _subterms(a) for y in _subterms(b)), key=lambda p: len(json.dumps(p)))
        c = dict(kind="sub", fam=case["fam"], pairs=[list(p) for p in cands[:300]], seed=case.get("seed", 0))
        r = pool.run_one(MOD, "impl", c, timeout=600)
        if "ok" in r and r["ok"]["oracle"]:
            best = min(r["ok"]["oracle"], key=lambda d: len(json.dumps([d["sub"], d["base"]])))
            return dict(kind="sub", fam=case["fam"], pairs=[[best["sub"], best["base"]]], seed=case.get("seed", 0)), best
        return dict(case, pairs=[[a, b]]), detail
    if kind == "child-instance-rejected-by-parent" and case.get("kind") == "pln":
        # smallest pair of sub-terms that is still let through and has a witness
        a, b = detail["sub"], detail["base"]
        cands = sorted(((x, y) for x in _subterms(a) for y in _subterms(b)), key=lambda p: len(json.dumps(p)))
        c = dict(kind="pln", pairs=[list(p) for p in cands[:200]], seed=case.get("seed", 0))
        r = pool.run_one(MOD, "impl", c, timeout=600)
        if "ok" in r and r["ok"]["oracle"]:
            best = min(r["ok"]["oracle"], key=lambda d: len(json.dumps([d["sub"], d["base"]])))
            return dict(kind="pln", pairs=[[best["sub"], best["base"]]], seed=case.get("seed", 0)), best
        return dict(case, pairs=[[a, b]]), detail
    if kind == "enum-child-instance-rejected-by-parent":
        return dict(case, docs=[detail["input"]]), detail
    if kind == "refused-plugin-handed-out":
        r = pool.run_one(MOD, "shrink_plg", dict(case=case, detail=detail), timeout=600)
        if "ok" in r and r["ok"]:
            return r["ok"]["case"], r["ok"]["detail"]
        return case, detail
    if kind == FIN_KIND:
        r = pool.run_one(MOD, "shrink_fin", dict(case=case, detail=detail), timeout=600)
        if "ok" in r and r["ok"]:
            return r["ok"]["case"], r["ok"]["detail"]
        return case, detail
    if kind in ("child-instance-rejected-by-parent", "accepted-after-refusal"):
        r = pool.run_one(MOD, "shrink_ovr", dict(case=case, detail=detail), timeout=600)
        if "ok" in r and r["ok"]:
            return r["ok"]["case"], r["ok"]["detail"]
        return case, detail
    if kind == "instance-rejected-by-ancestor":
        r = pool.run_one(MOD, "shrink_anc", dict(case=case, detail=detail), timeout=600)
        if "ok" in r and r["ok"]:
            return r["ok"]["case"], r["ok"]["detail"]
    return case, detail


def shrink_ovr(req):
    """Inside a worker: drop loads / documents / classes / fields / constants / decorators of the
    family while the same kind of witness is still produced."""
    case, detail = req["case"], req["detail"]
    budget = [200]

    def fails(c):
        budget[0] -= 1
        try:
            r = impl(c)
        except Exception:
            return None
        ds = [d for d in r["oracle"] if d.get("kind") == detail["kind"] and d.get("form") == detail.get("form")]
        return ds[0] if ds else None

    cur = dict(case)
    det = fails(cur)
    if not det:
        return None
    seq = cur.get("kind") == "seq"
    if isinstance(det.get("input"), dict):
        # name the document, so that a smaller family does not have to find it again by chance
        c = dict(cur, witness=[det["child"], det["input"]])
        d = fails(c)
        if d:
            cur, det = c, d
    if seq and cur.get("inputs"):
        c = dict(cur, inputs=[])
        d = fails(c)
        if d:
            cur, det = c, d
    # loads first (does the order matter at all?), then unused classes (from the end), then fields and constants
    if seq:
        if cur["loads"] != [det["child"]] and G.get_cd(cur["fam"], det["child"]).get("plugin"):
            c = dict(cur, loads=[det["child"]])  # does the order matter at all?
            d = fails(c)
            if d:
                cur, det = c, d
        j = 0
        while j < len(cur["loads"]) and len(cur["loads"]) > 1 and budget[0] > 0:
            c = dict(cur, loads=cur["loads"][:j] + cur["loads"][j + 1:])
            d = fails(c)
            if d:
                cur, det = c, d
            else:
                j += 1
    if not seq and cur["root"] != det["child"]:
        c = dict(cur, root=det["child"])
        d = fails(c)
        if d:
            cur, det = c, d
    i = len(cur["fam"]) - 1
    while i >= 0 and budget[0] > 0:
        nm = cur["fam"][i]["name"]
        if nm != cur.get("root"):
            c = dict(cur, fam=[cd for k, cd in enumerate(cur["fam"]) if k != i])
            if seq:
                c["loads"] = [x for x in cur["loads"] if x != nm]
                par = cur["fam"][i]["parent"]
                if not c["loads"] and par and G.get_cd(cur["fam"], par).get("plugin"):
                    c["loads"] = [par]  # the witness may already be one level up
            d = fails(c) if (not seq or c["loads"]) else None
            if d:
                cur, det = c, d
        i -= 1
    for ci in range(len(cur["fam"])):
        for part in ("fields", "consts", "overrides", "mandatory"):
            j = 0
            while j < len(cur["fam"][ci].get(part, [])) and budget[0] > 0:
                fam2 = json.loads(json.dumps(cur["fam"]))
                del fam2[ci][part][j]
                c = dict(cur, fam=fam2)
                d = fails(c)
                if d:
                    cur, det = c, d
                else:
                    j += 1
        if cur["fam"][ci].get("extra") and budget[0] > 0:
            fam2 = json.loads(json.dumps(cur["fam"]))
            fam2[ci]["extra"] = None
            c = dict(cur, fam=fam2)
            d = fails(c)
            if d:
                cur, det = c, d
    # the document: named in the case, then made as small as possible
    if isinstance(det.get("input"), dict) and budget[0] > 0:
        c = dict(cur, witness=[det["child"], det["input"]], n_inst=0)
        d = fails(c)
        if d:
            cur, det = c, d

            def still(doc):
                return fails(dict(cur, witness=[det["child"], doc]))

            doc = C12._shrink_json(det["input"], still, budget)
            c = dict(cur, witness=[det["child"], doc])
            d = fails(c)
            if d:
                cur, det = c, d
    return dict(case=cur, detail=det)


def shrink_anc(req):
    case, detail = req["case"], req["detail"]
    budget = [200]

    def fails(inp):
        budget[0] -= 1
        r = _impl_anc(dict(kind="anc", schema=case["schema"], seed=0, n=1, inputs=[inp]))
        ds = [d for d in r["oracle"] if d.get("kind") == detail["kind"]]
        return ds[0] if ds else None

    inp = detail.get("input")
    if not isinstance(inp, dict) or not fails(inp):
        return None
    inp = C12._shrink_json(inp, fails, budget)
    return dict(case=dict(kind="anc", schema=case["schema"], seed=0, n=1, inputs=[inp]), detail=fails(inp) or detail)


def search(ctx):
    for s in range(1, 3):
        sub = core.Ctx(ID, "quick", ctx.seed + 7919 * s)
        cases = gen_seq_cases(sub) + gen_enm_cases(sub) + gen_ovr_cases(sub) + gen_fin_cases(sub) + gen_plg_cases(sub) + gen_sub_cases(sub) + gen_pln_cases(sub)
        res = pool.run(MOD, "impl", cases, timeout=300)
        ctx.search_log.append("seed %d: %d cases (subtype pairs with witness search, override families), oracle only" % (sub.seed, len(cases)))
        known = {k.get("signature") for k in core.load_findings() if k.get("kind") == "known"}
        for c, r in zip(cases, res):
            if "ok" in r:
                for d in r["ok"]["oracle"]:
                    if d.get("shrunk_case"):  # `fin` hits are minimised inside the worker
                        c, d = d["shrunk_case"], {k: v for k, v in d.items() if k != "shrunk_case"}
                    c2, d2 = shrink(ctx, c, d)
                    if signature(c2, d2) not in known and signature(c2, d2) not in FIN_PENDING:
                        return c2, d2
    return None


def replay(ctx, rep):
    case = rep.get("case")
    if not case:
        print(core.canon(rep)[:3000])
        return 0
    r = pool.run_one(MOD, "impl", case, timeout=300)
    print("implementation:", core.canon(r)[:4000])
    for d in (r.get("ok") or {}).get("oracle", []):
        print("witness: loads=%s child=%s parent=%s fields=%s input=%s serialised=%s\n  %s" % (",".join(case.get("loads", [])) or "-", d.get("child"), d.get("parent"), d.get("fields"),
                                                                                         json.dumps(d.get("input")), json.dumps(d.get("serialised")), d.get("error")))
    if case.get("kind") not in ("anc", "pln", "enm", "fin", "plg"):
        C12.load_nf(ctx)
        print("model:", lean.run_driver("drv_cod", [lines(case)]))
    return 1 if ("ok" in r and r["ok"]["oracle"]) else 0
