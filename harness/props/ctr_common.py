"""Shared machinery for the container properties C06 (TOC sync), C07 (metadata get/query) and
C20 (self-description): history generator, real-code runner with the three oracles, model
lines for the Lean driver `drv_ctr`, canonicalisation and comparison.

A case is `dict(driver="h5"|"ih5", ops=[...], insts=[[name, ver|None, dict]...], nq=int,
qseed=int)`. Operations (paths are absolute, without reserved segments):

    ["grp", path]                         mc.create_group(path)
    ["ds", path, tok]                     mc[path] = tok  (str token as content)
    ["mset", path, name, ver|None, i]     mc[path].meta[(name, ver)] = instance i  (i = -1: invalid)
    ["mdel", path, name]                  del mc[path].meta[name]
    ["mseq", path, [sub...]]              m = mc[path].meta ; then on the SAME handle:
                                           ["set", name, ver, i] | ["del", name] | ["get", name, ver]
    ["hmeta", path, [[slot, route, sub]...]]  the same sub-operations, each through a HELD NODE WRAPPER:
                                           slot = key of a table of wrappers that live on across operations
                                           (dropped at reopen), route = how the wrapper is obtained when the slot
                                           is empty or no longer denotes the node at `path` (WRAP_ROUTES);
                                           `.meta` is taken afresh from the wrapper for EVERY sub-operation.
                                           To the model: one `meta path sub` operation per sub-operation.
    "mset" ops and "set" sub-operations may carry two more elements [.., key shape, value shape]
    (KEY_SHAPES x VAL_SHAPES: `meta[name | (name, ver) | SchemaClass | PluginRef] = instance | dict |
    JSON | bytes | instance of the key class`), "get" sub-operations one more (see `get_shaped`);
    the instance i may belong to another schema than `name` (descendant: instance of a subclass).
    ["del", path]                         del mc[path]
    ["copy", src, dst, without_meta]      mc.copy(src, dst[, without_meta=True])
    ["move", src, dst]                    mc.move(src, dst)
    ["reopen"]                            close, open again from disk (new MetadorContainer)
    ["patch"]                             IH5 only: commit_patch + create_patch (live object kept)

After every operation the runner records (one output line each, compared with the model):
status, canonical raw dump, cache observations, metadata/query observations.
"""
import json
import os
import re
import shutil
import tempfile

from .. import core, lean

# --------------------------------------------------------------------------- schema family
# (name, version, parent (name, version) | None, package, auxiliary)
VT_PKGS = {"vt-pkg": (0, 3, 1), "vt-pkg2": (1, 0, 0)}
VT_FAMILY = [
    ("vt.aa", (1, 2, 0), None, "vt-pkg", False),
    ("vt.aa", (2, 1, 0), None, "vt-pkg", False),
    ("vt.bb", (1, 0, 0), ("vt.aa", (1, 2, 0)), "vt-pkg", False),
    ("vt.bb", (1, 3, 0), ("vt.aa", (1, 2, 0)), "vt-pkg", False),
    ("vt.cc", (1, 0, 0), ("vt.aa", (1, 2, 0)), "vt-pkg2", False),
    ("vt.dd", (1, 1, 0), ("vt.bb", (1, 3, 0)), "vt-pkg2", False),
    ("vt.ee", (1, 0, 0), None, "vt-pkg2", False),
    ("vt.ee", (2, 0, 0), ("vt.ee", (1, 0, 0)), "vt-pkg2", False),  # new major extends old major
    ("vt.ff", (2, 0, 0), ("vt.aa", (2, 1, 0)), "vt-pkg", False),
    ("vt.xx", (1, 0, 0), None, "vt-pkg", True),  # auxiliary
    ("vt.yy", (1, 0, 0), ("vt.xx", (1, 0, 0)), "vt-pkg", False),  # attachable child of auxiliary
]
INSTALLED = ["core.file", "core.dir", "core.bib", "core.imagefile", "core.table"]
UNKNOWN = "zz.nope"

_UUID = re.compile(r"[0-9a-f]{8}-[0-9a-f]{4}-[0-9a-f]{4}-[0-9a-f]{4}-[0-9a-f]{12}")


def ep(name, ver):
    return "%s__%d.%d.%d" % (name, ver[0], ver[1], ver[2])


def vstr(ver):
    return "-" if ver is None else "%d.%d.%d" % tuple(ver)


# --------------------------------------------------------------------------- real code: env
_env = {}


class _Dist:
    def __init__(self, n):
        self.name = n


class _EP:
    def __init__(self, pkg, obj):
        self.dist = _Dist(pkg)
        self._obj = obj

    def load(self):
        return self._obj


def _setup_env():
    """Register the vt.* family in the real plugin system (once per worker process)."""
    if _env:
        return _env
    from typing import Optional

    from metador_core.plugin.types import to_ep_name
    from metador_core.plugin.util import register_in_group
    from metador_core.plugins import schemas
    from metador_core.schema import MetadataSchema
    from metador_core.schema.plugins import PluginPkgMeta

    classes = {}
    by_pkg = {}
    typed = vt_typed_fields()
    for name, ver, parent, pkg, aux in VT_FAMILY:
        base = classes[parent] if parent else MetadataSchema
        pl = {"name": name, "version": ver}
        if aux:
            pl["auxiliary"] = True
        fld = "f_" + name.split(".")[1] + str(ver[0])
        ns = {"__annotations__": {"tag": str, fld: Optional[int]}, fld: None, "Plugin": type("Plugin", (), pl),
              "__module__": __name__}
        if not parent:
            # the roots of the family carry one optional field per kind of field type of the schema library (inherited by
            # all descendants, so every vt.* input is valid input of every vt.* schema): their JSON Schemas - embedded in the
            # containers - contain what the parser types export (`schema_info`, patterns, nested definitions)
            for f, hint in typed.items():
                ns["__annotations__"][f] = Optional[hint]
                ns[f] = None
        cls = type(base)("VT_%s_%d_%d_%d" % (name.replace(".", "_"), *ver), (base,), ns)
        register_in_group(schemas, cls, violently=True)
        schemas._ENTRY_POINTS[to_ep_name(name, ver)] = _EP(pkg, cls)
        classes[(name, ver)] = cls
        by_pkg.setdefault(pkg, []).append(cls.Plugin.ref())
    for pkg, refs in by_pkg.items():
        schemas._PKG_META[pkg] = PluginPkgMeta(name=pkg, version=VT_PKGS[pkg], plugins={"schema": refs})
    _env["classes"] = classes
    _env["schemas"] = schemas
    # all refs the harness talks about
    refs = []
    for n in INSTALLED:
        refs += list(schemas.versions(n))
    for name, ver, *_ in VT_FAMILY:
        refs += [r for r in schemas.versions(name) if tuple(r.version) == ver]
    _env["refs"] = refs
    for r in refs:
        schemas._ensure_is_loaded(r)
    _env["jsonschema"] = {}
    for r in refs:
        cls = schemas._LOADED_PLUGINS[r]
        _env["jsonschema"][ep(r.name, r.version)] = json.loads(cls.schema_json())
    _env["unreg"] = {}
    return _env


def vt_typed_fields():
    """field name -> type hint of the optional typed fields of the vt.* roots (real code; worker only)."""
    import datetime
    from typing import List

    from metador_core.schema import types as T
    from metador_core.schema.common import NumValue, Pixels

    return {"dur": T.Duration, "qty": T.PintQuantity, "unit": T.PintUnit, "num": T.Float, "cnt": T.Int, "flag": T.Bool,
            "mime": T.MimeTypeStr, "hsum": T.QualHashsumStr, "note": T.NonEmptyStr, "when": datetime.datetime, "day": datetime.date,
            "px": Pixels, "nv": NumValue, "durs": List[T.Duration], "words": List[T.NonEmptyStr]}


def exact_class(name, ver):
    """The installed schema class of exactly (name, ver), or None."""
    e = _setup_env()
    for r in e["refs"]:
        if r.name == name and tuple(r.version) == tuple(ver):
            return e["schemas"]._LOADED_PLUGINS[r]
    return None


def key_class(name, ver):
    """A schema CLASS denoting (name, ver): the installed class of exactly that release, else a
    class that is not registered as a plugin (only its `Plugin.name/version` say what it is)."""
    cls = exact_class(name, ver)
    if cls is not None:
        return cls
    e = _setup_env()
    k = (name, tuple(ver))
    if k not in e["unreg"]:
        from typing import Optional

        from metador_core.schema import MetadataSchema

        ns = {"__annotations__": {"tag": Optional[str]}, "tag": None, "__module__": __name__,
              "Plugin": type("Plugin", (), {"name": name, "version": tuple(ver)})}
        e["unreg"][k] = type(MetadataSchema)("VT_unreg_%d" % len(e["unreg"]), (MetadataSchema,), ns)
    return e["unreg"][k]


# call shapes of `node.meta[KEY] = VALUE` (all equivalent for the model: `plugin_args` maps KEY to
# (name, version); VALUE is parsed with the resolved class unless it already is an instance of it)
KEY_SHAPES = ("tuple", "name", "class", "ref")
VAL_SHAPES = ("inst", "dict", "json", "raw", "keyinst")


def set_shapes(s):
    """(key shape, value shape) of a `set` sub-operation ["set", name, ver, i, ksh?, vsh?]."""
    ksh = s[4] if len(s) > 4 else "tuple"
    vsh = s[5] if len(s) > 5 else "inst"
    if ksh in ("class", "ref") and not s[2]:
        ksh = "tuple"  # a class / PluginRef always carries a version
    return ksh, vsh


def set_target(s):
    """(name, version) a `set` sub-operation asks for, as `plugin_args` sees its key."""
    ksh, _ = set_shapes(s)
    return s[1], (None if ksh == "name" or not s[2] else tuple(s[2]))


def env_info(_case=None):
    """Description of the schema environment as the real plugin system reports it (used to
    build the `env` lines of the model driver)."""
    e = _setup_env()
    schemas = e["schemas"]
    out = {"schemas": [], "pkgs": []}
    pk = {}
    for r in e["refs"]:
        cls = schemas._LOADED_PLUGINS[r]  # exact version (`_get_unsafe` gives the newest compatible)
        pp = schemas.parent_path(r.name, tuple(r.version))
        pm = schemas.provider(r)
        pkg = [str(pm.name), list(pm.version)]
        out["schemas"].append(dict(name=r.name, ver=list(r.version), aux=bool(cls.Plugin.auxiliary),
                                   parents=[[p.name, list(p.version)] for p in pp], pkg=pkg))
        pk[(pkg[0], tuple(pkg[1]))] = pm
    for (n, v), pm in sorted(pk.items()):
        out["pkgs"].append(dict(name=n, ver=list(v), plugins=[[p.name, list(p.version)] for p in pm.plugins.get("schema", [])]))
    return out


def unique_key(name):
    """The field that keeps generated instances of a schema distinct (never overlaid)."""
    return "tag" if name.startswith("vt.") else "name"


N_FIELD_VALUES, N_FIELD_DRAWS, N_RANDOM_INPUTS = 40, 240, 60


def _multiset(v):
    if isinstance(v, (set, frozenset)):
        return len(v) > 1 or any(_multiset(x) for x in v)
    if isinstance(v, dict):
        return any(_multiset(x) for x in v.values())
    if isinstance(v, (list, tuple)):
        return any(_multiset(x) for x in v)
    return False


def _overlay_ok(cls, targets, name, base, ov):
    """Is `base + ov` a valid instance of schema `name` that the container histories can use: valid for the class,
    with a stable stored form (parse . dump is the identity on it: what C12 is about is left to C12; sets of more
    than one element have no defined order), and convertible to every class a history may pass it to."""
    d = dict(base)
    d.update(ov)
    try:
        d = json.loads(json.dumps(d))
        obj = cls.parse_obj(d)
        b = bytes(obj)
        o2 = cls.parse_raw(b)
        if o2 != obj or bytes(o2) != b or _multiset(obj.dict()):
            return False
        if bytes(cls.parse_obj(obj.dict())) != b or bytes(cls.parse_obj(json.loads(obj.json()))) != b:
            return False
        for K in targets:
            mks = [lambda: K.parse_obj(obj.dict()), lambda: K.parse_raw(b), lambda: K.parse_obj(json.loads(obj.json()))]
            if K.Plugin.name == name:
                mks.append(lambda: K.parse_obj(d))
            for mk in mks:
                v = mk()
                if K.parse_raw(bytes(v)) != v or bytes(K.parse_raw(bytes(v))) != bytes(v):
                    return False
    except Exception:  # noqa: BLE001
        return False
    return True


def field_pool(req):
    """(worker) Overlays for the instances of schema `req["name"]`: for EVERY field of the schema class (own and
    inherited, nested models included) values of its type drawn from the boundary corpora of `schema_gen` (durations with
    fractions / sign / weeks / zero, units, quantities, numbers 0 / negative / float / huge, odd strings, urls, dates,
    nested persons / organisations ...), one field at a time, plus random multi-field inputs. Only what the real class
    accepts and stores stably is kept (`_overlay_ok`). Deterministic (private generator seeded with the name)."""
    import random

    from . import schema_gen as G

    name = req["name"]
    e = _setup_env()
    S = e["schemas"]
    mine = [S._LOADED_PLUGINS[r] for r in e["refs"] if r.name == name]
    cls = mine[-1]
    if name.startswith("vt."):
        targets = [S._LOADED_PLUGINS[r] for r in e["refs"] if r.name.startswith("vt.")]
    else:
        anc = set()
        for r in e["refs"]:
            if r.name == name:
                anc.update((q.name, tuple(q.version)) for q in S.parent_path(r.name, tuple(r.version)))
        targets = [S._LOADED_PLUGINS[r] for r in e["refs"] if r.name == name or (r.name, tuple(r.version)) in anc]
    rng = random.Random("instpool:" + name)
    base = make_instance_dict(name, 0)
    keep = unique_key(name)
    consts = getattr(cls, "__constants__", {})
    cands = []
    for fname, mf in cls.__fields__.items():
        if fname in consts or mf.alias == keep:
            continue
        seen = set()
        for _ in range(N_FIELD_DRAWS):
            v = G.gen_for_hint(rng, mf.outer_type_, 2)
            if v is G.OMIT or v is None:
                continue
            try:
                key = json.dumps(v, sort_keys=True)
            except Exception:  # noqa: BLE001
                continue
            if key not in seen:
                seen.add(key)
                cands.append({mf.alias: json.loads(key)})
                if len(seen) >= N_FIELD_VALUES:
                    break
    for _ in range(N_RANDOM_INPUTS):
        try:
            d = json.loads(json.dumps(G.gen_model_input(rng, cls, 2)))
        except Exception:  # noqa: BLE001
            continue
        d.pop(keep, None)
        for c in consts:
            d.pop(c, None)
        for attempt in range(6):
            try:
                x = dict(base)
                x.update(d)
                cls.parse_obj(json.loads(json.dumps(x)))
                break
            except Exception as ex:  # noqa: BLE001
                errs = getattr(ex, "errors", None)
                if errs is None or not G.repair_input(d, errs()):
                    break
        cands.append(d)
    ok = [ov for ov in cands if ov and _overlay_ok(cls, targets, name, base, ov)]
    return dict(name=name, overlays=ok, tried=len(cands), fields=sorted(set(k for ov in ok for k in ov)))


_INSTPOOL = {}


def get_instpool():
    """{schema name: [overlay ...]} computed once per run by worker processes from the real schema classes."""
    if not _INSTPOOL:
        from .. import pool

        cache = _instpool_cache_file()
        if cache and os.path.exists(cache):
            try:
                _INSTPOOL.update(json.load(open(cache)))
                return _INSTPOOL
            except Exception:  # noqa: BLE001
                _INSTPOOL.clear()
        res = pool.run("harness.props.ctr_common", "field_pool", [{"name": n} for n in SCHEMA_NAMES], timeout=600)
        for n, r in zip(SCHEMA_NAMES, res):
            if "ok" not in r:
                raise lean.InfraError("cannot build the instance pool of %s: %r" % (n, r))
            _INSTPOOL[n] = r["ok"]["overlays"]
        if cache:
            try:
                os.makedirs(os.path.dirname(cache), exist_ok=True)
                tmp = "%s.%d.tmp" % (cache, os.getpid())
                json.dump(_INSTPOOL, open(tmp, "w"))
                os.replace(tmp, cache)
            except OSError:
                pass
    return _INSTPOOL


def _instpool_cache_file():
    """The pool is a function of the library under test (its Python sources), of the pools / generators of the harness
    and of nothing else: it is kept in /verif/work (git-ignored) under the hash of those files."""
    import hashlib

    h = hashlib.sha256()
    root = os.path.join(os.environ.get("METADOR_REPO", "/repo"), "src", "metador_core")
    files = []
    for dp, dn, fn in os.walk(root):
        dn.sort()
        files += [os.path.join(dp, f) for f in sorted(fn) if f.endswith(".py")]
    here = os.path.dirname(os.path.abspath(__file__))
    files += [os.path.join(here, "ctr_common.py"), os.path.join(here, "schema_gen.py")]
    try:
        for f in files:
            h.update(f[len(root):].encode() if f.startswith(root) else os.path.basename(f).encode())
            h.update(open(f, "rb").read())
    except OSError:
        return None
    return os.path.join(core.VERIF, "work", "instpool-%s.json" % h.hexdigest()[:20])


def make_instance_dict(name, k, vr=None):
    """k-th valid instance (as dict) for schema `name` (any version). With a generator `vr`: mostly overlaid with
    values from the boundary pool of the schema's fields (`field_pool`); the field `unique_key(name)` keeps it distinct."""
    d = _plain_instance_dict(name, k)
    if vr is not None:
        ovs = get_instpool().get(name) or []
        if ovs and vr.random() < 0.8:
            d.update(json.loads(json.dumps(vr.choice(ovs))))
    return d


def _plain_instance_dict(name, k):
    tag = "%s#%d" % (name, k)
    if name.startswith("vt."):
        return {"tag": tag}
    if name == "core.table":
        return {"name": tag, "columns": [{"name": "c%d" % k, "unit": "meter"}] if k % 2 else []}
    if name == "core.dir":
        return {"name": tag, "abstract": "dir %d" % k}
    if name == "core.bib":
        return {"name": tag, "abstract": "about %d" % k, "dateCreated": "2023-01-%02d" % (1 + k % 28),
                "author": [{"name": "Jane Doe"}] + ([{"givenName": "Jo", "familyName": "Roe"}] if k % 2 else [])}
    if name == "core.file":
        return {"filename": "f%d.txt" % k, "encodingFormat": "text/plain", "contentSize": 10 + k, "sha256": "%064x" % (k + 1), "name": tag}
    if name == "core.imagefile":
        return {"filename": "i%d.png" % k, "encodingFormat": "image/png", "contentSize": 100 + k, "sha256": "%064x" % (k + 7),
                "width": 10 + k, "height": 20 + k, "name": tag}
    raise KeyError(name)


INVALID = {"tag": ["not", "a", "string"], "filename": "", "name": {"x": 1}, "columns": 5, "author": 7}


# --------------------------------------------------------------------------- real code: runner
def _is_internal(seg):
    return seg.startswith("metador_")


class _Run:
    def __init__(self, case, tmp):
        import h5py
        from metador_core.container import MetadorContainer
        from metador_core.ih5.container import IH5Record

        self.case = case
        self.env = _setup_env()
        self.schemas = self.env["schemas"]
        self.h5py = h5py
        self.MC = MetadorContainer
        if case["driver"] == "mf":  # C09: IH5 record with manifest sidecar (subclass of IH5Record)
            from metador_core.ih5.manifest import IH5MFRecord

            self.drv = IH5MFRecord
        else:
            self.drv = h5py.File if case["driver"] == "h5" else IH5Record
        self.path = os.path.join(tmp, "c.h5" if case["driver"] == "h5" else "rec")
        self.mc = MetadorContainer(self.drv(self.path, "w"))
        self.oracle = []
        self.tags = set()
        # instance table: index -> (class, object, bytes)
        self.insts = []
        self.by_bytes = {}
        for i, (name, ver, d) in enumerate(case["insts"]):
            cls = self.schemas._get_unsafe(name, tuple(ver) if ver else None)
            obj = cls.parse_obj(d)
            b = bytes(obj)
            self.insts.append((cls, obj, b))
            self.by_bytes.setdefault(b, "i%d" % i)
        # the same instance as it is stored when it arrives in another call shape (dict / JSON /
        # instance converted to another release or to an ancestor schema)
        for i, (cls, obj, b) in enumerate(self.insts):
            d = case["insts"][i][2]
            for K in self.related_classes(cls):
                for mk in (lambda: K.parse_obj(d), lambda: K.parse_obj(obj.dict()), lambda: K.parse_raw(b),
                           lambda: K.parse_obj(json.loads(obj.json()))):
                    try:
                        self.by_bytes.setdefault(bytes(mk()), "i%d" % i)
                    except Exception:  # noqa: BLE001
                        pass
        self.stored = {}  # uuid -> instance index (harness bookkeeping for C07)
        self.held = {}  # slot -> live node wrapper (several wrappers of one node, kept across operations)
        self.held_at = {}  # slot -> path the wrapper was obtained at
        self.pid = None  # property the run is for (set by `impl`); C07: every live handle of a node is observed

    # ------------------------------------------------------------------ helpers
    def hit(self, prop, kind, **kw):
        d = dict(prop=prop, kind=kind)
        d.update(kw)
        self.oracle.append(d)

    def raw(self):
        return self.mc.__wrapped__

    def related_classes(self, cls):
        """Installed classes of the same schema name (any release) and of the ancestor schemas."""
        memo = self.env.setdefault("related", {})
        if cls not in memo:
            ref = cls.Plugin.ref()
            try:
                anc = [(r.name, tuple(r.version)) for r in self.schemas.parent_path(ref.name, tuple(ref.version))]
            except KeyError:
                anc = []
            # vt.*: a history may pass an instance of any schema of the family for any other one (`value_schema`)
            memo[cls] = [self.schemas._LOADED_PLUGINS[r] for r in self.env["refs"]
                         if r.name == ref.name or (r.name, tuple(r.version)) in anc
                         or (ref.name.startswith("vt.") and r.name.startswith("vt."))]
        return memo[cls]

    def set_key(self, s):
        """KEY of `meta[KEY] = ...` in the requested call shape."""
        ksh, _ = set_shapes(s)
        name, ver = s[1], (tuple(s[2]) if s[2] else None)
        if ksh == "name":
            return name
        if ksh == "ref":
            return self.schemas.PluginRef(name=name, version=ver)
        if ksh == "class":
            return key_class(name, ver)
        return (name, ver)

    def set_val(self, s, key):
        """VALUE of `meta[...] = VALUE` in the requested call shape."""
        i = s[3]
        _, vsh = set_shapes(s)
        if i < 0:
            return json.dumps(INVALID) if vsh in ("json", "raw") else dict(INVALID)
        cls, obj, b = self.insts[i]
        if vsh == "dict":
            # the user's own dict for the schema it was written for, else the instance as dict
            # (raw input of a descendant schema need not be valid input of the ancestor)
            if self.case["insts"][i][0] == s[1]:
                return json.loads(json.dumps(self.case["insts"][i][2]))
            return json.loads(obj.json())
        if vsh == "json":
            return obj.json()
        if vsh == "raw":
            return b
        if vsh == "keyinst" and isinstance(key, type):
            try:  # from the normalised instance (raw input of a descendant schema need not convert)
                return key.parse_obj(json.loads(obj.json()))
            except Exception:  # noqa: BLE001
                return obj
        return obj

    def get_shaped(self, m, name, ver, k):
        """`m.get(name, ver)` in one of the equivalent call shapes of the metadata API."""
        if k == 1:
            return m.get((name, ver))
        if k == 2 and ver:
            return m.get(self.schemas.PluginRef(name=name, version=ver))
        if k == 3 and ver and exact_class(name, ver) is not None:
            return m.get(exact_class(name, ver))
        if k == 4:
            key = (name, ver)
            try:
                return m[key]  # __getitem__: KeyError(key) instead of None
            except KeyError as e:
                if e.args == (key,):
                    return None
                raise
        return m.get(name, ver)

    def is_ds(self, node):
        return not hasattr(node, "keys")

    def raw_entries(self):
        """[(path, kind, value)] of the raw tree (sorted by path); kind 'g' or 'd'."""
        out = []

        def v(name, node):
            p = "/" + name
            if self.is_ds(node):
                val = node[()]
                if hasattr(val, "tobytes") and not isinstance(val, (bytes, str)):
                    val = val.tobytes()
                if isinstance(val, str):
                    val = val.encode()
                out.append((p, "d", val))
            else:
                out.append((p, "g", None))

        self.raw().visititems(v)
        out.sort(key=lambda e: e[0].split("/"))
        return out

    # ------------------------------------------------------------------ canonical dump
    def dump(self, entries):
        """Canonical dump: list of [path, content]; uuids stay literal here (renamed later)."""
        res = []
        js = self.env["jsonschema"]
        for p, k, val in entries:
            segs = p.split("/")[1:]
            if k == "g":
                res.append([p, "g"])
                continue
            if segs[0] == "metador_container":
                if len(segs) == 2 and segs[1] == "version":
                    c = "t:" + val.decode()
                elif len(segs) == 2 and segs[1] == "uuid":
                    c = "t:uuid" if _UUID.fullmatch(val.decode()) else "t:?" + val.decode()
                elif segs[1] == "links":
                    c = "l:" + val.decode()
                elif segs[1] == "schemas" and segs[-1] == "jsonschema.json":
                    try:
                        d = json.loads(val.decode())
                        m = [e for e, s in js.items() if s == d]
                        c = "j:" + (m[0] if len(m) == 1 and m[0] == segs[2] else ("?%s" % m))
                    except Exception as e:  # noqa: BLE001
                        c = "j:?" + type(e).__name__
                elif segs[1] == "schemas" and segs[-1] == "compat":
                    try:
                        c = "c:" + ",".join(ep(r["name"], r["version"]) + ("" if r["group"] == "schema" else "?") for r in json.loads(val.decode()))
                    except Exception as e:  # noqa: BLE001
                        c = "c:?" + type(e).__name__
                elif segs[1] == "packages":
                    try:
                        d = json.loads(val.decode())
                        c = "p:%s:%s" % (ep(d["name"], d["version"]), ",".join(sorted(ep(r["name"], r["version"]) for r in d["plugins"].get("schema", []))))
                    except Exception as e:  # noqa: BLE001
                        c = "p:?" + type(e).__name__
                else:
                    c = "?:" + val[:20].hex()
            elif any(s.startswith("metador_meta_") for s in segs):
                c = "o:" + self.by_bytes.get(val, "?" + core.digest(val.hex()))
            else:
                c = "d:" + val.decode(errors="replace")
            res.append([p, c])
        return res

    # ------------------------------------------------------------------ C06 oracle: Sync on the raw tree
    def check_sync(self, entries, step):
        H = lambda kind, **kw: self.hit("C06", kind, step=step, **kw)  # noqa: E731
        E = {p: (k, v) for p, k, v in entries}
        children = {}
        for p in E:
            par = p.rsplit("/", 1)[0] or "/"
            children.setdefault(par, []).append(p)
        # attached objects: <base>/metador_meta_<x>/<ep>=<uuid>
        objs = {}  # path -> (ep, uuid)
        for p, (k, v) in E.items():
            segs = p.split("/")[1:]
            if segs[0] == "metador_container":
                continue
            meta_idx = [i for i, s in enumerate(segs) if s.startswith("metador_meta_")]
            if not meta_idx:
                if any(_is_internal(s) for s in segs):
                    H("foreign-reserved-node", path=p)
                continue
            i = meta_idx[0]
            if i == len(segs) - 1:
                if k != "g":
                    H("meta-dir-not-a-group", path=p)
                elif not children.get(p):
                    H("empty-bookkeeping-group", path=p)
                # the annotated node must exist and be of the right kind
                base = "/" + "/".join(segs[:i])
                suffix = segs[i][len("metador_meta_"):]
                if suffix == "":
                    host, want = (base if base != "/" else "/"), "g"
                else:
                    host, want = (base.rstrip("/") + "/" + suffix), "d"
                hk = "g" if host == "/" else (E.get(host) or (None,))[0]
                if hk != want:
                    H("metadata-of-missing-node", path=p, host=host, found=hk)
                continue
            if i != len(segs) - 2 or k != "d" or "=" not in segs[-1]:
                H("malformed-metadata-node", path=p)
                continue
            e, u = segs[-1].split("=", 1)
            objs[p] = (e, u)
        # links: /metador_container/links/<ep>/<uuid> -> path
        links = {}
        lroot = "/metador_container/links"
        for sp in children.get(lroot, []):
            if E[sp][0] != "g":
                H("malformed-link-dir", path=sp)
                continue
            if not children.get(sp):
                H("empty-bookkeeping-group", path=sp)
            for lp in children.get(sp, []):
                if E[lp][0] != "d":
                    H("malformed-link", path=lp)
                    continue
                links[lp] = (sp.rsplit("/", 1)[1], lp.rsplit("/", 1)[1], E[lp][1].decode())
        for d in ("links", "schemas", "packages"):
            p = "/metador_container/" + d
            if p in E and not children.get(p):
                H("empty-bookkeeping-group", path=p)
        # every link resolves to an existing object with same uuid and schema
        seen_u = {}
        for lp, (e, u, tgt) in links.items():
            if tgt not in objs:
                H("dangling-link", link=lp, target=tgt)
            elif objs[tgt] != (e, u):
                H("link-target-mismatch", link=lp, target=tgt)
            if u in seen_u:
                H("duplicate-uuid-in-links", uuid=u)
            seen_u[u] = lp
        # every object has exactly one link
        by_target = {}
        for lp, (e, u, tgt) in links.items():
            by_target.setdefault(tgt, []).append(lp)
        ou = {}
        for op, (e, u) in objs.items():
            n = len(by_target.get(op, []))
            if n != 1:
                H("object-without-unique-link", object=op, links=n)
            if u in ou:
                H("duplicate-uuid", uuid=u, a=ou[u], b=op)
            ou[u] = op
        # schema + package records exactly for the schemas in use
        used = sorted(set(e for e, _ in objs.values()))
        recs = sorted(p.rsplit("/", 1)[1] for p in children.get("/metador_container/schemas", []))
        if used != recs:
            H("schema-records-not-exact", used=used, records=recs)
        for r in recs:
            have = sorted(c.rsplit("/", 1)[1] for c in children.get("/metador_container/schemas/" + r, []))
            if have != ["compat", "jsonschema.json"]:
                H("schema-record-incomplete", schema=r, have=have)
        ldirs = sorted(p.rsplit("/", 1)[1] for p in children.get(lroot, []))
        if ldirs != used:
            H("link-dirs-not-exact", used=used, dirs=ldirs)
        want_pk = set()
        for e in used:
            n, v = e.split("__")
            try:
                pm = self.schemas.provider(self.schemas.PluginRef(name=n, version=tuple(int(x) for x in v.split("."))))
                want_pk.add(ep(str(pm.name), pm.version))
            except KeyError:
                want_pk.add("?" + e)
        have_pk = set(p.rsplit("/", 1)[1] for p in children.get("/metador_container/packages", []))
        if want_pk != have_pk:
            H("package-records-not-exact", want=sorted(want_pk), have=sorted(have_pk))
        return objs, links

    # ------------------------------------------------------------------ cache observations (public TOC API)
    def toc_obs(self, mc):
        S = mc.metador.schemas
        sch = self.schemas
        o = {}
        o["schemas"] = sorted(ep(r.name, r.version) for r in S.keys())
        o["len"] = len(S)
        o["packages"] = sorted("%s:%s" % (ep(str(k[0]), k[1]), ",".join(sorted(ep(r.name, r.version) for r in v.plugins.get("schema", []))))
                               for k, v in S.packages.items())
        ch, pp, pr, vs = {}, {}, {}, {}
        names = set()
        for r in self.env["refs"]:
            e = ep(r.name, r.version)
            names.add(r.name)
            ch[e] = sorted(ep(c.name, c.version) for c in S.children(r.name, tuple(r.version)))
            try:
                pp[e] = [ep(c.name, c.version) for c in S.parent_path(r.name, tuple(r.version))]
            except KeyError:
                pp[e] = None
            try:
                pm = S.provider(r)
                pr[e] = ep(str(pm.name), pm.version)
            except KeyError:
                pr[e] = None
            o.setdefault("contains", {})[e] = r in S
        for n in sorted(names) + [UNKNOWN]:
            vs[n] = sorted(ep(c.name, c.version) for c in S.versions(n))
            ch[n] = sorted(ep(c.name, c.version) for c in S.children(n))
        o["children"], o["parent_path"], o["provider"], o["versions"] = ch, pp, pr, vs
        o["links"] = sorted([str(u), p] for u, p in mc.metador._links._toc_path.items() if p is not None)
        return o

    # ------------------------------------------------------------------ brute force view of metadata
    def attached(self, objs):
        """node path -> {schema name: (ep, uuid, objpath)} from the raw tree (no TOC used)."""
        res = {}
        for op, (e, u) in objs.items():
            segs = op.split("/")[1:]
            i = [j for j, s in enumerate(segs) if s.startswith("metador_meta_")][0]
            suffix = segs[i][len("metador_meta_"):]
            base = "/" + "/".join(segs[:i])
            host = base if suffix == "" else base.rstrip("/") + "/" + suffix
            res.setdefault(host, []).append((e, u, op))
        return res

    def user_nodes(self, entries):
        return ["/"] + [p for p, k, v in entries if not any(_is_internal(s) for s in p.split("/")[1:])]

    def pkg_of(self, e):
        n, v = self.ref_of(e)
        try:
            pm = self.schemas.provider(self.schemas.PluginRef(name=n, version=v))
            return ep(str(pm.name), pm.version)
        except KeyError:
            return "?" + e

    def ref_of(self, e):
        n, v = e.split("__")
        return n, tuple(int(x) for x in v.split("."))

    def spec_match(self, e, name, ver):
        """Declarative C07 spec: does a stored object of schema `e` answer a request (name, ver)?"""
        def compat(req, have):
            return req is None or (req[0] == have[0] and req[1] >= have[1])
        n, v = self.ref_of(e)
        if n == name and compat(ver, v):
            return True
        try:
            pp = self.schemas.parent_path(n, v)[:-1]
        except KeyError:
            return False
        return any(q.name == name and compat(ver, tuple(q.version)) for q in pp)

    # ------------------------------------------------------------------ observations for C07
    def run_obs(self, items, att, entries, step):
        H = lambda kind, **kw: self.hit("C07", kind, step=step, **kw)  # noqa: E731
        mc = self.mc
        nodes = self.user_nodes(entries)
        out = []
        for kind, n, name, ver in items:
            if n not in nodes:
                out.append(kind + "=nonode")
                continue
            if kind == "q":
                try:
                    got = sorted(x.name for x in mc.metador.query(name, ver, node=mc[n]))
                    res = ",".join(got)
                except Exception as e:  # noqa: BLE001
                    got, res = None, "err:" + type(e).__name__
                below = [x for x in nodes if x == n or n == "/" or x.startswith(n + "/")]
                want = sorted(x for x in below if any(self.spec_match(e, name, ver) for e, _, _ in att.get(x, [])))
                if got != want:
                    H("query-not-exact", start=n, schema=name, version=ver, got=got, want=want)
                if want:
                    self.tags.add("query-hit")
                    if len(want) > 1:
                        self.tags.add("query-multi")
                    if any(all(self.ref_of(e)[0] != name for e, _, _ in att.get(x, [])) for x in want):
                        self.tags.add("query-by-descendant")
                out.append("q=" + res)
            else:
                cands = [(e, u, op) for e, u, op in att.get(n, []) if self.spec_match(e, name, ver)]
                exact = [c for c in cands if self.ref_of(c[0])[0] == name]
                try:
                    obj = self.get_shaped(mc[n].meta, name, ver, (step + len(out)) % 5)
                    err = None
                except Exception as e:  # noqa: BLE001
                    obj, err = None, type(e).__name__
                if err:
                    res = "err:" + err
                    # refusing is legitimate only for auxiliary / not installed requests
                    ok_refuse = False
                    try:
                        cls = self.schemas._get_unsafe(name, ver)
                        ok_refuse = bool(cls.Plugin.auxiliary)
                    except KeyError:
                        ok_refuse = True
                    if not ok_refuse or not cands:
                        H("get-raised", node=n, schema=name, version=ver, error=err)
                elif obj is None:
                    res = "none"
                    if cands:
                        H("get-missed-object", node=n, schema=name, version=ver, present=[c[0] for c in cands])
                else:
                    cls = self.schemas._get_unsafe(name, ver)
                    if not isinstance(obj, cls):
                        H("get-wrong-class", node=n, schema=name, got=type(obj).__name__)
                    # which stored object is it a view of?
                    src = []
                    for e, u, op in (exact or cands):
                        b = bytes(self.raw()[op][()])
                        try:
                            if cls.parse_raw(b) == obj and json.loads(cls.parse_raw(b).json()) == json.loads(obj.json()):
                                src.append((e, u, op, b))
                        except Exception:  # noqa: BLE001
                            pass
                    if not src:
                        H("get-not-a-view-of-a-compatible-object", node=n, schema=name, version=ver, cands=[c[0] for c in cands])
                        res = "obj:?"
                    else:
                        res = "obj:" + "/".join(sorted(set("%s@%s" % (s[0], self.by_bytes.get(s[3], "?")) for s in src)))
                        if exact:
                            e, u, op, b = src[0]
                            idx = self.stored.get(u)
                            if idx is not None:
                                want = self.insts[idx][1]
                                if type(want) is cls and json.loads(obj.json()) != json.loads(want.json()):
                                    H("get-differs-from-stored", node=n, schema=name)
                                self.tags.add("get-exact")
                        else:
                            self.tags.add("get-parent-view")
                            if len(cands) > 1:
                                self.tags.add("get-parent-view-ambiguous")
                out.append("g=" + res)
        return out

    # ------------------------------------------------------------------ C20 oracle
    def check_selfdesc(self, mc, objs, step, where):
        import jsonschema

        H = lambda kind, **kw: self.hit("C20", kind, step=step, where=where, **kw)  # noqa: E731
        S = mc.metador.schemas
        sch = self.schemas
        for op, (e, u) in sorted(objs.items()):
            n, v = self.ref_of(e)
            ref = sch.PluginRef(name=n, version=v)
            try:
                js = S[ref]
            except Exception as ex:  # noqa: BLE001
                H("no-embedded-jsonschema", schema=e, error=type(ex).__name__)
                continue
            if ref not in S:
                H("schema-not-listed", schema=e)
            if js != self.env["jsonschema"].get(e):
                H("embedded-jsonschema-is-not-the-schema-of-the-object", schema=e)
            try:
                pp = [ep(r.name, r.version) for r in S.parent_path(n, v)]
            except Exception as ex:  # noqa: BLE001
                pp = "err:" + type(ex).__name__
            want = [ep(r.name, r.version) for r in sch.parent_path(n, v)]
            if pp != want:
                H("parent-chain-differs-from-plugin-system", schema=e, got=pp, want=want)
            try:
                pm = S.provider(ref)
                wm = sch.provider(ref)
                if json.loads(pm.json()) != json.loads(wm.json()):
                    H("provider-differs-from-plugin-system", schema=e)
                key = (str(pm.name), tuple(pm.version))
                if key not in S.packages or ref not in S.packages[key].plugins.get("schema", []):
                    H("provider-record-does-not-list-schema", schema=e)
            except Exception as ex:  # noqa: BLE001
                H("no-provider-record", schema=e, error=type(ex).__name__)
            if where == "live":
                b = bytes(self.raw()[op][()])
                try:
                    # (an object does not change while it is stored: each (schema text, object bytes) pair is evaluated once)
                    memo = self.__dict__.setdefault("_validated", {})
                    mk = (e, b) if js == self.env["jsonschema"].get(e) else None
                    if mk is not None and mk in memo:
                        errs = memo[mk]
                    else:
                        jsonschema.Draft7Validator.check_schema(js)
                        errs = [str(x.message)[:200] for x in jsonschema.Draft7Validator(js).iter_errors(json.loads(b))][:1]
                        if mk is not None:
                            memo[mk] = errs
                    if errs:
                        H("object-does-not-validate", schema=e, error=errs[0], inst=self.by_bytes.get(b, "?"))
                    else:
                        self.tags.add("validated:" + n)
                except Exception as ex:  # noqa: BLE001
                    H("embedded-schema-unusable", schema=e, error="%s: %s" % (type(ex).__name__, str(ex)[:200]))

    # ------------------------------------------------------------------ fresh container on the same data
    def compare_fresh(self, live_obs, step, reopened, objs=None):
        try:
            fresh = self.MC(self.raw())
        except Exception as e:  # noqa: BLE001
            self.hit("C06", "index-cannot-be-rebuilt-from-disk", step=step, error="%s: %s" % (type(e).__name__, str(e)[:200]))
            if objs:
                # C20: the description of the stored objects "is what a freshly opened container reports" - it reports nothing
                self.hit("C20", "freshly-opened-container-cannot-be-built", step=step, where="fresh", objects=len(objs),
                         error="%s: %s" % (type(e).__name__, str(e)[:200]))
            raise
        fo = self.toc_obs(fresh)
        if fo != live_obs:
            diff = [k for k in live_obs if live_obs[k] != fo.get(k)]
            d0 = diff[0]
            a, b = live_obs[d0], fo[d0]
            if isinstance(a, dict):
                kk = [k for k in a if a[k] != b.get(k)]
                a, b = {k: a[k] for k in kk[:3]}, {k: b.get(k) for k in kk[:3]}
            self.hit("C06", "live-index-differs-from-rebuilt", step=step, field=d0, live=a, rebuilt=b, after_reopen=reopened)
        return fresh

    # ------------------------------------------------------------------ held node wrappers
    def same_node(self, w, fresh, path):
        """Does the kept wrapper `w` still denote the node that `mc[path]` (= `fresh`) denotes?"""
        try:
            if w.name != path:
                return False
            if path == "/":
                return True
            a, b = w.__wrapped__, fresh.__wrapped__
            if type(a) is not type(b):
                return False
            # h5py: object identity; IH5 nodes are (path, creation index) views: wrappers of nodes
            # that were deleted / moved away are dropped by `drop_held`
            return bool(a == b) if self.case["driver"] == "h5" else True
        except Exception:  # noqa: BLE001
            return False

    def drop_held(self, path):
        """The node at `path` (and everything below) is gone: path-based (IH5) wrappers are dead."""
        if self.case["driver"] == "h5":
            return  # h5py handles follow the object; `same_node` decides
        for slot, w in list(self.held.items()):
            try:
                n = w.name
            except Exception:  # noqa: BLE001
                n = None
            if n is None or n == path or n.startswith(path.rstrip("/") + "/"):
                del self.held[slot]

    def acquire(self, path, route, fresh):
        """Another live wrapper of the node at `path`, reached by the navigation `route`."""
        mc = self.mc
        w = None
        try:
            if route == "get":
                w = mc.get(path)
            elif route == "self":
                w = mc if path == "/" else None
            elif route == "steps":
                w = mc["/"]
                for seg in path.split("/")[1:]:
                    if seg:
                        w = w[seg]
            elif route == "parent":
                if hasattr(fresh, "keys"):
                    ks = sorted(fresh.keys())
                    if ks:
                        w = fresh[ks[0]].parent
            elif route == "values" and path != "/":
                par = mc[path.rsplit("/", 1)[0] or "/"]
                w = next((v for v in par.values() if v.name == path), None)
            elif route == "visit" and path != "/":
                found = []
                mc.visititems(lambda _n, node: found.append(node) if node.name == path else None)
                w = found[0] if found else None
            elif route == "query":
                for name in sorted(fresh.meta.keys()):
                    w = next((x for x in mc.metador.query(name) if x.name == path), None)
                    if w is not None:
                        break
        except Exception:  # noqa: BLE001
            w = None
        if w is None or not self.same_node(w, fresh, path):
            w, route = fresh, "item"
        self.tags.add("wrapper-route:" + route)
        return w

    def wrapper(self, slot, path, route):
        """The wrapper kept in `slot` if it still denotes the node at `path`, else a new one."""
        try:
            fresh = self.mc[path]
        except Exception:  # noqa: BLE001
            return None
        w = self.held.get(slot)
        if w is not None and self.same_node(w, fresh, path):
            self.tags.add("held-wrapper-reused")
            if self.held_at.get(slot) != path:
                self.tags.add("held-wrapper-reused-after-move")
            return w
        w = self.acquire(path, route, fresh)
        self.held[slot] = w
        self.held_at[slot] = path
        return w

    # ------------------------------------------------------------------ C07 through every live handle of a node
    def meta_dir(self, path, node):
        """Raw path of the metadata directory of the user node at `path` (no TOC, no wrapper used)."""
        if path == "/":
            return "/metador_meta_"
        if self.is_ds(node):
            par, _, last = path.rpartition("/")
            return par + "/metador_meta_" + last
        return path + "/metador_meta_"

    def stored_at(self, path, node):
        """[(entry point name, dataset name)] of the objects in the raw metadata directory of a node."""
        d = self.meta_dir(path, node)
        raw = self.raw()
        if d not in raw:
            return d, []
        return d, sorted((x.split("=", 1)[0], x) for x in raw[d].keys() if "=" in x)

    def observe_meta(self, handles, path, node, names, step):
        """C07 as seen through metadata handles of ONE node (`handles` = [(label, thunk giving the
        MetadorMeta)]): keys() are the schema names of the objects stored in the raw metadata directory,
        `in` / get answer from what is stored NOW (compatible object exists <=> found; the stored object of
        the requested schema comes back equal to it). Oracle only (the model has one picture per node)."""
        H = lambda kind, **kw: self.hit("C07", kind, step=step, node=path, **kw)  # noqa: E731
        d, stored = self.stored_at(path, node)
        eps = [e for e, _ in stored]
        have = sorted(self.ref_of(e)[0] for e in eps)
        probes = set(have) | set(n for n in names if n in SCHEMA_NAMES)
        for n in list(probes):
            probes.update(PARENT_HINT.get(n, []))
        for label, thunk in handles:
            try:
                m = thunk()
                got = sorted(m.keys())
            except Exception as e:  # noqa: BLE001
                H("metadata-handle-broken", handle=label, error="%s: %s" % (type(e).__name__, str(e)[:120]))
                continue
            if got != have:
                H("keys-differ-from-stored-objects", handle=label, keys=got, stored=have)
            if len(m) != len(have):
                H("len-differs-from-stored-objects", handle=label, len=len(m), stored=have)
            for name in sorted(probes | set(got)):
                cands = [(e, x) for e, x in stored if self.spec_match(e, name, None)]
                try:
                    has = name in m
                except Exception as e:  # noqa: BLE001
                    has = "err:" + type(e).__name__
                if has != bool(cands):
                    H("contains-differs-from-stored-objects", handle=label, schema=name, got=has, stored=[c[0] for c in cands])
                try:
                    obj, err = m.get(name), None
                except Exception as e:  # noqa: BLE001
                    obj, err = None, type(e).__name__
                if err:
                    try:
                        ok_refuse = bool(self.schemas._get_unsafe(name, None).Plugin.auxiliary)
                    except KeyError:
                        ok_refuse = True
                    if not ok_refuse or not cands:
                        H("get-raised", handle=label, schema=name, version=None, error=err)
                    continue
                if obj is None:
                    if cands:
                        H("get-missed-object", handle=label, schema=name, version=None, present=[c[0] for c in cands])
                    continue
                if not cands:
                    H("get-returned-object-that-is-not-stored", handle=label, schema=name)
                    continue
                exact = [c for c in cands if self.ref_of(c[0])[0] == name]
                cls = self.schemas._get_unsafe(name, None)
                ok = False
                for e, x in (exact or cands):
                    try:
                        v = cls.parse_raw(bytes(self.raw()[d][x][()]))
                        if v == obj and json.loads(v.json()) == json.loads(obj.json()):
                            ok = True
                    except Exception:  # noqa: BLE001
                        pass
                if not ok:
                    H("get-differs-from-stored" if exact else "get-not-a-view-of-a-compatible-object", handle=label, schema=name,
                      cands=[c[0] for c in cands])
                self.tags.add("handle-get-checked")

    def live_handles(self, path, fresh):
        """(label, thunk) of every kept wrapper that denotes the node at `path` now, `.meta` taken afresh."""
        res = []
        for slot, w in sorted(self.held.items(), key=lambda kv: str(kv[0])):
            if self.same_node(w, fresh, path):
                res.append(("slot%s/%s" % (slot, self.held_at.get(slot)), (lambda w=w: w.meta)))
        if len(res) > 1:
            self.tags.add("several-live-wrappers-of-one-node-observed")
        return res

    # ------------------------------------------------------------------ operations
    def status(self, f, *a):
        try:
            f(*a)
            return "ok"
        except Exception as e:  # noqa: BLE001
            return "err:" + type(e).__name__

    def do_op(self, op, step):
        mc = self.mc
        k = op[0]
        if k == "grp":
            return _tree(self.status(lambda: mc.create_group(op[1])))
        if k == "ds":
            return _tree(self.status(lambda: mc.__setitem__(op[1], op[2])))
        if k == "del":
            st = _tree(self.status(lambda: mc.__delitem__(op[1])))
            if st == "ok":
                self.drop_held(op[1])
            return st
        if k == "copy":
            kw = {"without_meta": True} if op[3] else {}
            if len(op) > 4 and op[4]:  # node object as source: same behaviour as the path form
                return _tree(self.status(lambda: mc.copy(mc[op[1]], op[2], **kw)))
            return _tree(self.status(lambda: mc.copy(op[1], op[2], **kw)))
        if k == "move":
            st = _tree(self.status(lambda: mc.move(op[1], op[2])))
            if st == "ok":
                self.drop_held(op[1])
            return st
        if k == "hmeta":
            res = []
            used = set()
            for slot, route, s in op[2]:
                w = self.wrapper(slot, op[1], route)
                if w is None:
                    return "err"
                used.add(id(w))
                res.append(self.meta_sub(w.meta, w, s, step))  # `.meta` afresh at each use
                if self.pid == "C07":
                    # the node's metadata as every live wrapper of it reports it now (this also makes each
                    # wrapper look at `.meta` before another one writes next)
                    try:
                        fresh = mc[op[1]]
                    except Exception:  # noqa: BLE001
                        fresh = None
                    if fresh is not None:
                        self.observe_meta(self.live_handles(op[1], fresh) + [("lookup", lambda: fresh.meta)], op[1], fresh, [s[1]], step)
            if len(used) > 1:
                self.tags.add("several-wrappers-of-one-node-in-one-op")
            return "+".join(res)
        if k in ("mset", "mdel", "mseq"):
            try:
                node = mc[op[1]]
            except Exception:  # noqa: BLE001
                return "err"
            m = node.meta
            subs = op[2] if k == "mseq" else [["set"] + op[2:]] if k == "mset" else [["del", op[2]]]
            res = []
            for s in subs:
                res.append(self.meta_sub(m, node, s, step))
                if self.pid == "C07":
                    # a kept handle sees its own writes; kept wrappers of the node see them too
                    self.observe_meta([("kept", lambda: m)] + self.live_handles(op[1], node), op[1], node, [s[1]], step)
            return "+".join(res)
        if k == "sattr":  # C09: attribute of a user node through the container wrapper
            from .h5util import dec_val

            return _tree(self.status(lambda: mc[op[1]].attrs.__setitem__(op[2], dec_val(op[3]))))
        if k == "dattr":
            return _tree(self.status(lambda: mc[op[1]].attrs.__delitem__(op[2])))
        if k == "reopen":
            self.held.clear()
            self.mc.close()
            self.mc = self.MC(self.drv(self.path, "r+"))
            return "ok"
        if k == "patch":
            if self.case["driver"] in ("ih5", "mf"):
                self.raw().commit_patch()
                self.raw().create_patch()
            else:
                self.raw().flush()
            return "ok"
        raise ValueError("unknown op %r" % (op,))

    def meta_sub(self, m, node, s, step):
        if s[0] == "set":
            i = s[3]
            name, verT = set_target(s)
            key = self.set_key(s)
            val = self.set_val(s, key)
            self.tags.add("set-shape:%s/%s" % set_shapes(s))
            before = set(self.raw().get(m._base_dir, {}).keys()) if m._base_dir in self.raw() else set()
            try:
                m[key] = val
                st = "ok"
            except Exception as e:  # noqa: BLE001
                st = "err:" + type(e).__name__
            after = set(self.raw().get(m._base_dir, {}).keys()) if m._base_dir in self.raw() else set()
            new = after - before
            if st == "ok":
                for x in new:
                    self.stored[x.split("=", 1)[1]] = i
                # C07: refused kinds must not be accepted
                try:
                    cls = self.schemas._get_unsafe(name, verT)
                    if cls.Plugin.auxiliary:
                        self.hit("C07", "auxiliary-accepted", step=step, schema=name)
                except KeyError:
                    self.hit("C07", "unknown-accepted", step=step, schema=name)
                if i < 0:
                    self.hit("C07", "invalid-instance-accepted", step=step, schema=name)
                if any(x.split("__")[0] == name for x in before):
                    self.hit("C07", "second-object-of-same-schema-accepted", step=step, schema=name, node=node.name)
                self.tags.add("mset-ok")
            else:
                if new:
                    self.hit("C07", "refused-set-left-object", step=step, schema=name, status=st)
                self.tags.add("mset-" + st)
                self.tags.add("mset-%s:%s/%s" % ((st,) + set_shapes(s)))
            return st
        if s[0] == "del":
            try:
                del m[s[1]]
                self.tags.add("mdel-ok")
                return "ok"
            except Exception as e:  # noqa: BLE001
                self.tags.add("mdel-err")
                return "err:" + type(e).__name__
        if s[0] == "get":
            name, ver = s[1], s[2]
            try:
                o = self.get_shaped(m, name, tuple(ver) if ver else None, s[3] if len(s) > 3 else 0)
            except Exception as e:  # noqa: BLE001
                return "err:" + type(e).__name__
            if o is None and not ver and m._base_dir in self.raw():
                have = [x for x in self.raw()[m._base_dir].keys() if x.split("__")[0] == name]
                if have:
                    self.hit("C07", "get-missed-object", step=step, node=node.name, schema=name, version=None, present=have, handle="kept")
            return "none" if o is None else "some"
        raise ValueError(s)

    # ------------------------------------------------------------------ main loop
    def run(self):
        case = self.case
        ops = case["ops"]
        obs_items = case.get("obs") or [[] for _ in ops]
        out = []
        prev_att, prev_kind, prev_recs = {}, {"/": "g"}, (set(), set())
        was_at = {}  # path of annotated content -> paths it lived at earlier in this session
        for step, op in enumerate(ops):
            st = self.do_op(op, step)
            entries = self.raw_entries()
            objs, links = self.check_sync(entries, step)
            # non-triviality tags (what the operation met in the state before it)
            if op[0] in ("copy", "move", "del") and st == "ok":
                src = op[1]
                sub = [h for h in prev_att if h == src or src == "/" or h.startswith(src.rstrip("/") + "/")]
                kind = prev_kind.get(src)
                if sub:
                    t = op[0] + ("-ds" if kind == "d" else "-group") + "-with-metadata"
                    if op[0] == "copy" and op[3]:
                        t += "-without_meta"
                    if op[0] != "move" and kind == "g" and any(h != src for h in sub):
                        t += "-nested"
                    self.tags.add(t)
                if op[0] == "copy" and op[2].startswith(src.rstrip("/") + "/"):
                    self.tags.add("copy-into-own-subtree")
                if sub and op[0] != "del" and op[2] in was_at.get(src, ()) and not (op[0] == "copy" and op[3]):
                    self.tags.add(op[0] + "-with-metadata-onto-earlier-path-of-source")
                if op[0] == "move":
                    was_at[op[2]] = was_at.pop(src, set()) | ({src} if sub else set())
            if op[0] == "reopen":
                was_at.clear()
            if op[0] in ("copy", "move") and st != "ok":
                src = op[1]
                if any(h == src or h.startswith(src.rstrip("/") + "/") for h in prev_att):
                    self.tags.add(op[0] + "-refused" + ("-ds" if prev_kind.get(src) == "d" else "-group") + "-with-metadata"
                                  + ("-target-exists" if op[2] in prev_kind else ""))
            recs = (set(p for p, k, v in entries if p.startswith("/metador_container/schemas/") and p.count("/") == 3),
                    set(p for p, k, v in entries if p.startswith("/metador_container/packages/")))
            if prev_recs[0] - recs[0]:
                self.tags.add("schema-record-removed")
                if any(o[0] == "reopen" for o in ops[:step]):
                    # the reference counts that decided this were rebuilt from disk, not counted up
                    self.tags.add("schema-record-removed-after-reopen")
                    pk = lambda q: self.pkg_of(q.rsplit("/", 1)[1])  # noqa: E731
                    if set(map(pk, prev_recs[0] - recs[0])) & set(map(pk, recs[0])):
                        self.tags.add("schema-record-removed-after-reopen-package-still-in-use")
            if prev_recs[1] - recs[1]:
                self.tags.add("package-record-removed")
            if op[0] == "reopen" and objs:
                self.tags.add("reopen-with-metadata")
            if op[0] == "patch" and objs and self.case["driver"] == "ih5":
                self.tags.add("patch-boundary-with-metadata")
            prev_recs = recs
            prev_kind = {p: k for p, k, v in entries}
            prev_kind["/"] = "g"
            # one object per schema name per node (C07)
            att = self.attached(objs)
            prev_att = att
            for host, l in att.items():
                names = [self.ref_of(e)[0] for e, _, _ in l]
                if len(names) != len(set(names)):
                    self.hit("C07", "two-objects-of-one-schema-at-node", step=step, node=host, objects=sorted(e for e, _, _ in l))
            live = self.toc_obs(self.mc)
            # (oracle-only parts are evaluated for the property the run is for: `impl_for` drops the hits of the others anyway)
            if self.pid in (None, "C20"):
                self.check_selfdesc(self.mc, objs, step, "live")  # before the rebuild: a container that cannot be opened afresh ends the run
            if self.pid != "C07":
                fresh = self.compare_fresh(live, step, op[0] == "reopen", objs)
                if self.pid in (None, "C20"):
                    self.check_selfdesc(fresh, objs, step, "fresh")
            items = [(k, n, name, tuple(ver) if ver else None) for k, n, name, ver in obs_items[step]]
            obs = self.run_obs(items, att, entries, step)
            out.append(st)
            out.append(json.dumps(self.dump(entries), separators=(",", ":")))
            out.append(json.dumps(live, sort_keys=True, separators=(",", ":")))
            out.append("|".join(obs))
            self.tags.add("op:" + op[0] + (":" + ("ok" if st.startswith("ok") else "err") if op[0] not in ("reopen", "patch") else ""))
            if objs:
                self.tags.add("has-metadata")
        return out


def _tree(st):
    # tree-level failures: only ok/err is compared (exception classes differ between drivers)
    return "ok" if st == "ok" else "err"


def impl(case, pid=None):
    tmp = tempfile.mkdtemp(prefix="vt-ctr-")
    r = None
    try:
        r = _Run(case, tmp)
        r.pid = pid
        try:
            out = r.run()
        except Exception as e:  # noqa: BLE001
            if not [d for d in r.oracle if pid is None or d.get("prop") == pid]:
                raise
            # the property was already violated (oracle hits recorded) when the real code or an
            # observation broke down: report the violations, not the crash that followed from them
            r.hit(pid or "C06", "breakdown-after-violation", error="%s: %s" % (type(e).__name__, str(e)[:200]))
            return dict(out=[], oracle=r.oracle, tags=sorted(r.tags))
        return dict(out=out, oracle=r.oracle, tags=sorted(r.tags))
    finally:
        try:
            if r is not None:
                r.mc.close()
        except Exception:  # noqa: BLE001
            pass
        shutil.rmtree(tmp, ignore_errors=True)


# --------------------------------------------------------------------------- probes
def all_probes():
    """(name, version|None) query/get arguments: every schema name, no version / stored version /
    older and newer minor / other major, plus an unknown name."""
    res = []
    seen = set()
    fam = [(n, v) for n, v, *_ in VT_FAMILY] + [(n, (0, 1, 0)) for n in INSTALLED]
    for n, v in fam:
        for q in (None, v, (v[0], v[1] + 1, 0), (v[0], max(0, v[1] - 1), 0) if v[1] else (v[0], 0, 5), (v[0] + 1, 0, 0)):
            if (n, q) not in seen:
                seen.add((n, q))
                res.append((n, q))
    res.append((UNKNOWN, None))
    res.append((UNKNOWN, (1, 0, 0)))
    return res


# --------------------------------------------------------------------------- generator
NAMES = ["a", "b", "c", "d"]
SCHEMA_NAMES = sorted(set(n for n, *_ in VT_FAMILY)) + INSTALLED
ATTACHABLE = [n for n in SCHEMA_NAMES if n != "vt.xx"]
FAM_VERS = {}
for _n, _v, *_r in VT_FAMILY:
    FAM_VERS.setdefault(_n, []).append(_v)
for _n in INSTALLED:
    FAM_VERS[_n] = [(0, 1, 0)]


class Shadow:
    """Approximate user-level picture of the container, only used to bias the generator
    towards valid operations (it never decides a verdict)."""

    def __init__(self, names=None):
        self.kind = {"/": "g"}  # path -> 'g' | 'd'
        self.meta = {"/": set()}  # path -> set of schema names
        self.names = list(names or NAMES)  # segment alphabet (small alphabets make paths get reused)
        self.vacated = []  # (path that was freed by a move / delete, where its content went | None)

    def nodes(self, kind=None):
        return sorted(p for p, k in self.kind.items() if kind is None or k == kind)

    def under(self, p):
        return [q for q in self.kind if q == p or (p == "/" and q != "/") or q.startswith(p.rstrip("/") + "/")]

    def fresh_path(self, rng, depth_bias=0.5):
        groups = self.nodes("g")
        for _ in range(20):
            par = rng.choice(groups)
            p = par.rstrip("/") + "/" + rng.choice(self.names)
            if rng.random() < 0.2:
                p += "/" + rng.choice(self.names)  # intermediate group created on the fly
            if p not in self.kind and p.count("/") <= 4:
                return p
        return "/" + rng.choice(self.names)

    def free_again(self):
        """Paths that were in use earlier in the history and are free now (their parent still
        exists), with the place their former content lives at (if it was moved and still exists)."""
        res = []
        for old, new in self.vacated:
            par = old.rsplit("/", 1)[0] or "/"
            if old not in self.kind and self.kind.get(par) == "g":
                res.append((old, new if new in self.kind else None))
        return res

    def add(self, p, k):
        segs = p.split("/")[1:]
        for i in range(1, len(segs)):
            q = "/" + "/".join(segs[:i])
            if q not in self.kind:
                self.kind[q] = "g"
                self.meta[q] = set()
        self.kind[p] = k
        self.meta[p] = set()

    def remove(self, p):
        for q in self.under(p):
            self.kind.pop(q, None)
            self.meta.pop(q, None)

    def clone(self, src, dst, with_meta, move=False):
        items = [(q, self.kind[q], set(self.meta[q])) for q in self.under(src)]
        if move:
            self.remove(src)
        for q, k, m in items:
            n = dst + q[len(src):]
            self.add(n, k)
            self.meta[n] = m if with_meta else set()


PARENT_HINT = {"core.bib": ["core.dir"], "core.imagefile": ["core.file"]}
for _n, _v, _p, *_r in VT_FAMILY:
    if _p:
        PARENT_HINT.setdefault(_n, [])
        for _q in [_p[0]] + PARENT_HINT.get(_p[0], []):
            if _q not in PARENT_HINT[_n]:
                PARENT_HINT[_n].append(_q)


PKG_OF = {n: "metador-core" for n in INSTALLED}
for _n, _v, _p, _pkg, _a in VT_FAMILY:
    PKG_OF[_n] = _pkg
DESCENDANTS = {}
for _n, _ps in PARENT_HINT.items():
    for _q in _ps:
        DESCENDANTS.setdefault(_q, []).append(_n)
VT_NAMES = sorted(set(n for n, *_ in VT_FAMILY))


def gen_obs(rng, sh, n, full=False):
    """Observation items [kind, node, name, ver] for the current (approximate) state."""
    nodes = sh.nodes()
    probes = all_probes()
    present = set()
    for p in nodes:
        for m in sh.meta[p]:
            present.add(m)
            present.update(PARENT_HINT.get(m, []))
    rel = [pr for pr in probes if pr[0] in present] or probes
    items = []
    if full:
        for p in nodes:
            for name, ver in probes:
                items.append(["q", p, name, list(ver) if ver else None])
                items.append(["g", p, name, list(ver) if ver else None])
        return items
    for _ in range(n):
        name, ver = rng.choice(rel if rng.random() < 0.8 else probes)
        if rng.random() < 0.6:
            withm = [p for p in nodes if sh.meta[p]]
            anc = set()
            for p in withm:
                segs = p.split("/")[1:]
                for i in range(len(segs) + 1):
                    anc.add("/" + "/".join(segs[:i]))
            p = rng.choice(sorted(anc) or nodes)
        else:
            p = rng.choice(nodes)
        items.append([rng.choice("qqg"), p, name, list(ver) if ver else None])
    return items


ATTR_KEYS = ["k", "m", "unit"]
ATTR_VALS = ["i:0", "i:1", "i:7", "s:6162", "s:", "a:1,2,3:3", "b:00ff00", "i:255"]


def gen_attr_op(rng, sh, nodes):
    """C09: set / delete an attribute of a user node (mostly existing nodes, incl. the root)."""
    known = getattr(sh, "attrs", None)
    if known is None:
        known = sh.attrs = {}
    have = sorted((p, k) for p, ks in known.items() if p in sh.kind for k in ks)
    r = rng.random()
    if have and r < 0.3:
        p, k = rng.choice(have)
        known[p].discard(k)
        return ["dattr", p, k]
    if r < 0.36:
        return ["dattr", rng.choice(nodes), rng.choice(ATTR_KEYS)]  # mostly absent -> refused
    if have and r < 0.5:
        p, k = rng.choice(have)  # overwrite
        return ["sattr", p, k, rng.choice(ATTR_VALS)]
    p = rng.choice(nodes) if rng.random() < 0.93 else sh.fresh_path(rng)  # missing node -> refused
    k = rng.choice(ATTR_KEYS)
    if p in sh.kind:
        known.setdefault(p, set()).add(k)
    return ["sattr", p, k, rng.choice(ATTR_VALS)]


def gen_history(rng, n_ops, driver, insts, held=True, nq=5, nfinal=24, obs=None, sh=None, boundaries=True, attr_p=0.0, rich=False):
    """Returns ops; appends used instances to `insts` and per-step observation items to `obs`.
    C09 passes its own `sh`, `boundaries=False` (no reopen/patch ops: they are inserted per
    variant there) and `attr_p` > 0 (attribute ops on user nodes)."""
    sh = sh if sh is not None else Shadow()
    ops = []
    obs = obs if obs is not None else []

    # rich: the fields of the instances are filled from the boundary pools of their types (`field_pool`); the choices come
    # from a private generator seeded with the current state of `rng`, so the stream of `rng` itself is untouched
    vr = None
    if rich:
        import random

        vr = random.Random(int(core.digest(repr(rng.getstate())), 16))

    def inst_for(name, ver):
        k = len(insts)
        insts.append([name, list(ver) if ver else None, make_instance_dict(name, k, vr)])
        return k

    def pick_ver(name):
        r = rng.random()
        vs = FAM_VERS.get(name, [(1, 0, 0)])
        if r < 0.45:
            return None
        v = rng.choice(vs)
        if r < 0.85:
            return v
        if r < 0.93:
            return (v[0], 0, 0)  # older minor: resolves to the newest compatible
        return (v[0], v[1] + 1, 0) if r < 0.97 else (v[0] + 3, 0, 0)  # not installed -> KeyError

    def value_schema(name):
        """Schema of the VALUE that is passed for schema `name`: mostly `name` itself, else a
        descendant schema (instance of a subclass) or - within vt.*, where every instance converts -
        any other schema of the family (ancestor, sibling, other release, auxiliary)."""
        r = rng.random()
        if name == UNKNOWN:
            return rng.choice(ATTACHABLE)
        if r < 0.65:
            return name
        if DESCENDANTS.get(name) and r < 0.85:
            return rng.choice(DESCENDANTS[name])
        if name.startswith("vt."):
            return rng.choice(VT_NAMES)
        return name

    def shaped(sub, p_plain=0.4):
        """Random call shape `meta[name | (name, ver) | SchemaClass | PluginRef] = instance | dict |
        JSON str | bytes | instance of the key class` (all mean the same to the model)."""
        if rng.random() < p_plain:
            return sub
        name, ver = sub[1], sub[2]
        ksh = rng.choice(KEY_SHAPES + ("class", "class"))
        if ksh in ("class", "ref") and not ver:
            ver = list(rng.choice(FAM_VERS.get(name, [(1, 0, 0)])))
        vsh = rng.choice(VAL_SHAPES + ("keyinst",))
        if vsh == "keyinst" and ksh != "class":
            vsh = "inst"
        return [sub[0], name, ver, sub[3], ksh, vsh]

    def gen_set(p):
        r = rng.random()
        have = sh.meta.get(p, set())
        if r < 0.68:
            cand = [n for n in ATTACHABLE if n not in have] or ATTACHABLE
            q = rng.random()
            used = set(n for ms in sh.meta.values() for n in ms)
            if q < 0.25:
                # another schema of a package that is in use already (shared package record)
                pk = set(PKG_OF.get(n) for n in used)
                cand = [n for n in cand if n not in used and PKG_OF.get(n) in pk] or cand
            elif q < 0.5:
                # an ancestor / descendant schema of one that is in use (shared parent/children maps)
                rel = set(x for n in used for x in PARENT_HINT.get(n, []) + DESCENDANTS.get(n, []))
                cand = [n for n in cand if n in rel] or cand
            name = rng.choice(cand)
            ver = pick_ver(name)
            vs = value_schema(name)
            i = inst_for(vs, (ver if ver in FAM_VERS.get(name, []) else None) if vs == name else None)
            return shaped(["set", name, list(ver) if ver else None, i]), name
        if r < 0.76 and have:
            name = rng.choice(sorted(have))  # second object of same schema -> ValueError
            return shaped(["set", name, None, inst_for(value_schema(name), None)]), None
        if r < 0.86:  # auxiliary -> TypeError, whatever the call shape
            ver = [1, 0, 0] if rng.random() < 0.5 else None
            return shaped(["set", "vt.xx", ver, inst_for(rng.choice(["vt.xx", "vt.xx", "vt.yy", rng.choice(VT_NAMES)]), None)], 0.15), None
        if r < 0.93:  # unknown -> KeyError, whatever the call shape
            ver = [1, 0, 0] if rng.random() < 0.5 else None
            return shaped(["set", UNKNOWN, ver, inst_for(value_schema(UNKNOWN), None)], 0.15), None
        name = rng.choice([n for n in ATTACHABLE if n not in have] or ATTACHABLE)
        return shaped(["set", name, None, -1]), None  # invalid instance -> ValidationError

    def pick_back(annotated_only=False):
        """(src, dst) with dst a path that was freed earlier in this history; src mostly the
        content that used to live there (move a -> b ... copy/move b -> a), else any node."""
        free = sh.free_again()
        if not free:
            return None
        ann = [(o, n) for o, n in free if n and any(sh.meta.get(q) for q in sh.under(n))]
        if annotated_only:
            if not ann:
                return None
            old, new = rng.choice(ann)
            return None if old == new or old.startswith(new + "/") else (new, old)
        if rng.random() >= (0.6 if ann else 0.25):
            return None
        old, new = rng.choice(ann) if ann and rng.random() < 0.8 else rng.choice(free)
        if new is None or rng.random() < 0.25:
            cand = [p for p in sh.kind if p != "/" and not old.startswith(p + "/")]
            if not cand:
                return None
            new = rng.choice(sorted(cand))
        if old == new or old.startswith(new + "/"):
            return None
        return new, old

    def pick_src(nonroot):
        withm = [p for p in nonroot if sh.meta.get(p)]
        dsm = [p for p in withm if sh.kind[p] == "d"]
        r = rng.random()
        if dsm and r < 0.3:
            return rng.choice(dsm)
        if withm and r < 0.55:
            return rng.choice(withm)
        return rng.choice(nonroot)

    for _ in range(n_ops):
        while len(obs) < len(ops):
            obs.append(gen_obs(rng, sh, nq))
        r = rng.random()
        nodes = sh.nodes()
        nonroot = [p for p in nodes if p != "/"]
        motif = rng.random() if boundaries else 1.0
        if boundaries and ops and not any(o[0] in ("reopen", "patch") for o in ops[-4:]) and rng.random() < 0.1:
            # boundaries matter most when the bookkeeping is shared: several used schemas of one package
            used = sorted(set(n for ms in sh.meta.values() for n in ms))
            if len(used) > len(set(PKG_OF.get(n) for n in used)):
                ops.append(["reopen"] if rng.random() < 0.75 else ["patch"])
                continue
        if boundaries and ops and any(o[0] in ("reopen", "patch") for o in ops[-2:]) and rng.random() < 0.55:
            # right after a boundary the index was rebuilt from disk: take metadata away again
            # (removal is what consults the reference counts and the parent/child maps)
            pairs = sorted((p, n) for p in nodes for n in sh.meta.get(p, ()))
            if pairs:
                cnt = {}
                for _p, n in pairs:
                    cnt[n] = cnt.get(n, 0) + 1
                last = [x for x in pairs if cnt[x[1]] == 1]  # removal makes the schema unused
                p, name = rng.choice(last if last and rng.random() < 0.7 else pairs)
                if p != "/" and rng.random() < 0.3:
                    ops.append(["del", p])
                    sh.remove(p)
                    sh.vacated.append((p, None))
                else:
                    sh.meta[p].discard(name)
                    ops.append(["mdel", p, name])
                continue
        if 0.25 <= motif < 0.32:
            # refused operation on annotated content (destination name is taken): nothing may change
            withm = [p for p in nonroot if sh.meta.get(p)]
            dsm = [p for p in withm if sh.kind[p] == "d"]
            if withm:
                src = rng.choice(dsm if dsm and rng.random() < 0.6 else withm)
                taken = [p for p in nonroot if p != src and not p.startswith(src + "/")]
                if taken:
                    dst = rng.choice(taken)
                    ops.append(["move", src, dst] if rng.random() < 0.6 else ["copy", src, dst, rng.random() < 0.3, rng.random() < 0.2])
                    continue
        if motif < 0.25:
            # annotated content was moved away and its old path is free: put it (or a copy) back
            back = pick_back(annotated_only=True)
            if back:
                src, dst = back
                if rng.random() < 0.5:
                    wm = rng.random() < 0.15
                    ops.append(["copy", src, dst, wm, rng.random() < 0.2])
                    sh.clone(src, dst, not wm)
                else:
                    ops.append(["move", src, dst])
                    sh.clone(src, dst, True, move=True)
                    sh.vacated.append((src, dst))
                continue
        if attr_p and len(nodes) >= 2 and rng.random() < attr_p:
            ops.append(gen_attr_op(rng, sh, nodes))
            continue
        if r < 0.10 or len(nodes) < 2:
            p = sh.fresh_path(rng) if rng.random() < 0.9 else rng.choice(nodes)
            ops.append(["grp", p])
            if p not in sh.kind:
                sh.add(p, "g")
        elif r < 0.22:
            p = sh.fresh_path(rng) if rng.random() < 0.9 else rng.choice(nodes)
            ops.append(["ds", p, "t%d" % len(ops)])
            if p not in sh.kind:
                sh.add(p, "d")
        elif r < 0.50:
            dss = sh.nodes("d")
            p = (rng.choice(dss) if dss and rng.random() < 0.45 else rng.choice(nodes)) if rng.random() < 0.95 else sh.fresh_path(rng)
            sub, name = gen_set(p)
            ops.append(["mset", p] + sub[1:])
            if name and p in sh.meta:
                sh.meta[p].add(name)
        elif r < 0.58:
            withm = [p for p in nodes if sh.meta[p]]
            if withm and rng.random() < 0.85:
                p = rng.choice(withm)
                name = rng.choice(sorted(sh.meta[p]))
                if rng.random() < 0.4:
                    # an object of a schema whose descendants stay in use (queries by it must go on working)
                    used = set(n for ms in sh.meta.values() for n in ms)
                    par = sorted((x, n) for x in withm for n in sh.meta[x] if any(d in used for d in DESCENDANTS.get(n, [])))
                    if par:
                        p, name = rng.choice(par)
                sh.meta[p].discard(name)
            else:
                p = rng.choice(nodes)
                name = rng.choice(SCHEMA_NAMES + [UNKNOWN])
                sh.meta[p].discard(name)
            ops.append(["mdel", p, name])
        elif r < 0.61 and held:
            p = rng.choice(nodes)
            subs = []
            have = sh.meta.get(p, set())
            if rng.random() < 0.5:
                # a kept `node.meta` handle must see its own writes
                free = [n for n in ATTACHABLE if n not in have]
                if free:
                    name = rng.choice(free)
                    subs.append(["set", name, None, inst_for(name, None)])
                    have.add(name)
                    q = rng.random()
                    if q < 0.4:
                        subs.append(["set", name, None, inst_for(name, None)])
                    elif q < 0.7:
                        subs.append(["get", name, None] + ([rng.choice([1, 4])] if rng.random() < 0.4 else []))
                    else:
                        subs.append(["del", name])
                        have.discard(name)
            for _k in range(rng.randrange(0 if subs else 2, 3)):
                q = rng.random()
                if q < 0.5:
                    sub, name = gen_set(p)
                    subs.append(sub)
                    if name:
                        have.add(name)
                elif q < 0.8 and have:
                    name = rng.choice(sorted(have))
                    subs.append(["del", name])
                    have.discard(name)
                else:
                    name = rng.choice(SCHEMA_NAMES)
                    subs.append(["get", name, None] + ([rng.choice([1, 4])] if rng.random() < 0.4 else []))
            ops.append(["mseq", p, subs])
        elif r < 0.69:
            q = rng.random()
            if q < 0.03:
                p = "/"  # destroys all metadata, then the raw delete of the root is refused
                for x in sh.meta:
                    sh.meta[x] = set()
            elif nonroot and q < 0.9:
                p = rng.choice(nonroot)
                sh.remove(p)
                sh.vacated.append((p, None))
            else:
                p = sh.fresh_path(rng)
            ops.append(["del", p])
        elif r < 0.80:
            if not nonroot:
                continue
            src = pick_src(nonroot) if rng.random() < 0.95 else sh.fresh_path(rng)
            q = rng.random()
            back = pick_back() if q < 0.8 else None
            if back:
                src, dst = back  # onto a path that was in use before (possibly by this very content)
            elif q < 0.8:
                dst = sh.fresh_path(rng)
            elif q < 0.95:
                dst = rng.choice(nonroot)  # existing target -> refused
            else:
                dst = src.rstrip("/") + "/" + rng.choice(sh.names)  # into own subtree (allowed for copy)
            wm = rng.random() < 0.35
            if wm and not back and rng.random() < 0.6:
                # without_meta matters most for groups with annotated nodes below them
                deep = [p for p in nonroot if sh.kind[p] == "g" and any(q != p and sh.meta.get(q) for q in sh.under(p))]
                if deep:
                    src = rng.choice(deep)
                    if dst == src or dst in sh.kind:
                        dst = sh.fresh_path(rng)
            ops.append(["copy", src, dst, wm, rng.random() < 0.2])
            if src in sh.kind and dst not in sh.kind and not (sh.kind[src] == "g" and dst.startswith(src + "/") and False):
                par = dst.rsplit("/", 1)[0] or "/"
                if sh.kind.get(par, "g") == "g":
                    sh.clone(src, dst, not wm)
        elif r < 0.89:
            if not nonroot:
                continue
            src = pick_src(nonroot) if rng.random() < 0.95 else sh.fresh_path(rng)
            if rng.random() < 0.2:
                dst = rng.choice(nonroot)  # name already taken -> refused (state must stay as it was)
            else:
                dst = sh.fresh_path(rng)
                back = pick_back()
                if back:
                    src, dst = back
            if dst == src or dst.startswith(src + "/"):
                continue  # never into own subtree (excluded by the property)
            ops.append(["move", src, dst])
            if src in sh.kind and dst not in sh.kind:
                par = dst.rsplit("/", 1)[0] or "/"
                if sh.kind.get(par, "g") == "g":
                    sh.clone(src, dst, True, move=True)
                    sh.vacated.append((src, dst))
        elif not boundaries:
            ops.append(gen_attr_op(rng, sh, nodes))
        elif r < 0.95:
            ops.append(["reopen"])
        else:
            ops.append(["patch"])
    while len(obs) < len(ops):
        obs.append(gen_obs(rng, sh, nq))
    if ops:
        obs[-1] = gen_obs(rng, sh, nfinal, full=nfinal < 0)
    return ops


WRAP_ROUTES = ("item", "get", "steps", "parent", "values", "visit", "query", "self")


def add_wrappers(case, p_conv=0.6, p_more=0.45, p_dup=0.0, rich=False):
    """Re-route metadata operations of a generated history through HELD NODE WRAPPERS (`hmeta`):
    several live wrappers of the same node, obtained by different navigation routes, kept across
    later operations (also move / copy / delete of the node) and used in turn, each taking `.meta`
    afresh. Some operations get further sub-operations through other wrappers of the node. Biased to
    the situations in which a wrapper that remembered anything about its node would be out of date:
    the slot whose picture of the node (what was attached when it was obtained + what it did itself)
    differs from the current one is preferred, and it preferably removes what it knows about.
    The history itself is not changed (no operation is added; `obs` stays aligned), the random
    choices come from a generator seeded with the history, so the stream of `rng` is untouched."""
    import random

    ops, insts = case["ops"], case["insts"]
    wr = random.Random(int(core.digest(ops), 16))
    sh = Shadow()
    slots = {}  # slot -> [believed path, route, names it believes attached, was moved since it was obtained]
    out = []

    vr = random.Random(int(core.digest(ops), 16) ^ 0x5EED) if rich else None  # instance contents: their own generator

    def new_inst(name):
        insts.append([name, None, make_instance_dict(name, len(insts), vr)])
        return len(insts) - 1

    def new_slot(p):
        routes = [r for r in WRAP_ROUTES if (r != "self" or p == "/") and (r not in ("values", "visit") or p != "/")]
        if p == "/" and wr.random() < 0.5:
            routes = ["self", "query"]
        k = len(slots)
        slots[k] = [p, wr.choice(routes), set(sh.meta.get(p, ())), False]
        return k

    def pick_slot(p, avoid=None, stale=False):
        here = sorted(k for k, v in slots.items() if v[0] == p and k != avoid)
        moved = [k for k in here if slots[k][3]]  # wrapper that was obtained before its node was moved here
        if moved and wr.random() < 0.6:
            return wr.choice(moved)
        if stale:
            old = [k for k in here if slots[k][2] != sh.meta.get(p, set())]
            if old and wr.random() < 0.75:
                return wr.choice(old)
        if here and (len(here) >= 3 or wr.random() < 0.7):
            return wr.choice(here)
        return new_slot(p)

    def did(k, sub, p):
        """Book-keeping after sub-operation `sub` through slot k (assumes it succeeds when plausible)."""
        have = sh.meta.setdefault(p, set())
        if sub[0] == "set" and sub[3] >= 0 and sub[1] in ATTACHABLE and sub[1] not in have:
            have.add(sub[1])
            slots[k][2].add(sub[1])
        elif sub[0] == "del":
            have.discard(sub[1])
            slots[k][2].discard(sub[1])

    for op in ops:
        k = op[0]
        if k in ("mset", "mdel", "mseq"):
            p = op[1]
            subs = op[2] if k == "mseq" else [["set"] + op[2:]] if k == "mset" else [["del", op[2]]]
            came = any(v[0] == p and v[3] for v in slots.values())
            if p not in sh.kind or (wr.random() >= (p_conv if k != "mseq" else 0.3) and not came):
                for s in subs:  # stays a lookup by path (one more, short-lived, wrapper)
                    if s[0] == "set" and s[3] >= 0 and s[1] in ATTACHABLE:
                        sh.meta.setdefault(p, set()).add(s[1])
                    elif s[0] == "del":
                        sh.meta.setdefault(p, set()).discard(s[1])
                out.append(op)
                continue
            seq = []
            last = None
            for s in subs:
                a = pick_slot(p, stale=(s[0] == "del"))
                seq.append([a, slots[a][1], s])
                did(a, s, p)
                last = a
            if wr.random() < p_more:
                for _ in range(wr.randrange(1, 4)):
                    have = sh.meta.setdefault(p, set())
                    if p_dup and have and wr.random() < p_dup:
                        # a wrapper attaches what is attached already - preferably one that was obtained before
                        # another wrapper attached it (refused: one object per schema, whoever asks)
                        a = pick_slot(p, avoid=last if wr.random() < 0.7 else None, stale=True)
                        other = sorted(have - slots[a][2])
                        name = wr.choice(other) if other and wr.random() < 0.85 else wr.choice(sorted(have))
                        s = ["set", name, None, new_inst(name)]
                        seq.append([a, slots[a][1], s])
                        did(a, s, p)
                        last = a
                        continue
                    q = wr.random()
                    if q < 0.5 and have:
                        a = pick_slot(p, avoid=last if wr.random() < 0.7 else None, stale=True)
                        mine = sorted(slots[a][2] & have)
                        name = wr.choice(mine) if mine and wr.random() < 0.85 else wr.choice(sorted(have))
                        s = ["del", name]
                    elif q < 0.88:
                        free = [n for n in ATTACHABLE if n not in have]
                        if not free:
                            continue
                        a = pick_slot(p, avoid=last if wr.random() < 0.7 else None)
                        name = wr.choice(free)
                        s = ["set", name, None, new_inst(name)]
                    else:
                        a = pick_slot(p, avoid=last if wr.random() < 0.7 else None)
                        s = ["get", wr.choice(SCHEMA_NAMES), None]
                    seq.append([a, slots[a][1], s])
                    did(a, s, p)
                    last = a
            out.append(["hmeta", p, seq])
            continue
        out.append(op)
        if k in ("grp", "ds"):
            if op[1] not in sh.kind and sh.kind.get(op[1].rsplit("/", 1)[0] or "/", "g") == "g":
                sh.add(op[1], "g" if k == "grp" else "d")
        elif k == "del":
            if op[1] == "/":
                for x in sh.meta:
                    sh.meta[x] = set()
            elif op[1] in sh.kind:
                for v in slots.values():
                    if v[0] and (v[0] == op[1] or v[0].startswith(op[1] + "/")):
                        v[0] = None
                sh.remove(op[1])
        elif k in ("copy", "move"):
            src, dst = op[1], op[2]
            par = dst.rsplit("/", 1)[0] or "/"
            if src in sh.kind and src != "/" and dst not in sh.kind and sh.kind.get(par, "g") == "g" and not (k == "move" and dst.startswith(src + "/")):
                sh.clone(src, dst, not (k == "copy" and op[3]), move=(k == "move"))
                if k == "move":  # an h5py handle follows its object
                    for v in slots.values():
                        if v[0] and (v[0] == src or v[0].startswith(src + "/")):
                            v[0], v[3] = dst + v[0][len(src):], True
        elif k == "reopen":
            for v in slots.values():
                v[0] = None
    return dict(case, ops=out, insts=insts)


def gen_case(rng, quick=True, held=True, driver=None, n_ops=None, wrappers=False, wrap_args=None, rich=True, names=None):
    insts = []
    driver = driver or rng.choice(["h5", "ih5"])
    n = n_ops or rng.randrange(6, 22 if quick else 40)
    obs = []
    sh = Shadow(names=(names or NAMES)[:rng.choice([2, 2, 3, 4])])  # few names: freed paths are taken again
    if quick:
        nq, nfinal = 4, (24 if driver == "h5" else 10)
    else:
        nq, nfinal = 8, (-1 if driver == "h5" and rng.random() < 0.3 else 40 if driver == "h5" else 16)
    ops = gen_history(rng, n, driver, insts, held=held, nq=nq, nfinal=nfinal, obs=obs, sh=sh, rich=rich)
    case = dict(driver=driver, ops=ops, insts=insts, obs=obs)
    return add_wrappers(case, rich=rich, **(wrap_args or {})) if wrappers else case


# --------------------------------------------------------------------------- model lines
_ENVINFO = {}


def get_envinfo():
    """Ask the real plugin system (in a worker process) for the schema environment."""
    if not _ENVINFO:
        from .. import pool

        r = pool.run_one("harness.props.ctr_common", "env_info", {}, timeout=300)
        if "ok" not in r:
            raise lean.InfraError("cannot read the schema environment: %r" % (r,))
        _ENVINFO.update(r["ok"])
    return _ENVINFO


def check_wfenv(info):
    """The six clauses of `WFEnv` (lean/MetadorModel/Proofs/ContainerToc.lean) on the environment
    that is passed to the model; `info` as returned by `env_info`. Returns violation strings."""
    bad = []
    ref = lambda n, v: (n, tuple(v))
    first = {}
    for s in info["schemas"]:  # `Env.info` = first entry with that reference
        first.setdefault(ref(s["name"], s["ver"]), s)
    plugins = {}
    for p in info["pkgs"]:  # `Env.pkgPlugins` = first entry with that package id
        plugins.setdefault((p["name"], tuple(p["ver"])), [ref(n, v) for n, v in p["plugins"]])
    ppath = lambda r: [ref(n, v) for n, v in first[r]["parents"]] if r in first else []
    for r, s in first.items():
        par = ppath(r)
        if not par or par[-1] != r:
            bad.append("last: parent path of %s does not end in it" % (r,))
        if len(set(par)) != len(par):
            bad.append("nodup: %s occurs twice in a parent path" % (r,))
        for i in range(1, len(par) + 1):
            if ppath(par[i - 1]) != par[:i]:
                bad.append("closed: prefix %d of the parent path of %s is not the parent path of %s" % (i, r, par[i - 1]))
        pk = (s["pkg"][0], tuple(s["pkg"][1]))
        if r not in plugins.get(pk, []):
            bad.append("prov: %s is not listed by its provider %s" % (r, pk))
    keys = list(plugins)
    for i, a in enumerate(keys):
        if len(set(plugins[a])) != len(plugins[a]):
            bad.append("plugins_nodup: %s lists a schema twice" % (a,))
        for b in keys[i + 1:]:
            both = set(plugins[a]) & set(plugins[b])
            if both:
                bad.append("disj: %s and %s both list %s" % (a, b, sorted(both)[:3]))
    return bad


def env_lines(info):
    L = []
    for s in info["schemas"]:
        L.append("env-schema %s %s %s %s %s %s" % (s["name"], vstr(s["ver"]), "T" if s["aux"] else "F", s["pkg"][0], vstr(s["pkg"][1]),
                                                   ",".join(ep(n, v) for n, v in s["parents"])))
    for p in info["pkgs"]:
        L.append("env-pkg %s %s %s" % (p["name"], vstr(p["ver"]), ",".join(ep(n, v) for n, v in p["plugins"]) or "-"))
    return L


def sub_line(s):
    if s[0] == "set":
        name, ver = set_target(s)  # every call shape means (name, version) to the model
        return "set:%s:%s:%s" % (name, vstr(ver), "!bad" if s[3] < 0 else "i%d" % s[3])
    if s[0] == "del":
        return "del:%s" % s[1]
    return "get:%s:%s" % (s[1], vstr(s[2]))


def op_line(op):
    k = op[0]
    if k == "grp":
        return "grp %s" % op[1]
    if k == "ds":
        return "ds %s %s" % (op[1], op[2])
    if k == "del":
        return "del %s" % op[1]
    if k == "copy":
        return "copy %s %s %s" % (op[1], op[2], "T" if op[3] else "F")
    if k == "move":
        return "move %s %s" % (op[1], op[2])
    if k == "mset":
        return "meta %s %s" % (op[1], sub_line(["set"] + op[2:]))
    if k == "mdel":
        return "meta %s %s" % (op[1], sub_line(["del", op[2]]))
    if k == "mseq":
        return "meta %s %s" % (op[1], ",".join(sub_line(s) for s in op[2]))
    if k in ("reopen", "patch"):
        return k
    raise ValueError(op)


def op_lines(op):
    """Model operations of one harness operation: `hmeta` takes `.meta` afresh from a wrapper for
    every sub-operation, i.e. one `meta` operation (one newly opened handle) per sub-operation."""
    if op[0] == "hmeta":
        return ["meta %s %s" % (op[1], sub_line(x[2])) for x in op[2]]
    return [op_line(op)]


def model_steps(case, mo):
    """Model output (after the env/init prefix) grouped per harness operation:
    [status, dump, caches, obs] with the statuses of the model operations of an `hmeta` joined
    the way the runner joins them ("err" = node missing, once)."""
    out = []
    i = 0
    for op in case["ops"]:
        n = len(op_lines(op))
        sts = mo[i:i + n]
        st = "err" if sts and all(x == "err" for x in sts) else "+".join(sts)
        out.append([st] + list(mo[i + n:i + n + 3]))
        i += n + 3
    if i != len(mo):
        return None
    return out


def lines(case):
    L = env_lines(get_envinfo()) + ["init"]
    obs = case.get("obs") or [[] for _ in case["ops"]]
    for op, items in zip(case["ops"], obs):
        L.extend(op_lines(op))
        L.append("dump")
        L.append("caches " + UNKNOWN)
        L.append("obs " + (",".join("%s:%s:%s:%s" % (k, n, name, vstr(ver)) for k, n, name, ver in items) or "-"))
    return L


def n_prefix():
    return len(env_lines(get_envinfo())) + 1


# --------------------------------------------------------------------------- canonicalisation / comparison
_UU = re.compile(r"[0-9a-f]{8}-[0-9a-f]{4}-[0-9a-f]{4}-[0-9a-f]{4}-[0-9a-f]{12}|\{u\d+\}")


class Canon:
    """Renames uuids by first appearance (new uuids of one step ordered by the masked path of
    their metadata object), identically for the implementation and the model."""

    def __init__(self):
        self.m = {}

    def learn(self, entries):
        new = []
        for p, c in entries:
            for u in _UU.findall(p):
                if u not in self.m and u not in new:
                    new.append(u)
        keyed = []
        for u in new:
            objs = sorted((_UU.sub("#", p), c) for p, c in entries if c.startswith("o:") and p.endswith("=" + u))
            lks = sorted(_UU.sub("#", p) for p, c in entries if c.startswith("l:") and p.endswith("/" + u))
            keyed.append(((0, objs[0]) if objs else (1, (lks[:1] or [""])[0], ""), u))
        keyed.sort(key=lambda x: (x[0][0], x[0][1:]))
        for _, u in keyed:
            self.m[u] = "#%d" % len(self.m)

    def sub(self, s):
        return _UU.sub(lambda m: self.m.get(m.group(0), "#?"), s)


def norm_dump(entries, canon):
    canon.learn(entries)
    out = []
    for p, c in entries:
        if c.startswith("p:"):
            head, _, pl = c[2:].partition(":")
            c = "p:%s:%s" % (head, ",".join(sorted(x for x in pl.split(",") if x)))
        out.append([canon.sub(p), canon.sub(c)])
    out.sort(key=lambda e: e[0].split("/"))
    return out


def norm_caches(o, canon):
    r = dict(o)
    r["schemas"] = sorted(o["schemas"])
    r["packages"] = sorted("%s:%s" % (x.partition(":")[0], ",".join(sorted(y for y in x.partition(":")[2].split(",") if y))) for x in o["packages"])
    r["children"] = {k: sorted(v) for k, v in o["children"].items()}
    r["versions"] = {k: sorted(v) for k, v in o["versions"].items()}
    r["links"] = sorted([canon.sub(a), canon.sub(b)] for a, b in o["links"])
    return r


C20_CACHE_KEYS = ("schemas", "len", "packages", "parent_path", "provider", "contains")


def compare_parts(parts):
    """parts ⊆ {status, dump, caches, obs, selfdesc}: which observations are binding."""

    def compare(case, ir, mo):
        a = ir.get("out")
        k = n_prefix()
        groups = model_steps(case, mo[k:])
        if groups is None or len(a) != 4 * len(groups):
            return "length %d vs %d" % (len(a), len(mo) - k)
        mo = [x for g in groups for x in g]
        ci, cm = Canon(), Canon()
        for i in range(0, len(a), 4):
            step = i // 4
            op = case["ops"][step]
            if "status" in parts and a[i] != mo[i]:
                return "step %d %s: status impl=%r model=%r" % (step, op, a[i], mo[i])
            try:
                di, dm = norm_dump(json.loads(a[i + 1]), ci), norm_dump(json.loads(mo[i + 1]), cm)
                oi, om = norm_caches(json.loads(a[i + 2]), ci), norm_caches(json.loads(mo[i + 2]), cm)
            except Exception as e:  # noqa: BLE001
                raise lean.InfraError("cannot parse driver output at step %d: %r\n%s" % (step, e, mo[i + 1][:300]))
            if "dump" in parts and di != dm:
                x = [e for e in di if e not in dm][:3]
                y = [e for e in dm if e not in di][:3]
                return "step %d %s: raw tree differs; only impl: %s; only model: %s" % (step, op, x, y)
            if "selfdesc" in parts:
                f = lambda d: [e for e in d if e[0].startswith("/metador_container/schemas") or e[0].startswith("/metador_container/packages")]  # noqa: E731
                if f(di) != f(dm):
                    return "step %d %s: schema/package records differ: impl=%s model=%s" % (step, op, f(di)[:6], f(dm)[:6])
                for key in C20_CACHE_KEYS:
                    if oi[key] != om[key]:
                        return "step %d %s: %s differs: impl=%s model=%s" % (step, op, key, _short(oi[key], om[key]), _short(om[key], oi[key]))
            if "caches" in parts:
                for key in sorted(oi):
                    if oi[key] != om.get(key):
                        return "step %d %s: cache observation %s differs: impl=%s model=%s" % (step, op, key, _short(oi[key], om.get(key)), _short(om.get(key), oi[key]))
            if "obs" in parts:
                xi = a[i + 3].split("|") if a[i + 3] else []
                xm = mo[i + 3].split("|") if mo[i + 3] else []
                if len(xi) != len(xm):
                    return "step %d: %d vs %d observations" % (step, len(xi), len(xm))
                items = (case.get("obs") or [])[step]
                for j, (u, v) in enumerate(zip(xi, xm)):
                    if u.startswith("q=") and v.startswith("q=") and not u.startswith("q=err") and not v.startswith("q=err") and u != "q=nonode":
                        ok = sorted(x for x in u[2:].split(",") if x) == sorted(x for x in v[2:].split(",") if x)
                    elif u.startswith("g=obj:") and v.startswith("g=obj:"):
                        si, sm = set(u[6:].split("/")), set(v[6:].split("/"))
                        ok = bool(si) and si <= sm
                    else:
                        ok = u == v
                    if not ok:
                        return "step %d %s: observation %s impl=%r model=%r" % (step, op, items[j], u, v)
        return None

    return compare


def _short(a, b):
    if isinstance(a, dict) and isinstance(b, dict):
        ks = [k for k in a if a[k] != b.get(k)][:3]
        return {k: a[k] for k in ks}
    return str(a)[:300]


# --------------------------------------------------------------------------- per-property plumbing
PARTS = {
    # what is binding in the correspondence of each property (the rest is recorded only)
    "C06": {"status", "dump", "caches"},
    "C07": {"status", "obs"},
    "C20": {"selfdesc"},
}
N_CASES = {"quick": 150, "thorough": 1500}
WRAPPER_PROPS = ("C06", "C07")  # histories of these properties use held node wrappers (`add_wrappers`)
WRAPPER_ARGS = {"C07": dict(p_dup=0.3)}  # C07: kept wrappers also attach what another wrapper attached meanwhile


def impl_for(pid, case):
    r = impl(case, pid)
    r["oracle"] = [d for d in r["oracle"] if d.get("prop") == pid]
    return r


def cases_for(ctx, pid, n=None):
    cases = core.load_corpus(pid)
    n = n or N_CASES["quick" if ctx.quick else "thorough"]
    for _ in range(n):
        cases.append(gen_case(ctx.rng, quick=ctx.quick, held=True, wrappers=pid in WRAPPER_PROPS, wrap_args=WRAPPER_ARGS.get(pid)))
    return cases


def run_prop(ctx, pid, mod, rule_extra="", n_cases=None, extra_cases=None):
    """`extra_cases(ctx)`: further cases of the property (generated AFTER the shared ones, so the shared stream of `ctx.rng`
    is the same with and without them). Cases marked `multi` (several containers, see ctr_multi.py) are outside the model:
    they get no model lines and are judged by the oracle alone."""
    ctx.rule = ("cases: random container histories (create group/dataset, attach/delete metadata incl. refused requests: auxiliary, unknown, "
                "duplicate, invalid, missing node - each in every call shape meta[name | (name, ver) | SchemaClass | PluginRef] = instance | dict | "
                "JSON | bytes | instance of the key class, values also of descendant / other vt.* schemas, classes of releases that are not "
                "installed; operations on one kept node.meta handle; delete node; copy with/without metadata, path or node "
                "object as source, also into the own subtree, without_meta preferably on groups with annotated nodes below; move; copy/move back "
                "onto paths freed earlier in the same session (segment alphabets of 2-4 names); moves/copies of annotated nodes that are refused "
                "because the destination is taken; close/reopen; IH5 patch boundaries - preferably when several used schemas share a package, "
                "followed by removal of metadata (last object of a schema, schemas whose descendants stay in use); attached schemas biased to "
                "relatives / package mates of those in use) on h5py.File and IH5Record, over the "
                "installed schemas core.file/dir/bib/imagefile/table and a harness-registered family vt.* (11 schemas, 2 packages, several "
                "versions, 3-level inheritance, auxiliary parent; the roots carry optional fields of every kind of field type of the schema "
                "library: Duration, PintQuantity, PintUnit, Float, Int, Bool, MimeTypeStr, QualHashsumStr, NonEmptyStr, datetime, date, Pixels, "
                "NumValue, lists). Instances: about 80 % are overlaid with values from a pool built on every run from the real schema classes "
                "(`field_pool`: for EVERY field - own, inherited, nested models - up to 40 values of its type from the boundary corpora of "
                "schema_gen: durations with fractional seconds / sign / weeks / zero, units, quantities, numbers 0 / negative / float / huge, "
                "odd strings, urls, dates, persons / organisations; one field at a time plus random multi-field inputs; kept when the class "
                "accepts them and stores them stably). After EVERY step: canonical raw dump, TOC cache observations (public API + "
                "_toc_path), sampled get/query observations; compared with the Lean model `drv_ctr`. Non-trivial = tagged (copy/move/delete of "
                "nodes with metadata, refused sets, record removal, reopen with metadata, queries answered by descendant schemas ...). " + rule_extra)
    ctx.assumptions += [
        "h5py / IH5 implement the flat tree semantics of Model/Container raw primitives (create with intermediate groups, delete subtree, "
        "snapshot copy, move); compared after every step on both drivers (IH5 transparency itself is C01/C09)",
        "uuid1() is fresh (modelled as a counter); uuids are compared up to renaming by first appearance",
        "json.loads(json.dumps(x)) = x for compat lists and package infos; entry point names parse back (C16 epname_roundtrip)",
        "schema environment (parent paths, providers, auxiliary flags) is read from the real plugin system on every run and passed to the model",
    ]
    info = get_envinfo()
    bad = check_wfenv(info)
    ctx.obligation("env:WFEnv", "hypothesis `WFEnv e` of the container theorems, checked on the schema environment of the real plugin system",
                   not bad, "; ".join(bad[:10]))
    ctx.assumptions.append("node names are non-empty (HDF5; the driver's path parser refuses empty segments): side condition `OpOK` of "
                           "`sync_step` / `sync_run` (the model's structured names contain `Key.user \"\"`, for which `move` breaks the invariant)")
    cases = cases_for(ctx, pid, n_cases)
    if extra_cases:
        cases = cases + list(extra_cases(ctx))
    cmp = compare_parts(PARTS[pid])
    ctx.correspond("container-model", mod, cases, lambda c: ["init"] if c.get("multi") else lines(c), "drv_ctr",
                   compare=lambda c, ir, mo: None if c.get("multi") else cmp(c, ir, mo), timeout=240)
    ctx.dist["cases:several-containers(oracle only)"] = sum(1 for c in cases if c.get("multi"))
    ctx.dist["cases:h5"] = sum(1 for c in cases if c["driver"] == "h5")
    ctx.dist["cases:ih5"] = sum(1 for c in cases if c["driver"] == "ih5")
    for c in cases:
        for op in c["ops"]:
            ctx.dist["op:" + op[0]] += 1


def signature(pid, case, detail):
    return "%s:%s" % (pid, detail.get("kind") if isinstance(detail, dict) else str(detail)[:40])


_SHRUNK = {}


def ddmin_batch(items, fails_many, max_rounds=40):
    """Delta debugging where all candidates of a round are evaluated in one parallel batch.
    fails_many(list of sublists) -> list of bool."""
    cur = list(items)
    n = 2
    rounds = 0
    while len(cur) >= 2 and rounds < max_rounds:
        rounds += 1
        chunk = max(1, len(cur) // n)
        subsets = [cur[i:i + chunk] for i in range(0, len(cur), chunk)]
        comps = [[x for j, sub in enumerate(subsets) if j != i for x in sub] for i in range(len(subsets))]
        comps = [c for c in comps if c]
        res = fails_many(comps)
        hit = [c for c, f in zip(comps, res) if f]
        if hit:
            cur = min(hit, key=len)
            n = max(n - 1, 2)
        else:
            if n >= len(cur):
                break
            n = min(len(cur), n * 2)
    return cur


def shrink(ctx, pid, mod, case, detail):
    from .. import pool

    want = detail.get("kind") if isinstance(detail, dict) else None
    if want in (None, "does-not-terminate") or len(case.get("ops", [])) < 2:
        return case, detail
    if (pid, want) in _SHRUNK:  # one minimised witness per kind of violation is enough
        return _SHRUNK[(pid, want)]
    if len(_SHRUNK) >= 3:  # bound the time spent on minimising; further kinds are reported as found
        _SHRUNK[(pid, want)] = (case, detail)
        return case, detail
    pairs = list(zip(case["ops"], case.get("obs") or [[] for _ in case["ops"]]))

    def mk(ps, keep_obs=True):
        return dict(case, ops=[p[0] for p in ps], obs=[p[1] if keep_obs else [] for p in ps])

    def hit(r):
        return "ok" in r and any(d.get("kind") == want for d in r["ok"]["oracle"])

    def fails_many(cands):
        return [hit(r) for r in pool.run(mod, "impl", [mk(c) for c in cands], timeout=120, workers=min(8, len(cands)))]

    ps = ddmin_batch(pairs, fails_many)
    # then the sub-operations inside the remaining `hmeta` / `mseq` operations
    pos = [(i, j) for i, (op, _) in enumerate(ps) if op[0] in ("hmeta", "mseq") for j in range(len(op[2]))]
    if len(pos) >= 2:
        def only(keep):
            keep = set(keep)
            res = []
            for i, (op, ob) in enumerate(ps):
                if op[0] in ("hmeta", "mseq"):
                    sub = [x for j, x in enumerate(op[2]) if (i, j) in keep]
                    if sub:
                        res.append((op[:2] + [sub], ob))
                else:
                    res.append((op, ob))
            return res

        kept = ddmin_batch(pos, lambda cs: fails_many([only(c) for c in cs]))
        if len(kept) < len(pos):
            ps = only(kept)
    cands = [mk(ps, keep_obs=False), mk(ps)]
    res = pool.run(mod, "impl", cands, timeout=120, workers=2)
    out = (case, detail)
    for c, r in zip(cands, res):
        if hit(r):
            out = (c, [d for d in r["ok"]["oracle"] if d.get("kind") == want][0])
            break
    out = (prune_insts(out[0]), out[1])
    _SHRUNK[(pid, want)] = out
    return out


def prune_insts(case):
    """Drop unused instances from a (minimised) case and renumber the rest."""
    used = []

    def subs(op):  # (list, position of the instance index)
        if op[0] == "mset":
            return [(op, 4)]
        if op[0] == "mseq":
            return [(x, 3) for x in op[2] if x[0] == "set"]
        if op[0] == "hmeta":
            return [(x[2], 3) for x in op[2] if x[2][0] == "set"]
        return []

    for op in case["ops"]:
        for x, k in subs(op):
            i = x[k]
            if i >= 0 and i not in used:
                used.append(i)
    ren = {i: k for k, i in enumerate(used)}
    ops = json.loads(json.dumps(case["ops"]))
    for op in ops:
        for x, k in subs(op):
            if x[k] >= 0:
                x[k] = ren[x[k]]
    return dict(case, ops=ops, insts=[case["insts"][i] for i in used])


def search(ctx, pid, mod):
    """Failing-input search after a broken obligation / correspondence: more seeds, longer
    histories, oracle only."""
    from .. import pool

    for k in range(1, 4):
        sub = core.Ctx(pid, "quick" if k < 3 else "thorough", ctx.seed + 7919 * k)
        cases = [gen_case(sub.rng, quick=(k < 3), held=True, wrappers=pid in WRAPPER_PROPS, wrap_args=WRAPPER_ARGS.get(pid)) for _ in range(150)]
        res = pool.run(mod, "impl", cases, timeout=240)
        ctx.search_log.append("seed %d: %d histories, oracle only" % (sub.seed, len(cases)))
        for c, r in zip(cases, res):
            if "ok" in r and r["ok"]["oracle"]:
                return shrink(ctx, pid, mod, c, r["ok"]["oracle"][0])
            if "timeout" in r:
                return c, {"kind": "does-not-terminate"}
    return None


def replay(ctx, pid, mod, rep):
    from .. import pool

    case = rep.get("case")
    if not case:
        print(core.canon(rep)[:3000])
        return 0
    r = pool.run_one(mod, "impl", case, timeout=240)
    if "ok" in r:
        print("implementation: status/oracle:", [x for i, x in enumerate(r["ok"]["out"]) if i % 4 == 0], core.canon(r["ok"]["oracle"])[:3000])
    else:
        print("implementation:", core.canon(r)[:2000])
    mo = lean.run_driver("drv_ctr", [lines(case)])[0][n_prefix():]
    print("model: status:", [g[0] for g in model_steps(case, mo) or []])
    if "ok" in r:
        print("correspondence:", compare_parts(PARTS[pid])(case, r["ok"], lean.run_driver("drv_ctr", [lines(case)])[0]))
    return 1 if ("ok" in r and r["ok"]["oracle"]) or "timeout" in r else 0


# --------------------------------------------------------------------------- translated tie (shared by C06, C07, C20)
def translate(ctx):
    """regenerate Gen/TocFns.lean from container/interface.py and container/wrappers.py of the checked tree (see
    harness/translate_c06.py); the modules Bridge/TocFns*.lean prove the generated definitions equal to the
    functions of Model/Container.lean. One generator for the three properties: they share the model."""
    from .. import translate_c06

    ctx.trusted.append("harness/translate_c06.py (Python ast -> Lean) for the bookkeeping classes of container/interface.py "
                       "(TOCPackages, TOCSchemas, TOCLinks, MetadorMeta) and the MetadorGroup methods of container/wrappers.py, "
                       "with its value dictionary lean/MetadorModel/Py/CtrPy.lean; bridge theorems (Bridge/TocFns*.lean) "
                       "re-checked on every run")
    return translate_c06.write(lean)
