"""C06 — histories the shared generator of ctr_common.py does not produce:

1. `gen_prefix_case`: node names that are STRING-PREFIX related at every level (a / a1 / a10 / ab, img / img2 ...),
   groups and datasets next to each other, metadata on several of them, then move / copy / delete of ONE of them
   (the others must stay exactly as they are), embedded in a random history over the same alphabet. Ordinary cases of
   the container model (compared with `drv_ctr` like every other history).

2. `gen_multi_case`: histories over SEVERAL open containers (`multi: True`, `drivers: [...]`), operations

       ["@", k, <operation of ctr_common>]          the operation on container k
       ["xcopy", ks, src, kd, dst, without_meta]    containers[kd].copy(containers[ks][src], dst[, without_meta=True])

   i.e. copies whose SOURCE is a node object of another open container (both directions, datasets / groups, with and
   without metadata, below annotated nodes, schemas in use / not in use in the receiving container, reopen and patch
   boundaries of either container in between). The Lean model describes ONE container, so these histories are checked by
   the direct oracle only (`_Run.check_sync` on the raw tree of EVERY container after EVERY operation, and the index of a
   fresh `MetadorContainer` on the same data against the live one): no model lines, nothing compared with the model.
"""
import json
import os
import shutil
import tempfile

from . import ctr_common as C

# --------------------------------------------------------------------------- 1. prefix-related names
PREFIX_ALPHABETS = [
    ["a", "a1", "a10", "ab"],
    ["img", "img2", "im", "img20"],
    ["run1", "run10", "run", "run1x"],
    ["b", "bb", "a", "bbb"],
    ["d0", "d", "d00", "c"],
]


def _inst(insts, name):
    insts.append([name, None, C.make_instance_dict(name, len(insts))])
    return len(insts) - 1


def gen_prefix_case(rng, quick=True, wrappers=False):
    insts = []
    driver = rng.choice(["h5", "ih5"])
    names = list(rng.choice(PREFIX_ALPHABETS))
    sh = C.Shadow(names=names)
    pre = []
    # the scene: under one parent group, 2-4 children whose names are prefixes of each other; groups (some with a
    # node below them), datasets, or both kinds; most of them annotated (the schema choice is biased to few schemas)
    par = "/"
    if rng.random() < 0.5:
        par = "/" + rng.choice(names)
        pre.append(["grp", par])
        sh.add(par, "g")
    kinds = rng.choice(["g", "d", "mix", "mix"])
    scene = []
    for n in rng.sample(names, rng.choice([2, 3, 3, 4])):
        p = par.rstrip("/") + "/" + n
        k = rng.choice("gd") if kinds == "mix" else kinds
        if k == "g":
            pre.append(["grp", p])
            sh.add(p, "g")
            scene.append(p)
            if rng.random() < 0.5:
                c = p + "/" + rng.choice(names)
                if rng.random() < 0.65:
                    pre.append(["ds", c, "t%d" % len(pre)])
                    sh.add(c, "d")
                else:
                    pre.append(["grp", c])
                    sh.add(c, "g")
                scene.append(c)
        else:
            pre.append(["ds", p, "t%d" % len(pre)])
            sh.add(p, "d")
            scene.append(p)
    few = rng.sample(C.ATTACHABLE, 3)
    for p in scene:
        if rng.random() < 0.8:
            name = rng.choice(few)
            pre.append(["mset", p, name, None, _inst(insts, name)])
            sh.meta[p].add(name)
    ops, obs = list(pre), [[] for _ in pre]

    def more(n):
        if n <= 0:
            return
        o = []
        ops.extend(C.gen_history(rng, n, driver, insts, held=True, nq=2, nfinal=4, obs=o, sh=sh, rich=False))
        obs.extend(o)

    more(rng.randrange(0, 3))
    for _ in range(rng.choice([1, 1, 2, 3])):
        here = [p for p in scene if p in sh.kind]
        if not here:
            break
        # preferably the node whose name is a proper string prefix of a sibling's name (the shorter of a related pair)
        short = [p for p in here if any(q != p and q.startswith(p) and not q.startswith(p + "/") and q in sh.kind for q in scene)]
        src = rng.choice(short if short and rng.random() < 0.7 else here)
        r = rng.random()
        dst = None
        for _t in range(10):
            dst = sh.fresh_path(rng)
            if dst != src and not dst.startswith(src + "/") and dst not in sh.kind:
                break
            dst = None
        if r < 0.55 and dst:
            ops.append(["move", src, dst])
            if sh.kind.get(dst.rsplit("/", 1)[0] or "/", "g") == "g":
                sh.clone(src, dst, True, move=True)
                sh.vacated.append((src, dst))
                scene.append(dst)
        elif r < 0.8 and dst:
            wm = rng.random() < 0.25
            ops.append(["copy", src, dst, wm, rng.random() < 0.2])
            if sh.kind.get(dst.rsplit("/", 1)[0] or "/", "g") == "g":
                sh.clone(src, dst, not wm)
                scene.append(dst)
        else:
            ops.append(["del", src])
            sh.remove(src)
            sh.vacated.append((src, None))
        obs.append([])
        if rng.random() < 0.3:
            ops.append(["reopen"] if rng.random() < 0.7 else ["patch"])
            obs.append([])
        more(rng.randrange(0, 3))
    more(rng.randrange(1, 5 if quick else 12))
    case = dict(driver=driver, ops=ops, insts=insts, obs=obs)
    return C.add_wrappers(case) if wrappers else case


# --------------------------------------------------------------------------- 2. several containers
def unwrap(op):
    """The ctr_common operation inside a multi-container operation (None for xcopy)."""
    return op[2] if op[0] == "@" else None


class _MultiRun:
    def __init__(self, case, tmp):
        self.case = case
        self.runs = []
        for k, drv in enumerate(case["drivers"]):
            d = os.path.join(tmp, "k%d" % k)
            os.makedirs(d)
            self.runs.append(C._Run(dict(case, driver=drv, ops=[]), d))
        self.tags = set()
        self.pid = None

    @property
    def oracle(self):
        return [dict(d, ctr=k) for k, r in enumerate(self.runs) for d in r.oracle]

    def close(self):
        for r in self.runs:
            try:
                r.mc.close()
            except Exception:  # noqa: BLE001
                pass

    def annotated_below(self, r, path):
        """schema entry-point names of the metadata objects at / below `path` in the raw tree of run r"""
        res = set()
        pre = path.rstrip("/") + "/"
        par, _, last = path.rpartition("/")
        own = (par + "/metador_meta_" + last + "/")
        for p, k, _v in r.raw_entries():
            if k == "d" and "=" in p.rsplit("/", 1)[1] and "/metador_meta_" in p and (p.startswith(pre) or p.startswith(own)):
                res.add(p.rsplit("/", 1)[1].split("=")[0])
        return res

    def run(self):
        out = []
        for r in self.runs:
            r.pid = self.pid
        for step, op in enumerate(self.case["ops"]):
            reopened = None
            if op[0] == "xcopy":
                _, ks, src, kd, dst, wm = op[:6]
                a, b = self.runs[ks], self.runs[kd]
                try:
                    eps = self.annotated_below(a, src)
                    used = set(p.rsplit("/", 1)[1] for p, k, _v in b.raw_entries()
                               if p.startswith("/metador_container/schemas/") and p.count("/") == 3)
                    is_ds = a.is_ds(a.raw()[src])
                except Exception:  # noqa: BLE001
                    eps, used, is_ds = set(), set(), None
                kw = {"without_meta": True} if wm else {}
                st = C._tree(a.status(lambda: b.mc.copy(a.mc[src], dst, **kw)))
                t = "xcopy%s-%s" % ("-same-container" if ks == kd else "", "ok" if st == "ok" else "err")
                self.tags.add(t)
                if st == "ok" and ks != kd and is_ds is not None:
                    t = "xcopy-%s-%s%s" % ("ds" if is_ds else "group", "with-metadata" if eps else "plain", "-without_meta" if wm else "")
                    self.tags.add(t)
                    if eps and not wm:
                        self.tags.add("xcopy-schemas-" + ("all-new-to-destination" if not (eps & used) else
                                                          "all-in-use-in-destination" if eps <= used else "some-new-to-destination"))
                    self.tags.add("xcopy-drivers:%s->%s" % (self.case["drivers"][ks], self.case["drivers"][kd]))
            else:
                k, inner = op[1], op[2]
                st = self.runs[k].do_op(inner, step)
                if inner[0] == "reopen":
                    reopened = k
                self.tags.add("op:" + inner[0])
            for k, r in enumerate(self.runs):
                entries = r.raw_entries()
                objs, _links = r.check_sync(entries, step)
                live = r.toc_obs(r.mc)
                r.compare_fresh(live, step, reopened == k, objs)
                if objs:
                    self.tags.add("has-metadata")
            out.append(st)
        for r in self.runs:
            self.tags.update(t for t in r.tags if t.startswith(("copy-", "move-", "del-", "schema-record", "package-record")))
        return out


def impl(case, pid="C06"):
    tmp = tempfile.mkdtemp(prefix="vt-ctrs-")
    r = None
    try:
        r = _MultiRun(case, tmp)
        r.pid = pid
        try:
            out = r.run()
        except Exception as e:  # noqa: BLE001
            hits = [d for d in r.oracle if d.get("prop") == pid]
            if not hits:
                raise
            hits.append(dict(prop=pid, kind="breakdown-after-violation", error="%s: %s" % (type(e).__name__, str(e)[:200])))
            return dict(out=[], oracle=hits, tags=sorted(r.tags))
        return dict(out=out, oracle=[d for d in r.oracle if d.get("prop") == pid], tags=sorted(r.tags))
    finally:
        if r is not None:
            r.close()
        shutil.rmtree(tmp, ignore_errors=True)


def _clone_across(sa, src, sb, dst, with_meta):
    for q, k, m in [(q, sa.kind[q], set(sa.meta[q])) for q in sa.under(src)]:
        n = dst + q[len(src):]
        sb.add(n, k)
        sb.meta[n] = m if with_meta else set()


# (an IH5 node is refused as source by h5py.File: mixed pairs mostly copy from the h5py container into the IH5 record)
DRIVER_SETS = [["h5", "h5"], ["ih5", "ih5"], ["h5", "h5"], ["ih5", "ih5"], ["h5", "h5"], ["ih5", "ih5"], ["h5", "ih5"], ["h5", "h5", "ih5"]]


def gen_multi_case(rng, quick=True):
    drivers = list(rng.choice(DRIVER_SETS))
    nk = len(drivers)
    names = list(rng.choice([C.NAMES[:2], C.NAMES[:3], C.NAMES] + PREFIX_ALPHABETS[:2]))
    shs = [C.Shadow(names=names) for _ in drivers]
    insts, ops = [], []
    n = rng.randrange(6, 18 if quick else 36)
    # the first container is filled first (the others start empty or with a few nodes of their own)
    focus = 0
    while len(ops) < n:
        r = rng.random()
        srcs = [(k, p) for k in range(nk) for p in shs[k].kind if p != "/"]
        if srcs and r < (0.3 if len(ops) >= 3 else 0.0):
            ann = [(k, p) for k, p in srcs if any(shs[k].meta.get(q) for q in shs[k].under(p))]
            deep = [(k, p) for k, p in ann if shs[k].kind[p] == "g" and not shs[k].meta.get(p)]  # only below the group
            q = rng.random()
            ks, src = rng.choice(deep if deep and q < 0.25 else ann if ann and q < 0.8 else srcs)
            others = [k for k in range(nk) if k != ks]
            kd = rng.choice(others) if rng.random() < 0.92 else ks
            if drivers[ks] == "ih5" and drivers[kd] == "h5" and rng.random() < 0.8:
                continue
            q = rng.random()
            taken = [p for p in shs[kd].kind if p != "/"]
            dst = rng.choice(taken) if taken and q < 0.1 else shs[kd].fresh_path(rng)
            wm = rng.random() < 0.25
            ops.append(["xcopy", ks, src, kd, dst, wm])
            if dst not in shs[kd].kind and shs[kd].kind.get(dst.rsplit("/", 1)[0] or "/", "g") == "g" and not (ks == kd and dst.startswith(src + "/")):
                _clone_across(shs[ks], src, shs[kd], dst, not wm)
            continue
        if rng.random() < 0.25:
            focus = rng.randrange(nk)
        k = focus
        for op in C.gen_history(rng, 1, drivers[k], insts, held=True, nq=0, nfinal=0, obs=[], sh=shs[k], rich=False):
            ops.append(["@", k, op])
    return dict(multi=True, driver=drivers[0], drivers=drivers, ops=ops, insts=insts)


# --------------------------------------------------------------------------- shrinking of multi-container cases
def prune_insts(case):
    used = []

    def subs(op):
        op = unwrap(op) or []
        if not op:
            return []
        if op[0] == "mset":
            return [(op, 4)]
        if op[0] == "mseq":
            return [(x, 3) for x in op[2] if x[0] == "set"]
        if op[0] == "hmeta":
            return [(x[2], 3) for x in op[2] if x[2][0] == "set"]
        return []

    for op in case["ops"]:
        for x, k in subs(op):
            if x[k] >= 0 and x[k] not in used:
                used.append(x[k])
    ren = {i: k for k, i in enumerate(used)}
    ops = json.loads(json.dumps(case["ops"]))
    for op in ops:
        for x, k in subs(op):
            if x[k] >= 0:
                x[k] = ren[x[k]]
    return dict(case, ops=ops, insts=[case["insts"][i] for i in used])


_SHRUNK = {}


def shrink(ctx, pid, mod, case, detail):
    from .. import pool

    want = detail.get("kind") if isinstance(detail, dict) else None
    if want in (None, "does-not-terminate") or len(case.get("ops", [])) < 2:
        return case, detail
    if want in _SHRUNK:
        return _SHRUNK[want]
    if len(_SHRUNK) >= 2:
        return case, detail

    def hit(r):
        return "ok" in r and any(d.get("kind") == want for d in r["ok"]["oracle"])

    def fails_many(cands):
        return [hit(r) for r in pool.run(mod, "impl", [dict(case, ops=c) for c in cands], timeout=120, workers=min(8, len(cands)))]

    ops = C.ddmin_batch(case["ops"], fails_many)
    small = prune_insts(dict(case, ops=ops))
    r = pool.run_one(mod, "impl", small, timeout=120)
    out = (case, detail)
    if hit(r):
        out = (small, [d for d in r["ok"]["oracle"] if d.get("kind") == want][0])
    _SHRUNK[want] = out
    return out
