"""C04 — Only coherent, untampered file sets open as a record.

Lean: Model/Chain.lean (`validate` = `_open` + `_check_ublock` + manifest check), Model/UBlock.lean
(user-block framing and canonical JSON), Proofs/Chain*.lean, Props/C04.lean.

Real code: records of both classes (IH5Record, IH5MFRecord) with 1-4 containers are built with the
public API from random small histories, together with a fork (same record, diverging patch) and a
foreign record. Every fault of the property's list is applied to a fresh copy of the file set and the
copy is opened with the real `IH5Record(files, "r")` / `IH5MFRecord(files, "r")`.

Oracle (real code only): a copy with a must-fail fault opens; the untouched copy, a permutation of it
or the copy without its newest patch does not open.
Correspondence: raise/return (and the patch order on success) vs. the model's `openFiles` fed with the
first 1024 bytes of every file, the sha256 of the rest computed with hashlib, "h5py can open it",
and the sha256 of the sidecar manifest.
Flips inside the user block are metadata edits the property does not list: diagnostic only.
"""
import os
import random

from .. import core, lean, pool
from . import chn_common as cc

ID = "C04"
MOD = "harness.props.c04"
T = "MetadorModel.C04."
B = "MetadorModel.Bridge.ChainCheck."
LEAN = dict(
    modules=["MetadorModel.Props.C04", "MetadorModel.Bridge.ChainCheckUB", "MetadorModel.Bridge.ChainCheck"],
    theorems=[T + n for n in [
        "validate_ok_iff", "validate_perm", "rejected_iff", "tamper_rejected", "remove_inner_rejected", "remove_base_rejected",
        "foreign_rejected", "substitute_rejected", "fork_rejected", "dup_pid_rejected", "manifest_mismatch_rejected",
        "remove_newest_accepted", "ub_damage_rejected", "ub_parse_iff"]]
    # translated tie (Gen/ChainCheck.lean is regenerated from the source on every run, see translate_c04.py)
    + [B + n for n in [
        "gen_user_block_size", "gen_ublock_file", "gen_ublock_int", "gen_ih5_uuid", "gen_check_ublock", "gen_check_ublock_mf",
        "gen_dispatch_check_ublock", "gen_open_core", "gen_IH5Record_open", "gen_IH5MFRecord_open",
        "gen_open_ok_iff_coherent", "gen_mf_open_ok_iff_coherent", "gen_open_defaults"]],
    drivers=["drv_chn"],
)


def translate(ctx):
    """regenerate Gen/ChainCheck.lean from the current source (`IH5Record._ublock`, `ih5_uuid`, `_check_ublock`,
    `_open`, `IH5MFRecord._check_ublock`, `_open`); the bridge modules prove it equal to Model/Chain.lean"""
    from .. import translate_c04
    ctx.trusted.append("harness/translate_c04.py (Python ast -> Lean) for IH5Record._ublock/ih5_uuid/_check_ublock/_open and "
                       "IH5MFRecord._check_ublock/_open, with its value dictionary lean/MetadorModel/Py/ChainPy.lean; "
                       "bridge theorems (Bridge/ChainCheckUB.lean, Bridge/ChainCheck.lean) re-checked on every run")
    try:
        return translate_c04.write(lean)
    except translate_c04.TranslateError:
        raise  # what could be translated has been written; the bridge modules of the rest fail to build
    except Exception as e:  # noqa: BLE001
        # leave no text of an earlier run (possibly of another tree) behind
        translate_c04.write_stub(lean, "%s: %s" % (type(e).__name__, e))
        raise

MUST_FAIL, MUST_OPEN, ANY = "fail", "ok", "any"


# ----------------------------------------------------------------------------- building records
def build_record(d, cls, rng, n, open_last, name="rec"):
    """n containers; returns sorted list of container paths. The last one is left uncommitted when
    open_last (close(commit=False))."""
    os.makedirs(d, exist_ok=True)
    base = os.path.join(d, name)
    r = cls(base, "w")
    try:
        for i in range(n):
            if i > 0:
                r.create_patch()
            cc.rand_writes(r, rng, rng.randrange(0, 5))
            if i < n - 1 or not open_last:
                r.commit_patch()
    finally:
        r.close(commit=False)
    files = sorted((str(p) for p in cls.find_files(base)), key=lambda p: (len(p), p))
    assert len(files) == n
    return files


def make_fork(d, cls, rng, files, j):
    """Copy containers 0..j (committed) into d and create a diverging patch on top. Returns path of
    the fork container (patch after j)."""
    import shutil

    os.makedirs(d, exist_ok=True)
    for p in files[: j + 1]:
        shutil.copy(p, d)
        if os.path.isfile(p + "mf.json"):
            shutil.copy(p + "mf.json", d)
    base = os.path.join(d, "rec")
    r = cls(base, "r+")
    try:
        cc.rand_writes(r, rng, rng.randrange(1, 4))
        r["fork_marker"] = 1
        r.commit_patch()
    finally:
        r.close(commit=False)
    res = sorted((str(p) for p in cls.find_files(base)), key=lambda p: (len(p), p))
    assert len(res) == j + 2
    return res[-1]


# ----------------------------------------------------------------------------- fault lists
def payload_positions(rng, size, quick_n):
    """stratified sample: superblock, object headers/heap, data region, last byte + random ones"""
    if size <= 0:
        return []
    pos = {0, 1, 8, min(size - 1, 9), min(size - 1, 13), min(size - 1, 47), min(size - 1, 95), size - 1, size // 2}
    for lo, hi in ((0, 96), (96, 512), (512, 1200), (1200, size)):
        if lo < size:
            for _ in range(2):
                pos.add(rng.randrange(lo, min(hi, size)))
    for _ in range(quick_n):
        pos.add(rng.randrange(size))
    return sorted(p for p in pos if 0 <= p < size)


def gen_faults(rng, info, mode):
    """info: dict(n, committed=[bool], sizes=[payload sizes], cls, fork_at (index replaced by fork or None),
    mf_size). Returns list of (fault, expectation)."""
    n, com, sizes = info["n"], info["committed"], info["sizes"]
    F = [(["none"], MUST_OPEN)]
    if n >= 2:
        for _ in range(2 if mode == "quick" else 6):
            perm = list(range(n))
            rng.shuffle(perm)
            F.append((["perm", perm], MUST_OPEN))
        F.append((["drop-newest"], MUST_OPEN))
    masks = [0x01, 0x80, 0xFF, 0x20]
    for fi in range(n):
        exp = MUST_FAIL if com[fi] else ANY
        size = sizes[fi]
        if mode == "all" and com[fi]:
            poss = list(range(size))
        else:
            poss = payload_positions(rng, size, 6 if mode == "quick" else 30)
        for p in poss:
            F.append((["flip", fi, p, rng.choice(masks) if mode != "all" else 1 + rng.randrange(255)], exp))
        sub = poss if (mode == "all" and info.get("all_insdel")) else rng.sample(poss, min(len(poss), 5 if mode == "quick" else 12))
        for p in sub:
            F.append((["ins", fi, p, rng.randrange(256)], exp))
            F.append((["del", fi, p], exp))
        F.append((["ext", fi, 1], exp))
        F.append((["ext", fi, rng.randrange(2, 600)], exp))
        F.append((["trunc", fi, cc.UB + size - 1], exp))
        F.append((["trunc", fi, cc.UB + size // 2], exp))
        F.append((["trunc", fi, cc.UB], exp))
        F.append((["trunc", fi, rng.randrange(0, cc.UB)], exp))
        # user-block edits: diagnostic only
        for _ in range(3 if mode == "quick" else 10):
            F.append((["ub-flip", fi, rng.randrange(0, info["ublens"][fi] + 3), rng.choice(masks + [1 + rng.randrange(255)])], ANY))
        F.append((["ub-flip", fi, rng.randrange(0, cc.UB), 0x41], ANY))
    if n >= 2:
        F.append((["drop", 0], MUST_FAIL))
        F.append((["drop-base-allow-baseless"], ANY))
    for fi in range(1, n - 1):
        F.append((["drop", fi], MUST_FAIL))
    for fi in range(n):
        F.append((["subst-foreign", fi], MUST_FAIL if n >= 2 else ANY))
        F.append((["add-foreign", fi], MUST_FAIL))
        F.append((["dup-file", fi], MUST_FAIL))
        F.append((["dup-pid", fi], MUST_FAIL))
    allc = all(com)
    F.append((["craft", "valid", "last"], MUST_OPEN if allc else MUST_FAIL))
    F.append((["craft", "gap-index", "first"], MUST_OPEN if allc else MUST_FAIL))
    F.append((["craft", "rid", "last"], MUST_FAIL))
    F.append((["craft", "no-prev", "last"], MUST_FAIL))
    F.append((["craft", "wrong-prev", "first"], MUST_FAIL))
    F.append((["craft", "same-index", "last"], ANY))   # metadata edit, correspondence only
    F.append((["craft", "same-index", "first"], ANY))
    if info.get("fork_at") is not None:
        k = info["fork_at"]
        F.append((["subst-fork", k], MUST_FAIL if k < n - 1 else MUST_OPEN))
        F.append((["add-fork"], MUST_FAIL))
    if info["cls"] == "mf":
        exp = MUST_FAIL if com[-1] else ANY
        for p in sorted({0, info["mf_size"] // 2, info["mf_size"] - 1, rng.randrange(max(1, info["mf_size"]))}):
            F.append((["mf-flip", p, rng.choice(masks)], exp))
        F.append((["mf-drop"], exp))
        F.append((["mf-append"], exp))
        if n >= 2:
            F.append((["mf-swap"], exp))
    return F


# ----------------------------------------------------------------------------- real code
def _close_leaked():
    import h5py

    try:
        for fid in h5py.h5f.get_obj_ids(types=h5py.h5f.OBJ_FILE):
            try:
                fid.close()
            except Exception:  # noqa: BLE001
                pass
    except Exception:  # noqa: BLE001
        pass


def impl(case):
    import shutil
    import tempfile

    from metador_core.ih5.record import IH5UserBlock

    clsname = case["cls"]
    cls = cc.classes()[clsname]
    rng = random.Random(case["seed"])
    n, open_last, mode = case["n"], case["open_last"], case.get("mode", "quick")
    root = tempfile.mkdtemp(prefix="c04-")
    out, oracle, tags, kinds, sel, exps, flist = [], [], set(), [], [], [], []
    diag = {}
    ml = cc.ModelLines()
    try:
        files = build_record(os.path.join(root, "main"), cls, rng, n, open_last)
        other = build_record(os.path.join(root, "other"), cls, rng, n, False)
        fork_at = None
        fork_file = None
        if n >= 2 or (n == 1 and not open_last):
            ncom = n - 1 if open_last else n
            if ncom >= 1:
                j = rng.randrange(0, ncom)  # fork on top of committed container j
                fork_file = make_fork(os.path.join(root, "fork"), cls, rng, files, j)
                fork_at = j + 1 if j + 1 < n else None  # index in main that the fork container competes with
        datas = [open(p, "rb").read() for p in files]
        ubs = [IH5UserBlock.load(p) for p in files]
        com = [u.hdf5_hashsum is not None for u in ubs]
        mfp = files[-1] + "mf.json"
        info = dict(n=n, committed=com, sizes=[len(b) - cc.UB for b in datas], cls=clsname, fork_at=fork_at,
                    mf_size=os.path.getsize(mfp) if os.path.isfile(mfp) else 0,
                    ublens=[b[: cc.UB].find(b"\0") for b in datas], all_insdel=case.get("all_insdel", False))
        faults = case.get("faults")
        if faults is None:
            faults = gen_faults(rng, info, mode)
        else:
            faults = [tuple(f) for f in faults]

        def put(wd, src, name=None, data=None, with_mf=True):
            dst = os.path.join(wd, name or os.path.basename(src))
            if data is None:
                os.link(src, dst)
            else:
                with open(dst, "wb") as f:
                    f.write(data)
            if with_mf and os.path.isfile(src + "mf.json"):
                os.link(src + "mf.json", dst + "mf.json")
            return dst

        for fno, (fault, exp) in enumerate(faults):
            wd = os.path.join(root, "w%d" % fno)
            os.makedirs(wd)
            kw = {}
            kind = fault[0]
            paths = None
            try:
                if kind in ("none", "perm", "drop-newest", "drop", "drop-base-allow-baseless"):
                    idx = list(range(n))
                    if kind == "perm":
                        idx = list(fault[1])
                    elif kind == "drop-newest":
                        idx = idx[:-1]
                    elif kind == "drop":
                        idx.remove(fault[1])
                    elif kind == "drop-base-allow-baseless":
                        idx = idx[1:]
                        kw["allow_baseless"] = True
                    paths = [put(wd, files[i]) for i in idx]
                elif kind in ("flip", "ins", "del", "trunc", "ext", "ub-flip"):
                    fi = fault[1]
                    b = datas[fi]
                    if kind == "flip":
                        p = cc.UB + fault[2]
                        nb = b[:p] + bytes([b[p] ^ fault[3]]) + b[p + 1:]
                    elif kind == "ub-flip":
                        p = fault[2]
                        nb = b[:p] + bytes([b[p] ^ fault[3]]) + b[p + 1:]
                    elif kind == "ins":
                        p = cc.UB + fault[2]
                        nb = b[:p] + bytes([fault[3]]) + b[p:]
                    elif kind == "del":
                        p = cc.UB + fault[2]
                        nb = b[:p] + b[p + 1:]
                    elif kind == "trunc":
                        nb = b[: fault[2]]
                    else:
                        nb = b + bytes((7 * i + 1) & 0xFF for i in range(fault[2]))
                    paths = [put(wd, files[i], data=(nb if i == fi else None)) for i in range(n)]
                elif kind in ("subst-foreign", "add-foreign"):
                    fi = fault[1]
                    paths = [put(wd, files[i]) for i in range(n) if not (kind == "subst-foreign" and i == fi)]
                    paths.insert(fi, put(wd, other[fi], name="zz-" + os.path.basename(other[fi])))
                elif kind in ("subst-fork", "add-fork"):
                    k = fault[1] if kind == "subst-fork" else None
                    paths = [put(wd, files[i]) for i in range(n) if i != k]
                    paths.append(put(wd, fork_file, name="fork-" + os.path.basename(fork_file)))
                elif kind == "dup-file":
                    paths = [put(wd, files[i]) for i in range(n)]
                    paths.append(put(wd, files[fault[1]], name="copy-" + os.path.basename(files[fault[1]])))
                elif kind in ("dup-pid", "craft"):
                    # a container made with the real IH5UserBlock API on top of the newest one:
                    # copy of the newest container (payload + valid hash + manifest), user block re-linked
                    from uuid import uuid1

                    paths = [put(wd, files[i]) for i in range(n)]
                    src = files[-1]
                    dst = put(wd, src, name="rec.p9.ih5", data=datas[-1], with_mf=False)
                    if os.path.isfile(src + "mf.json"):
                        shutil.copy(src + "mf.json", dst + "mf.json")
                    ub = IH5UserBlock.load(dst)
                    ub.patch_index = ubs[-1].patch_index + 1
                    ub.prev_patch = ubs[-1].patch_uuid
                    ub.patch_uuid = uuid1()
                    if ub.hdf5_hashsum is None:
                        ub.hdf5_hashsum = cc.sha(datas[-1][cc.UB:])
                    if kind == "dup-pid":
                        ub.patch_uuid = ubs[fault[1]].patch_uuid
                    elif fault[1] == "rid":
                        ub.record_uuid = IH5UserBlock.load(other[0]).record_uuid
                    elif fault[1] == "same-index":
                        ub.patch_index = ubs[-1].patch_index
                    elif fault[1] == "no-prev":
                        ub.prev_patch = None
                    elif fault[1] == "wrong-prev":
                        ub.prev_patch = uuid1()
                    elif fault[1] == "gap-index":
                        ub.patch_index = ubs[-1].patch_index + 5
                    ub.save(dst)
                    if fault[-1] == "first":
                        paths.insert(0, dst)
                    else:
                        paths.append(dst)
                elif kind in ("mf-flip", "mf-drop", "mf-swap", "mf-append"):
                    paths = [put(wd, files[i]) for i in range(n)]
                    m = paths[-1] + "mf.json"
                    if os.path.isfile(m):
                        mb = open(m, "rb").read()
                        os.unlink(m)
                        if kind == "mf-flip" and mb:
                            p = min(fault[1], len(mb) - 1)
                            mb = mb[:p] + bytes([mb[p] ^ fault[2]]) + mb[p + 1:]
                        elif kind == "mf-append":
                            mb = mb + b"\n"
                        elif kind == "mf-swap":
                            mb = open(files[-2] + "mf.json", "rb").read() if os.path.isfile(files[-2] + "mf.json") else b""
                        if kind != "mf-drop":
                            with open(m, "wb") as f:
                                f.write(mb)
                else:
                    raise ValueError("unknown fault %r" % (fault,))
                # ---- model side description of exactly these files
                ml.cfg(clsname == "mf", kw.get("allow_baseless", False))
                for p in paths:
                    ml.file(p, p + "mf.json")
                ml.open()
                sel.append(len(ml.lines) - 1)
                # ---- real code
                rec, res, ek = cc.open_real(cls, paths, **kw)
                if rec is not None:
                    line = cc.order_line(rec, paths)
                    rec.close()
                else:
                    line = "err"
                    _close_leaked()
                out.append(line)
                kinds.append(ek)
                exps.append(exp)
                flist.append(list(fault))
                tags.add("%s:%s" % (kind, res))
                if exp == MUST_FAIL and res == "ok":
                    oracle.append(dict(kind="corrupted-opens", fault=list(fault), cls=clsname, n=n, committed=com))
                if exp == MUST_OPEN and res != "ok":
                    oracle.append(dict(kind="valid-rejected", fault=list(fault), cls=clsname, n=n, error=ek))
            finally:
                shutil.rmtree(wd, ignore_errors=True)
        tags.add("n=%d" % n)
        tags.add("cls=" + clsname)
        if open_last:
            tags.add("uncommitted-last")
    finally:
        _close_leaked()
        shutil.rmtree(root, ignore_errors=True)
    return dict(out=out, mlines=ml.lines, sel=sel, oracle=oracle, tags=sorted(tags), kinds=kinds, exps=exps, faults=flist, diag=diag)


# ----------------------------------------------------------------------------- comparison
_kind_stats = {}


def compare(case, ir, mo):
    """ok/err (+ order) must agree. User-block edits the model does not cover (non-canonical text the
    real parser still accepts, stated size beyond the bytes sent) are diagnostics."""
    out, sel = ir["out"], ir["sel"]
    first = None
    defs = {}
    for line, o in zip(ir["mlines"], mo):
        if line.startswith("def "):
            defs["@" + line.split()[1]] = o
    for i, (a, si) in enumerate(zip(out, sel)):
        m = mo[si]
        mm = m if m.startswith("ok") else "err"
        fault = ir["faults"][i]
        if a.startswith("err"):
            k = (ir["kinds"][i], m[4:] if m.startswith("err ") else m)
            _kind_stats[k] = _kind_stats.get(k, 0) + 1
        if a == mm:
            continue
        if fault[0] == "ub-flip":
            # why did the model refuse? look at the `def` replies among this fault's lines
            lo = sel[i - 1] + 1 if i else 0
            blk = [defs.get(l.split()[1], "") for l in ir["mlines"][lo:si] if l.startswith("file ")]
            lenient = m == "err outside" or any(x in ("def err noncanonical", "def err nonascii", "def outside") for x in blk)
            if a.startswith("ok") and lenient:
                key = ("diag", "ub-edit accepted by the lenient real parser")
                _kind_stats[key] = _kind_stats.get(key, 0) + 1
                continue
        if first is None:
            first = "fault %r: impl=%r model=%r" % (fault, a, m)
    return first


# ----------------------------------------------------------------------------- generators
def gen_cases(ctx):
    rng = ctx.rng
    cases = []
    nq = 150 if ctx.quick else 600
    for i in range(nq):
        n = rng.choice([1, 2, 2, 3, 3, 4])
        cases.append(dict(kind="rec", cls=rng.choice(["ih5", "mf"]), seed=rng.randrange(1 << 30), n=n,
                          open_last=rng.random() < 0.3, mode="quick" if ctx.quick else "more"))
    if not ctx.quick:
        for i in range(21):
            n = [1, 2, 2, 3, 3, 4, 2][i % 7]
            cases.append(dict(kind="rec", cls=["ih5", "mf"][i % 2], seed=rng.randrange(1 << 30), n=n,
                              open_last=(i % 5 == 4), mode="all", all_insdel=(n <= 2)))
        cases = cases[nq:] + cases[:nq]  # the long cases first
        ctx.exhaustive_spaces.append("21 records (both classes, 1-4 containers): a flip at EVERY byte position of every committed payload "
                                     "(random non-zero mask); for the records with <= 2 containers also an insertion and a deletion at every position")
    return cases


def run(ctx):
    ctx.rule = ("case = one real record (class, 1-4 containers, random history, optionally uncommitted newest container) + a fork + a foreign "
                "record; every fault of the list (payload flip/insert/delete per position, truncation/extension, removal of base/inner/newest, "
                "foreign/fork substitution and addition, duplicated file, duplicated patch_uuid with otherwise valid chain, manifest flip/drop/swap/"
                "append, permutations) is applied to a fresh copy and opened with the real code. Non-trivial = every fault kind x outcome tag.")
    ctx.assumptions += [
        "SHA-256: the two payloads concerned in a tamper case hash differently (hypothesis `H p' ≠ H p` of tamper_rejected; never global injectivity)",
        "h5py.File(path,'r') failing is an input of the model (h5ok), computed by the harness with h5py itself",
        "json.loads/pydantic modelled for the canonical serialisation of IH5UserBlock only (UBlock.parseUBT); real parser is more lenient",
    ]
    cases = core.load_corpus(ID) + gen_cases(ctx)
    _kind_stats.clear()
    cc.correspond2(ctx, "open-vs-validate", MOD, cases, compare=compare, timeout=1500 if not ctx.quick else 120)
    agree = sum(v for (a, b), v in _kind_stats.items() if a == b)
    tot = sum(v for (a, b), v in _kind_stats.items() if a != "diag")
    ctx.dist["diag:error-kind-agree"] = agree
    ctx.dist["diag:error-kind-total"] = tot
    for (a, b), v in sorted(_kind_stats.items(), key=lambda kv: -kv[1]):
        if a != b:
            ctx.dist["diag:kind impl=%s model=%s" % (a, b)] = v
    ctx.steps = sum(g.get("steps", 0) for g in ctx.groups.values())


def signature(case, detail):
    if isinstance(detail, dict):
        f = detail.get("fault") or ["?"]
        return "%s:%s:%s" % (ID, detail.get("kind"), f[0])
    return "%s:%s" % (ID, str(detail)[:40])


def shrink(ctx, case, detail):
    """keep only the fault that hit; try fewer containers with the same fault"""
    if not isinstance(detail, dict) or "fault" not in detail:
        return case, detail
    want = (detail["kind"], detail["fault"][0])
    exp = MUST_FAIL if detail["kind"] == "corrupted-opens" else MUST_OPEN

    def hit(c):
        r = pool.run_one(MOD, "impl", c, timeout=120)
        if "ok" in r:
            for d in r["ok"]["oracle"]:
                if (d["kind"], d["fault"][0]) == want:
                    return d
        return None

    best = dict(case, faults=[[detail["fault"], exp]], mode="quick")
    d = hit(best)
    if d is None:
        return case, detail
    bd = d
    for n in range(1, case["n"]):
        c = dict(case, n=n, faults=None, mode="quick")
        d = hit(c)
        if d is not None:
            c2 = dict(c, faults=[[d["fault"], exp]])
            d2 = hit(c2)
            if d2 is not None:
                return c2, d2
    return best, bd


def search(ctx):
    for s in range(1, 3):
        sub = core.Ctx(ID, "quick", ctx.seed + 7919 * s)
        cases = gen_cases(sub)[:100]
        res = pool.run(MOD, "impl", cases, timeout=120)
        ctx.search_log.append("seed %d: %d records, oracle only" % (sub.seed, len(cases)))
        for c, r in zip(cases, res):
            if "ok" in r and r["ok"]["oracle"]:
                return shrink(ctx, c, r["ok"]["oracle"][0])
    return None


def replay(ctx, rep):
    case = rep.get("case")
    if not case:
        print(core.canon(rep)[:3000])
        return 0
    r = pool.run_one(MOD, "impl", case, timeout=600)
    if "ok" not in r:
        print("implementation:", core.canon(r)[:2000])
        return 2
    ir = r["ok"]
    mo = lean.run_driver("drv_chn", [ir["mlines"]])[0]
    for f, a, si in zip(ir["faults"], ir["out"], ir["sel"]):
        print("fault %-40s implementation: %-12s model: %s" % (f, a, mo[si]))
    print("oracle:", core.canon(ir["oracle"])[:2000])
    return 1 if ir["oracle"] else 0
