"""Shared helpers to drive HDF5-like group objects (h5py.File, IH5Record, IH5MFRecord) with a
small op alphabet and to dump them canonically. Used by C05, C09, C10 (C01 has its own copy
with a richer dump)."""
import numpy as np


def enc_val(v):
    """canonical tagged string of a value read from a dataset / attribute"""
    import h5py

    if isinstance(v, h5py.Empty):
        return "empty"
    if isinstance(v, np.void):
        return "b:" + v.tobytes().hex()
    if isinstance(v, bytes):
        return "s:" + v.hex()
    if isinstance(v, str):
        return "s:" + v.encode().hex()
    if isinstance(v, np.ndarray):
        if v.dtype.kind in "iu":
            return "a:" + ",".join(str(int(x)) for x in v.reshape(-1)) + ":" + "x".join(map(str, v.shape))
        if v.dtype.kind == "V":
            return "b:" + v.tobytes().hex()
        return "a?:" + repr(v.tolist())
    if isinstance(v, (np.integer, int)):
        return "i:%d" % int(v)
    if isinstance(v, (np.bool_, bool)):
        return "i:%d" % int(v)
    return "?:" + repr(v)


def dec_val(s):
    """tagged string -> python value to store"""
    import h5py

    if s == "empty":
        return h5py.Empty(None)
    t, _, r = s.partition(":")
    if t == "i":
        return int(r)
    if t == "s":
        return bytes.fromhex(r)
    if t == "b":
        return np.void(bytes.fromhex(r))
    if t == "a":
        nums, _, shape = r.partition(":")
        arr = np.array([int(x) for x in nums.split(",")] if nums else [], dtype=np.int64)
        return arr
    raise ValueError(s)


def apply_op(g, op):
    """Apply one op to the root group-like `g`. Returns 'ok' or 'err:<ExceptionClass>'."""
    try:
        k = op[0]
        if k == "set":
            g[op[1]] = dec_val(op[2])
        elif k == "grp":
            g.create_group(op[1])
        elif k == "del":
            del g[op[1]]
        elif k == "sattr":
            g[op[1]].attrs[op[2]] = dec_val(op[3])
        elif k == "dattr":
            del g[op[1]].attrs[op[2]]
        elif k == "copy":
            g.copy(op[1], op[2])
        elif k == "move":
            g.move(op[1], op[2])
        else:
            raise RuntimeError("unknown op %r" % (op,))
        return "ok"
    except (KeyError, ValueError, TypeError, RuntimeError, OSError, AssertionError, AttributeError) as e:
        return "err:" + type(e).__name__


def is_ok(r):
    return r == "ok"


def dump(g):
    """{path: [kind, value, {attr: value}]} for the whole tree (root included as '/')."""
    out = {}

    def attrs(n):
        return {k: enc_val(n.attrs[k]) for k in sorted(n.attrs.keys())}

    out["/"] = ["group", None, attrs(g["/"])]

    def visit(name, node):
        p = "/" + name.strip("/")
        if hasattr(node, "keys"):
            out[p] = ["group", None, attrs(node)]
        else:
            out[p] = ["dataset", enc_val(node[()]), attrs(node)]

    g["/"].visititems(visit)
    return out


def skel(d):
    """skeleton of a dump: path -> (kind, attr names)"""
    return {p: [v[0], sorted(v[2].keys())] for p, v in d.items()}


KEYS = ["a", "b", "c"]
ATTRS = ["k", "m"]
VALS = ["i:0", "i:1", "i:7", "s:6162", "s:", "a:1,2,3:3", "b:00ff00", "i:255"]


def rand_path(rng, maxdepth=3, keys=KEYS):
    d = rng.randrange(1, maxdepth + 1)
    return "/" + "/".join(rng.choice(keys) for _ in range(d))


def rand_op(rng, existing=None, allow_copy=True, keys=KEYS):
    """A random op; `existing` (list of paths) biases towards hitting existing nodes."""
    def pick():
        if existing and rng.random() < 0.6:
            return rng.choice(existing)
        return rand_path(rng, keys=keys)

    def pick_attr_target():
        # attributes of the root group are part of the tree too
        return "/" if rng.random() < 0.15 else pick()
    r = rng.random()
    if r < 0.30:
        return ["set", rand_path(rng, keys=keys), rng.choice(VALS)]
    if r < 0.42:
        return ["grp", rand_path(rng, keys=keys)]
    if r < 0.60:
        return ["del", pick()]
    if r < 0.75:
        return ["sattr", pick_attr_target(), rng.choice(ATTRS), rng.choice(VALS)]
    if r < 0.82:
        return ["dattr", pick_attr_target(), rng.choice(ATTRS)]
    if allow_copy:
        src, dst = pick(), rand_path(rng, keys=keys)
        if r < 0.92:
            return ["copy", src, dst]
        if dst == src or dst.startswith(src + "/"):
            return ["copy", src, dst]  # move into own subtree is excluded from the alphabet
        return ["move", src, dst]
    return ["set", rand_path(rng, keys=keys), rng.choice(VALS)]


def rand_history(rng, n, boundary_p=0.2, allow_copy=True):
    """ops interleaved with ['patch'] boundaries; paths that probably exist are tracked crudely"""
    ops = []
    existing = []
    for _ in range(n):
        if ops and rng.random() < boundary_p:
            ops.append(["patch"])
            continue
        op = rand_op(rng, existing, allow_copy)
        ops.append(op)
        if op[0] in ("set", "grp"):
            segs = op[1].strip("/").split("/")
            for i in range(1, len(segs) + 1):
                p = "/" + "/".join(segs[:i])
                if p not in existing:
                    existing.append(p)
        elif op[0] in ("copy", "move") and op[2] not in existing:
            existing.append(op[2])
    return ops


def hx(s):
    return s.encode().hex() if s else "-"


def show_dump(d):
    """the canonical text the Lean drivers print for a listing (`showListing`)"""
    def key(p):
        return [] if p == "/" else p.strip("/").split("/")
    ents = []
    for p in sorted(d, key=key):
        kind, val, attrs = d[p]
        kd = "G" if kind == "group" else "D=" + val
        ents.append("%s:%s[%s]" % (hx(p), kd, ",".join("%s=%s" % (hx(k), attrs[k]) for k in sorted(attrs))))
    return "T " + ";".join(ents)


def show_skel(d):
    def key(p):
        return [] if p == "/" else p.strip("/").split("/")
    return "S " + ";".join("%s:%s[%s]" % (hx(p), "G" if d[p][0] == "group" else "D", ",".join(hx(k) for k in sorted(d[p][2]))) for p in sorted(d, key=key))


def op_line(op):
    """driver line for an op of the alphabet"""
    k = op[0]
    if k == "patch":
        return "patch"
    if k == "set":
        return "set %s %s" % (hx(op[1]), op[2])
    if k in ("grp", "del"):
        return "%s %s" % (k, hx(op[1]))
    if k == "sattr":
        return "sattr %s %s %s" % (hx(op[1]), hx(op[2]), op[3])
    if k == "dattr":
        return "dattr %s %s" % (hx(op[1]), hx(op[2]))
    if k in ("copy", "move"):
        return "%s %s %s" % (k, hx(op[1]), hx(op[2]))
    raise ValueError(op)


def oc(r):
    return "ok" if r == "ok" else "err"
