"""C06 — see ctr_common.py (shared generator, real-code runner, oracles, model lines)."""
from . import ctr_common as C

ID = "C06"
MOD = "harness.props.c06"
T = "MetadorModel.C06."
LEAN = dict(
    modules=["MetadorModel.Props.C06"],
    theorems=[T + n for n in (
        "link_points_to_object",
        "object_attached_to_node",
        "object_has_exactly_one_link",
        "uuids_unique",
        "schema_records_exact",
        "package_records_exact",
        "toc_shape",
        "no_empty_bookkeeping_groups",
        "sync_of_inv",
        "sync_init",
        "sync_meta",
        "sync_create_group",
        "sync_create_dataset",
        "sync_delete",
        "sync_reopen",
        "sync_copy",
        "sync_move",
        "cache_coherent",
        "sync_step",
        "sync_run",
        "sync_reachable",
        "sync_step_needs_names",
        "env3_wf",
        "hist1_obj",
    )],
    drivers=["drv_ctr"],
)


def impl(case):
    return C.impl_for(ID, case)


env_info = C.env_info
lines = C.lines


def run(ctx):
    C.run_prop(ctx, ID, MOD, rule_extra=(
        "C06 only: about 60 % of the metadata operations go through HELD NODE WRAPPERS (op `hmeta`, `ctr_common.add_wrappers`): several "
        "live wrappers of one node, obtained by different navigation routes (mc[path], get, segment by segment, parent of a child, "
        "values() of the parent, visititems, query results, the container object itself for the root), kept across later operations "
        "(incl. move / copy / delete of the node; h5py handles follow a moved node) and used in turn, `.meta` taken afresh at each use; "
        "preferably through the wrapper that has not seen the latest changes, removing what it attached itself. To the model every "
        "such sub-operation is one `meta` operation with a newly opened handle."))


def signature(case, detail):
    return C.signature(ID, case, detail)


def shrink(ctx, case, detail):
    return C.shrink(ctx, ID, MOD, case, detail)


def search(ctx):
    return C.search(ctx, ID, MOD)


def replay(ctx, rep):
    return C.replay(ctx, ID, MOD, rep)
