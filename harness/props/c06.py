"""C06 — see ctr_common.py (shared generator, real-code runner, oracles, model lines)."""
from . import ctr_common as C

ID = "C06"
MOD = "harness.props.c06"
T = "MetadorModel.C06."
LEAN = dict(
    modules=["MetadorModel.Model.Container"],
    theorems=[],
    drivers=["drv_ctr"],
)


def impl(case):
    return C.impl_for(ID, case)


env_info = C.env_info
lines = C.lines


def run(ctx):
    C.run_prop(ctx, ID, MOD)


def signature(case, detail):
    return C.signature(ID, case, detail)


def shrink(ctx, case, detail):
    return C.shrink(ctx, ID, MOD, case, detail)


def search(ctx):
    return C.search(ctx, ID, MOD)


def replay(ctx, rep):
    return C.replay(ctx, ID, MOD, rep)
