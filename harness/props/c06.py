"""C06 — see ctr_common.py (shared generator, real-code runner, oracles, model lines) and ctr_multi.py (C06 only:
string-prefix related node names; histories over several open containers, oracle only)."""
from . import ctr_common as C
from . import ctr_multi as X

ID = "C06"
MOD = "harness.props.c06"
T = "MetadorModel.C06."
B = "MetadorModel.Bridge.TocFns."  # translated tie (harness/translate_c06.py)
LEAN = dict(
    modules=["MetadorModel.Props.C06", "MetadorModel.Bridge.TocFnsPaths", "MetadorModel.Bridge.TocFnsPkg", "MetadorModel.Bridge.TocFnsSchemas", "MetadorModel.Bridge.TocFnsLinks", "MetadorModel.Bridge.TocFnsMeta", "MetadorModel.Bridge.TocFnsWrap", "MetadorModel.Bridge.TocFnsInv"],
    theorems=[T + n for n in (
        "link_points_to_object",
        "object_attached_to_node",
        "object_has_exactly_one_link",
        "uuids_unique",
        "schema_records_exact",
        "package_records_exact",
        "toc_shape",
        "no_empty_bookkeeping_groups",
        "sync_of_inv",
        "sync_init",
        "sync_meta",
        "sync_create_group",
        "sync_create_dataset",
        "sync_delete",
        "sync_reopen",
        "sync_copy",
        "sync_move",
        "cache_coherent",
        "sync_step",
        "sync_run",
        "sync_reachable",
        "sync_step_needs_names",
        "env3_wf",
        "hist1_obj",
    )] + [B + n for n in (
        "gen_pkginfo_path_for",
        "gen_schema_path_for",
        "gen_jsonschema_path_for",
        "gen_link_path_for",
        "gen_to_path",
        "gen_add_providers",
        "gen_pkg_register",
        "gen_pkg_register_closed",
        "gen_pkg_unregister",
        "gen_pkg_init",
        "gen_upc_add",
        "gen_upc_remove",
        "gen_schema_register",
        "gen_schema_unregister",
        "gen_schemas_init",
        "gen_links_init",
        "gen_link_resolve",
        "gen_link_update",
        "gen_link_register",
        "gen_link_unregister",
        "gen_find_missing",
        "gen_repair_missing",
        "gen_set_raw",
        "gen_del_raw",
        "gen_destroy",
        "gen_setitem",
        "gen_delitem",
        "gen_meta_init",
        "gen_guard_path",
        "gen_node_destroy_meta",
        "gen_group_destroy_meta",
        "gen_group_delitem",
        "gen_group_move",
        "gen_group_copy",
        "PkgTreeOK.of_inv",
        "LinkTreeOK.of_inv",
        "MetaDirOK.of_inv",
    )],
    drivers=["drv_ctr"],
)


translate = C.translate


def impl(case):
    if case.get("multi"):
        return X.impl(case, ID)
    return C.impl_for(ID, case)


env_info = C.env_info


def lines(case):
    return ["init"] if case.get("multi") else C.lines(case)


# quick: 120 shared histories + 24 with prefix-related names + 24 over several containers (thorough: 1500 + 240 + 240)
N_BASE = {True: 120, False: 1500}
N_EXTRA = {True: 24, False: 240}


def extra_cases(ctx, n=None):
    """C06 only (generated after the shared histories; `ctx.rng`)."""
    n = n or N_EXTRA[ctx.quick]
    res = []
    for i in range(n):
        r = ctx.rng.random()
        if r < 0.35:  # the shared generator over an alphabet of prefix-related names
            res.append(C.gen_case(ctx.rng, quick=ctx.quick, held=True, wrappers=i % 2 == 0, names=ctx.rng.choice(X.PREFIX_ALPHABETS)))
        else:
            res.append(X.gen_prefix_case(ctx.rng, quick=ctx.quick, wrappers=i % 3 == 0))
    for _ in range(n):
        res.append(X.gen_multi_case(ctx.rng, quick=ctx.quick))
    return res


def run(ctx):
    C.run_prop(ctx, ID, MOD, n_cases=N_BASE[ctx.quick], extra_cases=extra_cases, rule_extra=(
        "C06 only: about 60 % of the metadata operations go through HELD NODE WRAPPERS (op `hmeta`, `ctr_common.add_wrappers`): several "
        "live wrappers of one node, obtained by different navigation routes (mc[path], get, segment by segment, parent of a child, "
        "values() of the parent, visititems, query results, the container object itself for the root), kept across later operations "
        "(incl. move / copy / delete of the node; h5py handles follow a moved node) and used in turn, `.meta` taken afresh at each use; "
        "preferably through the wrapper that has not seen the latest changes, removing what it attached itself. To the model every "
        "such sub-operation is one `meta` operation with a newly opened handle. Further (ctr_multi.py): histories whose node names are "
        "STRING-PREFIX related at every level (a / a1 / a10 / ab, img / img2, run1 / run10 ...; groups and datasets side by side, "
        "metadata on several of them, then move / copy / delete of one of them inside a random history over the same alphabet) - "
        "ordinary cases of the model; and histories over 2-3 OPEN CONTAINERS (h5py.File / IH5Record, also mixed) with copies whose "
        "source is a node object of ANOTHER container (datasets / groups, with / without metadata, metadata only below the group, "
        "schemas in use / not in use in the receiving container, refused copies onto taken names, reopen / patch boundaries of "
        "either container in between) - the model has one container, so these are judged by the direct oracle alone (Sync on the raw "
        "tree of every container and rebuilt-vs-live index after every operation; no model lines)."))
    ctx.assumptions.append("copies between containers are outside the Lean model (one container): checked on the real code by the "
                           "oracle only, tagged `xcopy-*`")


def signature(case, detail):
    return C.signature(ID, case, detail)


def shrink(ctx, case, detail):
    if case.get("multi"):
        return X.shrink(ctx, ID, MOD, case, detail)
    return C.shrink(ctx, ID, MOD, case, detail)


def search(ctx):
    """more seeds, oracle only: the shared histories, then the C06-only ones"""
    from .. import core, pool

    found = C.search(ctx, ID, MOD)
    if found:
        return found
    for k in range(1, 3):
        sub = core.Ctx(ID, "quick", ctx.seed + 104729 * k)
        cases = extra_cases(sub, 60)
        res = pool.run(MOD, "impl", cases, timeout=240)
        ctx.search_log.append("seed %d: %d prefix-name / several-container histories, oracle only" % (sub.seed, len(cases)))
        for c, r in zip(cases, res):
            if "ok" in r and r["ok"]["oracle"]:
                return shrink(ctx, c, r["ok"]["oracle"][0])
            if "timeout" in r:
                return c, {"kind": "does-not-terminate"}
    return None


def replay(ctx, rep):
    case = rep.get("case")
    if case and case.get("multi"):
        from .. import core, pool

        r = pool.run_one(MOD, "impl", case, timeout=240)
        if "ok" in r:
            print("implementation (several containers, oracle only): status/oracle:", r["ok"]["out"], core.canon(r["ok"]["oracle"])[:3000])
        else:
            print("implementation:", core.canon(r)[:2000])
        return 1 if ("ok" in r and r["ok"]["oracle"]) or "timeout" in r else 0
    return C.replay(ctx, ID, MOD, rep)
