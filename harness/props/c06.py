"""C06 — see ctr_common.py (shared generator, real-code runner, oracles, model lines)."""
from . import ctr_common as C

ID = "C06"
MOD = "harness.props.c06"
T = "MetadorModel.C06."
B = "MetadorModel.Bridge.TocFns."  # translated tie (harness/translate_c06.py)
LEAN = dict(
    modules=["MetadorModel.Props.C06", "MetadorModel.Bridge.TocFnsPaths", "MetadorModel.Bridge.TocFnsPkg", "MetadorModel.Bridge.TocFnsSchemas", "MetadorModel.Bridge.TocFnsLinks", "MetadorModel.Bridge.TocFnsMeta", "MetadorModel.Bridge.TocFnsWrap", "MetadorModel.Bridge.TocFnsInv"],
    theorems=[T + n for n in (
        "link_points_to_object",
        "object_attached_to_node",
        "object_has_exactly_one_link",
        "uuids_unique",
        "schema_records_exact",
        "package_records_exact",
        "toc_shape",
        "no_empty_bookkeeping_groups",
        "sync_of_inv",
        "sync_init",
        "sync_meta",
        "sync_create_group",
        "sync_create_dataset",
        "sync_delete",
        "sync_reopen",
        "sync_copy",
        "sync_move",
        "cache_coherent",
        "sync_step",
        "sync_run",
        "sync_reachable",
        "sync_step_needs_names",
        "env3_wf",
        "hist1_obj",
    )] + [B + n for n in (
        "gen_pkginfo_path_for",
        "gen_schema_path_for",
        "gen_jsonschema_path_for",
        "gen_link_path_for",
        "gen_to_path",
        "gen_add_providers",
        "gen_pkg_register",
        "gen_pkg_register_closed",
        "gen_pkg_unregister",
        "gen_pkg_init",
        "gen_upc_add",
        "gen_upc_remove",
        "gen_schema_register",
        "gen_schema_unregister",
        "gen_schemas_init",
        "gen_links_init",
        "gen_link_resolve",
        "gen_link_update",
        "gen_link_register",
        "gen_link_unregister",
        "gen_find_missing",
        "gen_repair_missing",
        "gen_set_raw",
        "gen_del_raw",
        "gen_destroy",
        "gen_setitem",
        "gen_delitem",
        "gen_meta_init",
        "gen_guard_path",
        "gen_node_destroy_meta",
        "gen_group_destroy_meta",
        "gen_group_delitem",
        "gen_group_move",
        "gen_group_copy",
        "PkgTreeOK.of_inv",
        "LinkTreeOK.of_inv",
        "MetaDirOK.of_inv",
    )],
    drivers=["drv_ctr"],
)


translate = C.translate


def impl(case):
    return C.impl_for(ID, case)


env_info = C.env_info
lines = C.lines


def run(ctx):
    C.run_prop(ctx, ID, MOD, rule_extra=(
        "C06 only: about 60 % of the metadata operations go through HELD NODE WRAPPERS (op `hmeta`, `ctr_common.add_wrappers`): several "
        "live wrappers of one node, obtained by different navigation routes (mc[path], get, segment by segment, parent of a child, "
        "values() of the parent, visititems, query results, the container object itself for the root), kept across later operations "
        "(incl. move / copy / delete of the node; h5py handles follow a moved node) and used in turn, `.meta` taken afresh at each use; "
        "preferably through the wrapper that has not seen the latest changes, removing what it attached itself. To the model every "
        "such sub-operation is one `meta` operation with a newly opened handle."))


def signature(case, detail):
    return C.signature(ID, case, detail)


def shrink(ctx, case, detail):
    return C.shrink(ctx, ID, MOD, case, detail)


def search(ctx):
    return C.search(ctx, ID, MOD)


def replay(ctx, rep):
    return C.replay(ctx, ID, MOD, rep)
