"""C03 — Closing and reopening a record reproduces exactly the same view; open-mode contract.

Lean: Model/FindFiles.lean, Model/Record.lean, Proofs/Record*.lean, Props/C03.lean; driver drv_rec.
Three case families, all on REAL records in a temporary directory (runner shared with c02.py):

* reopen — random API history, close(), then probes: reopen by name in r / r+ / a and by the
  explicit file list in every permutation (<= 4 files; otherwise 20 random ones) in r / r+ / a.
  ORACLE: the dump after each reopen equals the dump before the close; a probe in mode r
  changes no file.  CORRESPONDENCE: every line vs. the record model (outcome, handle,
  listing, rewritten files, visible writes).
* mode — the table 6 modes x 5 on-disk situations x both classes, in a directory that also
  holds the records fo, foo2 and foo-bar.  ORACLE: the contract sentences of the property.
  CORRESPONDENCE: the model's `openRec` and the follow-up calls.
* find — `find_files`, `list_records`, `_is_valid_record_name` on generated directory
  listings with prefix-related names vs. `FindFiles.findFiles/listRecords/isValidName`.
  ORACLE: brute-force reading of the naming convention.
* ub — the user-block codec: blocks written by the real `IH5UserBlock.save` (plain, manifest
  extension, further `ub_exts` content of any size that fits, over zeros or over an older block)
  and hand-made malformed heads; `IH5UserBlock.load` vs. `UBlock.loadText` (the text handed to
  `json.loads`, or the error class).  ORACLE: what `save` accepted loads again, equal.

Record names: the mode table and the fixed chains run on foo next to fo / foo2 / foo-bar; a second mode table, half
of the random histories, half of the long chains and half of the find listings run on GENERATED names — drawn from
the whole legal alphabet, with beginnings / endings made of what file names consist of besides the record name
(characters and fragments of `.ih5`, `.p<n>`, `mf.json`: i h 5 p ih5 p1 p10 -p1 digits '-') — next to
prefix-related neighbours of those names (`gen_family`).  Long chains: records with 10..12 patches (file names
`<name>.p10.ih5`..: two-digit patch numbers) in every mode on the patched record, `w` on the uncommitted patch,
after `delete_files`, and as reopen histories (close + reopen; `w` + write + close + reopen; delete_files + create
+ write + close + reopen).  A handle opened by the record's name is judged as the record whatever files it found.

Writes of the histories are datasets, groups, root attributes or attributes of an existing child
(`["write", k, kind]`); record classes are IH5Record / IH5MFRecord and subclasses of both that
store extra content in the documented `ub_exts` section of the user block on commit (`p+<n>` /
`m+<n>`: n bytes) — for the record model they are the plain / manifest class.
"""
import itertools
import os
import re
import shutil
import tempfile

from .. import core, lean
from . import c02

ID = "C03"
MOD = "harness.props.c03"
T = "MetadorModel.C03."
B = "MetadorModel.Bridge.FindFilesFns."
LEAN = dict(
    modules=["MetadorModel.Props.C03", "MetadorModel.Bridge.FindFilesFnsName", "MetadorModel.Bridge.FindFilesFnsValid",
             "MetadorModel.Bridge.FindFilesFns", "MetadorModel.Bridge.FindFilesFnsInit"],
    theorems=[T + n for n in [
        "open_r_pure", "open_r_refuses_patching", "open_rplus_continues", "open_rplus_new_patch",
        "open_a_creates_when_absent", "open_w_replaces", "open_x_refuses_existing", "open_x_creates_when_absent",
        "open_missing_r_fails", "sortByIdx_perm_invariant", "open_accepts_any_order", "open_yields_coherent",
        "reopen_same_view", "coherent_along_histories", "reopen_same_view_history", "discard_returns_to_commit",
        "findFiles_exact", "findFiles_disjoint", "ub_text_roundtrip", "ub_text_roundtrip_inplace", "probe_alone_truncates"]]
    # translated tie (Gen/FindFilesFns.lean is regenerated from the source on every run, see translate_c03.py)
    + [B + n for n in [
        "gen_constants", "gen_is_valid_record_name", "gen_infer_name", "gen_find_files", "gen_find_files_interp_plain",
        "gen_next_patch_filepath", "gen_createPatch_path", "gen_init"]],
    drivers=["drv_rec"],
)


def translate(ctx):
    """regenerate Gen/FindFilesFns.lean from the current source (`_is_valid_record_name`, `_infer_name`,
    `find_files`, `_next_patch_filepath`, the mode dispatch of `__init__`, `OpenMode`)"""
    from .. import translate_c03
    try:
        # a function that cannot be translated is left out of the generated file (the others stay), then
        # TranslateError is raised: only the bridge modules about that function fail to build
        return translate_c03.write(lean)
    except translate_c03.TranslateError:
        raise
    except Exception as e:  # noqa: BLE001
        # leave no text of an earlier run (possibly of another tree) behind
        translate_c03.write_stub(lean, "%s: %s" % (type(e).__name__, e))
        raise


hx = c02.hx
MODES = ["r", "r+", "a", "w", "w-", "x"]
SITS = ["absent", "ubase", "cbase", "patched", "upatch"]
OTHERS = c02.OTHERS


# ----------------------------------------------------------------------------- names
# the legal record-name alphabet (`_ALLOWED_NAME_CHARS`)
NAME_CHARS = "abcdefghijklmnopqrstuvwxyzABCDEFGHIJKLMNOPQRSTUVWXYZ0123456789-"
# what file names are made of besides the record name: characters and fragments of the file extension, of the
# patch infix, of patch numbers and of the sidecar suffix — all of them legal inside a record name
EDGE = ["i", "h", "5", "p", "ih5", "h5", "p1", "p2", "p10", "-p1", "-ih5", "pih5", "-", "0", "1", "9", "10", "12",
        "I", "H", "P", "IH5", "mf", "json", "ih5mf"]
VALID_NAME = re.compile(r"^[A-Za-z0-9\-]+$")


def gen_name(rng):
    """a legal record name: drawn from the whole alphabet, mostly with an adversarial beginning and / or ending"""
    body = "".join(rng.choice(NAME_CHARS) for _ in range(rng.randrange(0, 6)))
    r = rng.random()
    if r < 0.45:
        name = body + rng.choice(EDGE)
    elif r < 0.6:
        name = rng.choice(EDGE) + body
    elif r < 0.78:
        name = rng.choice(EDGE) + body + rng.choice(EDGE)
    elif r < 0.9:
        name = rng.choice(EDGE)  # the name is such a fragment
    else:
        name = body or rng.choice(NAME_CHARS)
    return name[:12]


# the names the history generator of c02.py uses: the record, its prefix-related neighbours, merge targets
FAMILY_KEYS = ["foo"] + list(c02.OTHERS) + ["bar", "foo3", "fo-o", "ba"]


def gen_family(rng):
    """a record name N with prefix-related neighbours shaped like foo / fo, foo2, foo-bar (+ the merge targets
    bar, foo3, fo-o, ba of the history generator): a mapping from those names to the generated ones"""
    while True:
        n = gen_name(rng)
        t = gen_name(rng)
        short = n[:-1] if len(n) > 1 else n + rng.choice(EDGE)
        fam = {"foo": n, "fo": short, "foo2": n + rng.choice(["2", "5", "0", "i", "h", "p", "p1", "ih5", "P"]),
               "foo-bar": n + "-" + rng.choice(["bar", "p1", "ih5", "5", "", "p"]),
               "bar": t, "foo3": n + rng.choice(["3", "p2", "h5", "-3"]), "fo-o": short + "-" + rng.choice("o5hip"),
               "ba": t[:-1] if len(t) > 1 else t + "a"}
        vals = list(fam.values())
        if len(set(vals)) == len(vals) and all(VALID_NAME.match(v) and len(v) <= 16 for v in vals) and "nope" not in vals:
            return fam


def rename_ops(ops, mp):
    """the same history on other record names (`mp`: name -> name, injective); file names follow their record"""
    def ren(s):
        i = s.find(".")
        stem, rest = (s, "") if i < 0 else (s[:i], s[i:])
        return mp.get(stem, stem) + rest
    out = []
    for o in ops:
        o = list(o)
        if o[0] == "open":
            o[4] = ren(o[4]) if o[3] == "n" else [ren(a) for a in o[4]]
            kw = c02.open_kw(o)
            if kw.get("mf"):
                o[-1] = dict(kw, mf=ren(kw["mf"]))
        elif o[0] in ("merge", "delete"):
            o[1] = ren(o[1])
        out.append(o)
    return out


def name_tags(name):
    tags = []
    if name != "foo":
        tags.append("generated-name")
        if name[-1] in "ih5p":
            tags.append("name-ends-in-extension-char")
        if name[-1].isdigit():
            tags.append("name-ends-in-digit")
        if name[0] in "ih5p-" or name[0].isdigit():
            tags.append("name-starts-with-extension-char-or-digit")
        if any(x in name for x in ("ih5", "p1", "p2", "p10")):
            tags.append("name-contains-file-name-fragment")
    return tags


# ----------------------------------------------------------------------------- case builders
def others_setup(c, k0=1000, others=None):
    ops = []
    k = k0
    for n in (OTHERS if others is None else others):
        ops += [["open", c, "x", "n", n], ["write", k], ["commit"], ["create"], ["write", k + 1], ["close", 1]]
        k += 2
    return ops


W = c02.write_op


def situation_ops(c, sit, name="foo", wk="d", npatch=1):
    """`wk`: what the patches contain (dataset / group / root attribute / attribute of a child); `npatch`: number of
    committed patches of the situations patched / upatch / deleted (patch indices >= 10 need npatch >= 10)"""
    if sit == "absent":
        return []
    ops = [["open", c, "x", "n", name], ["write", 1]]
    if sit == "ubase":
        return ops + [["close", 0]]
    ops += [["commit"]]
    if sit == "cbase":
        return ops + [["close", 1]]
    for k in range(2, npatch + 2):
        ops += [["create"], W(k, wk), ["commit"]]
    if sit == "patched":
        return ops + [["close", 1]]
    if sit == "deleted":  # a patched record removed again with `delete_files`: absent
        return ops + [["close", 1], ["delete", name]]
    return ops + [["create"], W(npatch + 2, wk), ["close", 0]]


def follow_ops(wk="d"):
    return [["read"], ["create"], W(50, wk), ["read"], ["discard"], ["read"], ["commit"], ["close", 1]]


FOLLOW = follow_ops()


def mode_case(c, oc, sit, mode, by="n", wk="d", name="foo", others=None, npatch=1, wc=None):
    """`c` probes; `oc` wrote the other records, `wc` (default `c`) the record itself"""
    wc = wc or c
    pre = others_setup(oc, others=others) + situation_ops(wc, sit, name=name, wk=wk, npatch=npatch)
    probe = ["open", c, mode, "n", name, "probe"]
    post = follow_ops(wk) + [["open", c, "r", "n", name], ["read"], ["close", 1]]
    case = dict(kind="mode", cls=c, ocls=oc, sit=sit, mode=mode, wk=wk, ops=pre + [probe] + post, probe=len(pre))
    if wc != c:
        case["wcls"] = wc
    if name != "foo":
        case["name"] = name
    if others is not None:
        case["others"] = list(others)
    if npatch != 1:
        case["npatch"] = npatch
    return case


def mode_rebuild(case, **kw):
    """the mode case with some parameters replaced"""
    p = dict(c=case["cls"], oc=case["ocls"], sit=case["sit"], mode=case["mode"], wk=case.get("wk", "d"), name=case.get("name", "foo"),
             others=case.get("others"), npatch=case.get("npatch", 1), wc=case.get("wcls"))
    p.update(kw)
    return mode_case(**p)


def reopen_case(rng, history, c, name, commit, nfiles_guess, perms=None):
    """`perms`: number of sampled permutations of the file list (default: all of them up to 4 files)"""
    ops = [list(o) for o in history] + [["close", 1 if commit else 0]]
    at = len(ops) - 1
    probes = []
    for m in ("r", "r+", "a"):
        probes += [["open", c, m, "n", name, "probe"], ["read"], ["restore"]]
    if perms is not None:
        seeds = [rng.randrange(0, 10 ** 9) for _ in range(perms)]
    elif nfiles_guess <= 4:
        seeds = list(range(24 if nfiles_guess == 4 else (6 if nfiles_guess == 3 else 2)))
    else:
        seeds = [rng.randrange(0, 10 ** 9) for _ in range(20)]
    for sd in seeds:
        for m in (("r", "r+", "a") if nfiles_guess <= 3 or sd % 3 == 0 else ("r", rng.choice(["r+", "a"]))):
            probes += [["openperm", c, m, sd], ["read"], ["restore"]]
    return dict(kind="reopen", ops=ops + probes, close_at=at, name=name)


# ----------------------------------------------------------------------------- real code
def is_name_char(ch):
    return ("A" <= ch <= "Z") or ("a" <= ch <= "z") or ("0" <= ch <= "9") or ch == "-"


def belongs_to(fn, name):
    return fn.startswith(name) and len(fn) > len(name) and not is_name_char(fn[len(name)])


def mode_oracle(case, recs):
    """the contract sentences of the property, read off the per-call records"""
    hits = []
    i = case["probe"]
    r = recs[i]
    sit, mode = case["sit"], case["mode"]
    name = case.get("name", "foo")
    npatch = case.get("npatch", 1)
    base = name + ".ih5"
    ops = case["ops"]
    b, a = r["before"], r["after"]
    new = sorted(set(a) - set(b))
    gone = sorted(set(b) - set(a))
    chg = r["chg"]
    mine_before = sorted(f for f in b if belongs_to(f, name))

    def hit(kind, **kw):
        hits.append(dict(kind=kind, sit=sit, mode=mode, cls=case["cls"], name=name, **kw))

    # files of the other (prefix-related) records are never touched by anything done to the record
    for j in range(i, len(recs)):
        rb, ra = recs[j]["before"], recs[j]["after"]
        for f in rb:
            if not belongs_to(f, name) and (f not in ra or ra[f][0] != rb[f][0]):
                hit("other-record-touched", file=f, step=j - i)
    exists = sit not in ("absent", "deleted")
    expect = "ok"
    if not exists and mode in ("r", "r+"):
        expect = "FileNotFoundError"
    if exists and mode in ("x", "w-"):
        expect = "FileExistsError"
    if r["out"] != expect:
        hit("open-outcome", expected=expect, got=r["out"])
        return hits
    if expect != "ok":
        if new or gone or chg:
            hit("refused-open-changed-files", new=new, gone=gone, chg=chg)
        return hits
    writable = "rw=1" in r["h"]
    files = r.get("files") or []
    committed_before = sorted(f for f in mine_before if b[f][1] == "c")
    if exists and mode in ("r", "r+", "a") and i >= 2 and ops[i - 1][0] == "close" and recs[i - 1]["out"] == "ok" \
            and recs[i - 2].get("full") is not None and r.get("full") != recs[i - 2]["full"]:
        # after close(), reopening the record by name shows the identical tree
        hit("reopen-different-view", how="name", before=recs[i - 2]["full"], after=r.get("full"))
    if mode == "r":
        if new or gone or chg:
            hit("r-open-changed-files", new=new, gone=gone, chg=chg)
        if writable or "allow=1" in r["h"]:
            hit("r-open-writable")
        for j, op in enumerate(FOLLOW):
            rr = recs[i + 1 + j]
            if op[0] in ("create", "write", "discard", "commit") and rr["out"] == "ok":
                hit("r-allows-" + op[0])
            if set(rr["before"]) != set(rr["after"]) or rr["chg"]:
                hit("r-handle-changed-files", op=op[0])
        if sorted(files) != sorted(f for f in mine_before if f.endswith(".ih5")):
            hit("r-open-wrong-file-set", files=files)
    elif mode in ("r+", "a") and exists:
        if not writable:
            hit("rw-open-not-writable")
        if gone or any(f in chg for f in committed_before):
            hit("rw-open-damaged-files", gone=gone, chg=chg)
        if sit in ("ubase", "upatch"):
            if new:
                hit("continue-created-files", new=new)
            if sorted(files) != sorted(f for f in mine_before if f.endswith(".ih5")):
                hit("continue-wrong-file-set", files=files)
        else:
            if len(new) != 1:
                hit("new-patch-count", new=new)
            elif sorted(files) != sorted([f for f in mine_before if f.endswith(".ih5")] + new):
                hit("new-patch-wrong-file-set", files=files, new=new)
    elif not exists:  # a / w / w- / x on an absent record: create it
        if new != [base] or gone or chg:
            hit("create-when-absent", new=new, gone=gone, chg=chg)
        if not writable or r["view"] != "":
            hit("created-record-state", h=r["h"], view=r["view"])
    elif mode == "w":
        left = sorted(f for f in a if belongs_to(f, name) and f.endswith(".ih5"))
        if left != [base] or files != [base]:
            hit("w-did-not-replace", left=left, files=files)
        if r["view"] != "" or not writable:
            hit("w-record-not-fresh", view=r["view"], h=r["h"])
        if base in b and a[base][0] == b[base][0]:
            hit("w-kept-old-base")
    # discard_patch returns the view to the last commit
    if mode in ("r+", "a") and sit in ("cbase", "patched", "upatch"):
        wk = case.get("wk", "d")
        want = c02.expected_dump([(1, "d")] if sit == "cbase" else [(1, "d")] + [(k, wk) for k in range(2, npatch + 2)])
        rd = recs[i + 1 + 4]
        if rd["out"] != "ok":
            hit("discard-refused", got=rd["out"])
        elif rd.get("full") != want:
            hit("discard-not-last-commit", got=rd.get("full"), want=want)
        elif sorted(set(rd["after"])) != sorted(set(b) - ({"%s.p%d.ih5" % (name, npatch + 1)} if sit == "upatch" else set())):
            hit("discard-removed-wrong-file", before=sorted(b), after=sorted(rd["after"]))
    # the record as the handle left it (replaced, created, continued, patched): after close(), reopening it by
    # name shows the identical tree
    jc = i + len(FOLLOW)  # the close of the follow-up calls; then open r by name, read, close
    if len(recs) > jc + 1 and ops[jc][0] == "close" and ops[jc + 1][0] == "open" and recs[jc]["out"] == "ok" \
            and recs[jc - 1].get("full") is not None:
        ro = recs[jc + 1]
        if ro["out"] != "ok":
            hit("reopen-failed", how="name", after="close of the handle opened with " + mode, got=ro["out"])
        elif ro.get("full") != recs[jc - 1]["full"]:
            hit("reopen-different-view", how="name", after="close of the handle opened with " + mode, before=recs[jc - 1]["full"], after_reopen=ro.get("full"))
    return hits


def reopen_oracle(case, recs):
    hits = []
    at = case["close_at"]
    if at < 1 or recs[at]["out"] != "ok" or recs[at - 1].get("full") is None:
        return hits, False
    want = recs[at - 1]["full"]
    ops = case["ops"]
    judged = False
    # a handle on an explicit selection of the record's files (e.g. an older commit state) is not what a reopen
    # by name shows, and patching it is not "continue or start a new patch of the record": only the reopen of
    # *its* file list, read-only, is judged then
    name = case.get("name", "foo")
    mine = sorted(f for f in recs[at]["before"] if belongs_to(f, name) and f.endswith(".ih5"))
    selection = sorted(recs[at - 1].get("files") or []) != mine
    # (a handle opened by the record's name is the record, whatever files it found or made)
    opened = [j for j in range(at) if ops[j][0] in ("open", "openperm") and recs[j]["out"] == "ok"]
    if opened and ops[opened[-1]][0] == "open" and ops[opened[-1]][3] == "n" and ops[opened[-1]][4] == name:
        selection = False
    for j in range(at + 1, len(ops)):
        op = ops[j]
        if op[0] not in ("open", "openperm"):
            continue
        r = recs[j]
        mode = op[2]
        if selection and (op[0] == "open" or mode != "r"):
            continue
        judged = True
        how = "name" if op[0] == "open" else "perm%d" % op[3]
        if r["out"] != "ok":
            hits.append(dict(kind="reopen-failed", how=how, mode=mode, got=r["out"]))
            continue
        if r.get("full") != want:
            hits.append(dict(kind="reopen-different-view", how=how, mode=mode, before=want, after=r.get("full")))
        new = sorted(set(r["after"]) - set(r["before"]))
        gone = sorted(set(r["before"]) - set(r["after"]))
        if mode == "r" and (new or gone or r["chg"]):
            hits.append(dict(kind="reopen-r-changed-files", how=how, new=new, gone=gone, chg=r["chg"]))
        if mode != "r" and (gone or len(new) > 1 or any(r["before"][f][1] == "c" for f in r["chg"])):
            hits.append(dict(kind="reopen-rw-damaged-files", how=how, mode=mode, new=new, gone=gone, chg=r["chg"]))
    return hits, judged


def find_impl(case):
    from pathlib import Path
    from metador_core.ih5.record import IH5Record

    d = tempfile.mkdtemp(prefix="vt_find_")
    out, oracle, tags = [], [], []
    try:
        listing = case["listing"]
        for fn in listing:
            with open(os.path.join(d, fn), "wb") as f:
                f.write(b"x")
        for q in case["queries"]:
            valid = IH5Record._is_valid_record_name(q)
            out.append("T" if valid else "F")
            strict = bool(q) and all(is_name_char(ch) for ch in q)
            if strict and not valid:
                oracle.append(dict(kind="valid-name-rejected", name=q))
            try:
                found = sorted(p.name for p in IH5Record.find_files(Path(d) / q))
                out.append("found " + ",".join(hx(x) for x in sorted(found, key=lambda s: s.encode())))
                if strict:
                    exp = sorted(f for f in listing if belongs_to(f, q) and f.endswith(".ih5"))
                    if found != exp:
                        oracle.append(dict(kind="find-files-not-exact", name=q, got=found, expected=exp, listing=listing))
                    # canonical files of other valid names are never picked up
                    for f in found:
                        m = re.match(r"^([A-Za-z0-9\-]+)(\.p[0-9]+)?\.ih5$", f)
                        if m and m.group(1) != q:
                            oracle.append(dict(kind="find-files-picks-other-record", name=q, file=f))
                    if len(found) > 1:
                        tags.append("find>1")
                    if any(f.startswith(q) and f not in found for f in listing):
                        tags.append("prefix-related-rejected")
            except ValueError:
                out.append("ValueError")
                tags.append("invalid-name")
        recs = sorted(p.name for p in IH5Record.list_records(Path(d)))
        out.append("records " + ",".join(hx(x) for x in sorted(recs, key=lambda s: s.encode())))
        exp = set()
        for f in listing:
            m = re.match(r"^([A-Za-z0-9\-]+)[^A-Za-z0-9\-]", f)
            if m and f.endswith(".ih5"):
                exp.add(m.group(1))
        if set(recs) != exp:
            oracle.append(dict(kind="list-records-not-exact", got=recs, expected=sorted(exp), listing=listing))
        for fq in case.get("infer", []):
            out.append("name " + hx(IH5Record._infer_name(Path(d) / fq)))
    finally:
        shutil.rmtree(d, ignore_errors=True)
    return dict(out=out, oracle=oracle, tags=tags)


# ----------------------------------------------------------------------------- user-block codec
HEAD = 1024
PAYLOAD = bytes([0x89]) + b"HDF\r\n\x1a\n" + bytes(range(40))


def _hex64(x):
    return "%064x" % x


def ub_object(spec):
    """the IH5UserBlock a spec describes (all field values come from the spec)"""
    from uuid import UUID
    from metador_core.ih5.record import IH5UserBlock
    exts = {}
    if spec.get("mf"):
        exts["ih5mf_v01"] = dict(is_stub_container=bool(spec.get("stub")), manifest_uuid=str(UUID(int=spec["u"][3])),
                                 manifest_hashsum="sha256:" + _hex64(spec["u"][4]))
    if spec.get("pad") is not None:
        exts["vt_ext"] = dict(pad=spec["pad"])
    return IH5UserBlock(record_uuid=UUID(int=spec["u"][0]), patch_index=spec["idx"], patch_uuid=UUID(int=spec["u"][1]),
                        prev_patch=UUID(int=spec["u"][2]) if spec.get("prev") else None,
                        hdf5_hashsum=("sha256:" + _hex64(spec["u"][5])) if spec.get("hash") else None, ub_exts=exts)


def ub_make(spec):
    """Pre-pass (real code): the bytes of a small file after `IH5UserBlock.save` (spec t=save: over zeros, or
    over an older block `old` saved first), or hand-made bytes (t=raw). Returns the `ub` case."""
    if spec["t"] == "raw":
        return dict(kind="ub", hex=spec["hex"], saved=None, how="raw", label=spec.get("label", ""))
    d = tempfile.mkdtemp(prefix="vt_ub_")
    try:
        path = os.path.join(d, "c.ih5")
        with open(path, "wb") as f:
            f.write(b"\x00" * HEAD + PAYLOAD)
        how = "save"
        if spec.get("old"):
            try:
                ub_object(spec["old"]).save(path)
                how = "save-over-%s" % ("longer" if len(ub_object(spec["old"]).json()) > len(ub_object(spec).json()) else "shorter")
            except AssertionError:
                how = "save-over-refused"
        saved = None
        try:
            ub = ub_object(spec)
            ub.save(path)
            saved = ub.json()
        except AssertionError:
            how += ":refused-too-long"
        except Exception as e:  # noqa: BLE001 - recorded, the block on disk is then whatever was there
            how += ":save-raised-" + type(e).__name__
        with open(path, "rb") as f:
            data = f.read()
        return dict(kind="ub", hex=data.hex(), saved=saved, how=how)
    finally:
        shutil.rmtree(d, ignore_errors=True)


def ub_impl(case):
    """`IH5UserBlock.load` on the bytes of the case; the text it hands to `json.loads` is observed."""
    import json as _json
    from metador_core.ih5.record import IH5UserBlock
    d = tempfile.mkdtemp(prefix="vt_ub_")
    out, oracle, tags = [], [], ["ub:" + case.get("how", "")]
    seen = []
    orig = _json.loads

    def spy(text, *a, **kw):
        if not seen:
            seen.append(text)
        return orig(text, *a, **kw)
    try:
        path = os.path.join(d, "c.ih5")
        with open(path, "wb") as f:
            f.write(bytes.fromhex(case["hex"] or ""))
        ret, err = None, None
        _json.loads = spy
        try:
            ret = IH5UserBlock.load(path)
        except BaseException as e:  # noqa: BLE001
            err = e
        finally:
            _json.loads = orig
        text = seen[0] if seen else (ret.json() if ret is not None else None)
        if text is not None and isinstance(text, (bytes, bytearray)):
            text = text.decode("utf-8", "replace")
        if text is not None:
            out.append("text " + (text.encode("utf-8").hex() or "-"))
        elif isinstance(err, UnicodeDecodeError):
            out.append("err outside")
        elif isinstance(err, AssertionError):
            out.append("err AssertionError")
        elif isinstance(err, ValueError):
            out.append("err ValueError")
        else:
            out.append("err " + type(err).__name__)
        saved = case.get("saved")
        if saved is not None:
            # the block on disk is one `save` accepted: it is the user block of a container, the record
            # holding it reopens only if it loads again — with the same content
            tags.append("ub:text>499" if len(saved) > 499 else "ub:text<=499")
            if err is not None:
                oracle.append(dict(kind="ub-roundtrip", how=case.get("how"), saved_len=len(saved), error=type(err).__name__, msg=str(err)[:160]))
            elif ret.json() != saved or ret._userblock_size != HEAD:
                oracle.append(dict(kind="ub-roundtrip", how=case.get("how"), saved_len=len(saved), loaded=ret.json()[:200], size=ret._userblock_size))
        else:
            tags.append("ub:" + out[0].split(" ")[0] + ("" if text is not None else ":" + out[0].split(" ")[1]))
    finally:
        _json.loads = orig
        shutil.rmtree(d, ignore_errors=True)
    return dict(out=out, oracle=oracle, tags=tags)


PAD_ALPHABET = "abcxyz0189 _-.:/{}[],"


def gen_pad(rng, n):
    s = "".join(rng.choice(PAD_ALPHABET) for _ in range(n))
    if n >= 4 and rng.random() < 0.2:
        # characters `json()` escapes (the text on disk stays ASCII without newline)
        i = rng.randrange(0, n - 3)
        s = s[:i] + rng.choice(['"', "\\", "\n", "\u00e4", "\t"]) + s[i + 1:]
    return s


def gen_ub_spec(rng, old_ok=True):
    mf = rng.random() < 0.5
    # length classes of the JSON text: short, around the 512-byte probe (text 499 = 512 - 13 header bytes),
    # long, around the limit of the reserved block (text 1010), too long
    base = 287 + 21 + (193 + 2 if mf else 0)
    cls = rng.choice(["none", "short", "probe", "probe", "long", "long", "limit", "toolong"])
    if cls == "none":
        pad = None
    else:
        target = dict(short=rng.randrange(min(base, 479), 480), probe=rng.randrange(484, 530), long=rng.randrange(530, 990),
                      limit=rng.randrange(995, 1016), toolong=rng.randrange(1016, 1200))[cls]
        pad = gen_pad(rng, max(0, target - base))
    spec = dict(t="save", mf=mf, stub=mf and rng.random() < 0.1, prev=rng.random() < 0.7, hash=rng.random() < 0.8,
                idx=rng.choice([0, 1, 2, 9, 10, 123]), pad=pad, u=[rng.getrandbits(128) for _ in range(4)] + [rng.getrandbits(256) for _ in range(2)])
    if old_ok and rng.random() < 0.45:
        spec["old"] = gen_ub_spec(rng, old_ok=False)
    return spec


def gen_ub_raw(rng):
    """hand-made heads: the malformed stream and odd-but-legal framings"""
    magic = rng.choice(["ih5_v01"] * 6 + ["ih5_v02", "IH5_v01", "", "ih5_v01 "])
    size = rng.choice(["1024"] * 4 + ["512", "513", "511", "0", "600", "2048", "4096", " 1024", "1024 ", "1_024", "+1024", "-1", "abc", "", "1e3", "10 24", "0x400"])
    body = ub_spec_text(rng)
    cut = rng.choice(["nul", "nul", "nul", "none", "early", "newline", "highbit"])
    if cut == "nul":
        data = body + b"\x00"
    elif cut == "none":
        data = body
    elif cut == "early":
        i = rng.randrange(0, len(body) + 1)
        data = body[:i] + b"\x00" + body[i:]
    elif cut == "newline":
        i = rng.randrange(0, len(body) + 1)
        data = body[:i] + b"\n" + body[i:] + b"\x00"
    else:
        i = rng.randrange(0, len(body) + 1)
        data = body[:i] + bytes([rng.randrange(128, 256)]) + body[i:] + b"\x00"
    head = magic.encode() + b"\n" + size.encode() + b"\n" + data
    fill = rng.choice([b"\x00", b"\x00", b"z", b"}"])
    total = rng.choice([HEAD, HEAD, 2048, 512, 300, len(head)])
    raw = head + fill * max(0, total - len(head)) + (PAYLOAD if rng.random() < 0.7 else b"")
    return dict(t="raw", hex=raw.hex(), label="%s/%s/%s" % (magic == "ih5_v01", size, cut))


def ub_spec_text(rng):
    """some JSON-looking ASCII text of a length class (content is irrelevant for the framing)"""
    n = rng.choice([0, 1, 50, 300, 480, 497, 498, 499, 500, 501, 511, 512, 600, 900, 1009, 1010, 1011, 1500])
    return ('{"record_uuid": "' + gen_pad(rng, n)).encode("ascii", "replace")[:n].replace(b"\n", b" ").replace(b"\x00", b" ")


def gen_ub_cases(ctx, n_save, n_raw):
    """the pre-pass runs the real `save` (pool) so that the cases carry plain bytes"""
    from .. import pool
    rng = ctx.rng
    specs = [gen_ub_spec(rng) for _ in range(n_save)] + [gen_ub_raw(rng) for _ in range(n_raw)]
    res = pool.run(MOD, "ub_make", specs, timeout=60)
    cases = []
    for sp, r in zip(specs, res):
        if "ok" not in r:
            raise lean.InfraError("ub_make failed on %s: %s" % (core.canon(sp)[:200], core.canon(r)[:300]))
        cases.append(r["ok"])
    return cases


def impl(case):
    kind = case["kind"]
    if kind == "find":
        return find_impl(case)
    if kind == "ub":
        return ub_impl(case)
    recs, c02hits = c02.run_ops(case["ops"])
    oracle = []
    tags = []
    if kind == "mode":
        oracle += mode_oracle(case, recs)
        tags.append("mode:%s:%s:%s" % (case["cls"], case["sit"], case["mode"]))
        if case.get("npatch", 1) >= 10 or case.get("name"):
            tags.append("mode:%s:%s:%s%s" % (case["sit"], case["mode"], "patch-index>=10" if case.get("npatch", 1) >= 10 else "",
                                             ":generated-name" if case.get("name") else ""))
        tags += ["mode:" + t for t in name_tags(case.get("name", "foo"))]
    elif kind == "reopen":
        hits, judged = reopen_oracle(case, recs)
        oracle += hits
        if judged:
            at = case["close_at"]
            n = len(recs[at - 1].get("files") or [])
            tags.append("reopen-%d-files" % min(n, 5))
            if n >= 11:
                tags.append("reopen-patch-index>=10")
            if case.get("fam"):
                tags.append("reopen-" + case["fam"])
            tags += ["reopen-" + t for t in name_tags(case.get("name", "foo"))]
            if "rw=1" in recs[at - 1]["h"] and not case["ops"][at][1]:
                tags.append("reopen-uncommitted")
            if any(o[0] == "merge" for o in case["ops"][:at]):
                tags.append("reopen-after-merge")
            # what the newest container holds at the close (only root attributes, only groups, ...)
            last = []
            for o, r in zip(case["ops"][:at], recs[:at]):
                if r["out"] != "ok":
                    continue
                if o[0] in ("create", "commit", "discard") or (o[0] == "open" and "rw=1" in r["h"] and set(r["before"]) != set(r["after"])):
                    last = []
                elif o[0] == "write":
                    last.append(o[2] if len(o) > 2 else "d")
            if "rw=1" in recs[at - 1]["h"] and n > 1:
                tags.append("reopen-newest-holds:" + ("".join(sorted(set(last))) or "nothing"))
            ext = sorted({c02.cls_pad(o[1]) > 0 for o in case["ops"] if o[0] in ("open", "openperm")})
            if True in ext:
                tags.append("reopen-extended-ublock")
    # the C02 monitor runs along (only the parts that do not depend on `w`): a committed file of a
    # record that was not truncated must not change either
    oracle += [dict(h, via="c02-monitor") for h in c02hits]
    return dict(out=c02.out_lines(recs), oracle=oracle, tags=tags)


# ----------------------------------------------------------------------------- model lines
def lines(case):
    if case["kind"] == "find":
        L = []
        fs = " ".join(hx(f) for f in case["listing"])
        for q in case["queries"]:
            L.append("valid " + hx(q))
            L.append(("find %s %s" % (hx(q), fs)).strip())
        L.append(("list " + fs).strip())
        for fq in case.get("infer", []):
            L.append("infer " + hx(fq))
        return L
    if case["kind"] == "ub":
        return ["ubtext " + (case["hex"] or "-")]
    return c02.lines(case)


def compare(case, ir, mo):
    if case["kind"] == "find":
        return core.default_compare(case, ir, mo)
    if case["kind"] == "ub":
        if list(mo) == ["err outside"]:
            return None  # non-ASCII bytes in the probed region: not modelled
        return core.default_compare(case, ir, mo)
    return c02.compare_lines(ir["out"], mo)


# ----------------------------------------------------------------------------- generators
def gen_listing(rng):
    stems = ["foo", "fo", "foo2", "foo-bar", "foo-", "fooo", "Foo", "f", "bar", "foo_bar", "foo.bar", "foo bar", "-foo", "foo\n", "foö", "9"]
    tails = [".ih5", ".p1.ih5", ".p2.ih5", ".p10.ih5", ".ih5mf.json", ".p1.ih5mf.json", ".ih5.bak", ".h5", "", ".ih5.ih5", "ih5", ".IH5", "_x.ih5", ".p.ih5",
             "..ih5", ".ih", ".ih5 ", "\n.ih5", ".tmp.ih5"]
    n = rng.randrange(0, 14)
    out = set()
    for _ in range(n):
        out.add(rng.choice(stems) + rng.choice(tails))
    if rng.random() < 0.2:
        out.add(".ih5")
    if rng.random() < 0.2:
        out.add(".hidden.ih5")
    return sorted(x for x in out if x and "/" not in x and x not in (".", ".."))


def gen_find_family(rng):
    """the directory a family of generated record names leaves behind (base containers, patches with one- and
    two-digit numbers, sidecars) plus near misses; queries: the names, their neighbours, invalid variants"""
    fam = gen_family(rng)
    names = [fam[k] for k in rng.sample(sorted(fam), rng.randrange(2, 6))]
    if fam["foo"] not in names:
        names.append(fam["foo"])
    out = set()
    for n in names:
        k = rng.choice([0, 0, 1, 2, 3, 11, 12])
        if rng.random() < 0.9:
            out.add(n + ".ih5")
        for i in range(1, k + 1):
            if rng.random() < 0.9:
                out.add("%s.p%d.ih5" % (n, i))
        if rng.random() < 0.4:
            out |= {f + "mf.json" for f in list(out) if f.startswith(n + ".")}
        if rng.random() < 0.3:
            out.add(n + rng.choice([".ih5.bak", ".h5", "", "_x.ih5", ".p.ih5", "..ih5", "ih5", ".IH5", ".tmp.ih5", ".p1", ".p1.ih", " .ih5", ".p01.ih5"]))
    n = fam["foo"]
    queries = list(dict.fromkeys(rng.sample(names, min(len(names), rng.randrange(1, 4))) + [n] + rng.sample(
        [n[:-1], n + "2", n + ".ih5", n + ".p1", n + "_", n + "*", n[:-1] + "?", n + " ", n.lower(), n.upper(), n + "-", n[1:], ""], 3)))
    infer = [rng.choice(names) + rng.choice([".ih5", ".p1.ih5", ".p3.ih5", ".p10.ih5", ".p12.ih5", ".ih5mf.json", ".p2.ih5mf.json", "", ".p", ".ih5.ih5"]) for _ in range(3)]
    return dict(kind="find", listing=sorted(x for x in out if x and x not in (".", "..")), queries=queries, infer=infer, fam="names")


def gen_find(rng):
    if rng.random() < 0.5:
        return gen_find_family(rng)
    listing = gen_listing(rng)
    qs = ["foo", "fo", "foo2", "foo-bar", "f", "foo-", "bar", "Foo", "foo_bar", "foo.ih5", "foo\n", "fo o", "foö", "foo*", "fo[o]", "9", "-"]
    queries = rng.sample(qs, rng.randrange(2, 7))
    infer = [rng.choice(["foo.ih5", "foo.p3.ih5", "foo.ih5.p1.ih5", "a.pb.ih5", "scramble0", "x.p", "foo.ih5mf.json", "a.b.p2.ih5", ".p1.ih5", "foo-bar.p12.ih5"]) for _ in range(2)]
    return dict(kind="find", listing=listing, queries=queries, infer=infer)


def gen_reopen(rng, n_ops, names=0.5):
    """history on foo (opened by name), handle open at the end; `names`: share of the histories that run on
    generated record names instead of foo / fo / foo2 / foo-bar."""
    while True:
        hist = c02.gen_history(rng, n_ops, with_others=rng.random() < 0.6, kinds=rng.random() < 0.75)
        # cut after the last op that leaves the handle open: find the last `open` by name and keep ops up to a point before the next close
        # (by name: a handle on an explicit selection of files is not "the record" that a reopen by name shows)
        idx = [i for i, o in enumerate(hist) if o[0] == "open" and o[3] == "n" and o[2] in ("r", "r+", "a", "x", "w", "w-")]
        if not idx:
            continue
        i = idx[-1]
        j = i + 1
        while j < len(hist) and hist[j][0] != "close":
            j += 1
        ops = hist[:j]
        if any(o[0] == "open" and o[3] == "l" for o in ops[i + 1:]):
            continue  # the by-name open was refused and an explicit selection of files was opened instead
        c = hist[i][1]
        name = hist[i][4]
        # guess the number of files from the ops (exact when nothing failed)
        n = 0
        for o in ops:
            if o[0] == "open" and o[4] == name and o[2] in ("x", "w", "w-") and n == 0:
                n = 1
        # count creates/discards roughly: use the simulation of c02 for nothing more than a bound
        n = 1 + sum(1 for o in ops if o[0] == "create") + sum(1 for o in ops if o[0] == "open" and o[2] in ("r+", "a"))
        if rng.random() < 0.3 and not any(o[0] == "merge" for o in ops):
            # reopen with the other class (only when no merge happened: a container merged by the plain
            # class keeps the manifest extension without a sidecar, which IH5MFRecord refuses — class mixing)
            c = rng.choice("pm")
        if rng.random() < 0.3:
            # subclasses that keep extra content in the `ub_exts` section of the user block
            ext = {k: "%s+%d" % (k, c02.gen_pad_len(rng, k)) for k in "pm"}
            ops = [[o[0], ext.get(o[1], o[1])] + list(o[2:]) if o[0] == "open" else o for o in ops]
            c = ext[c] if rng.random() < 0.8 else c
        fam = None
        if names and rng.random() < names:
            # the same history on generated record names (full alphabet, adversarial beginnings / endings)
            fam = gen_family(rng)
            ops = rename_ops(ops, fam)
            name = fam.get(name, name)
        case = reopen_case(rng, ops, c, name, rng.random() < 0.7, min(n, 6) if n > 4 else rng.choice([2, 3, 4]))
        if fam:
            case["names"] = fam
        return case


def chain_ops(c, name, nfiles, wk="d", rng=None):
    """a record of `nfiles` containers (tiny payloads), the newest one uncommitted, handle open"""
    ops = [["open", c, "x", "n", name], ["write", 1]]
    for k in range(2, nfiles + 1):
        ops += [["commit"], ["create"], W(k, wk if rng is None or rng.random() < 0.5 else "d")]
    return ops


def gen_long_chain(rng, c, quick, what=None):
    """records with patch indices >= 10 (file names <name>.p10.ih5 ...: two-digit patch numbers, not in
    lexicographic order), on generated names half of the time; then (`what`) one of: close and reopen; replace the
    record with `w`, write, close and reopen; `delete_files`, create again, write, close and reopen; a few more calls"""
    fam = gen_family(rng) if rng.random() < 0.5 else {}
    name = fam.get("foo", "foo")
    n = rng.randrange(11, 13 if quick else 15)
    kinds = "agn" if quick else "dagn"  # (a dump of many datasets spread over many containers is slow)
    ops = []
    if rng.random() < 0.5:
        other = fam.get("foo2", "foo2")  # a prefix-related neighbour with a chain of its own
        ops += chain_ops(c, other, rng.choice([2, 3] if quick else [2, 3, 11]), rng=rng) + [["close", 1]]
    ops += chain_ops(c, name, n, wk=rng.choice(kinds), rng=rng if not quick else None)
    what = what or rng.choice(["reopen", "reopen", "w", "w", "delete", "more"])
    nf = n
    if what == "w":
        ops += [["close", rng.choice([0, 1])], ["open", c, "w", "n", name], W(100, rng.choice("dag"))]
        nf = 1
    elif what == "delete":
        ops += [["close", 1], ["delete", name], ["open", c, rng.choice(["x", "a", "w-", "w"]), "n", name], W(100, rng.choice("dag"))]
        nf = 1
    elif what == "more":
        ops += rng.choice([[["discard"]], [["commit"]], [["commit"], ["create"], W(200)], [["close", 1], ["open", c, "r+", "n", name], W(200)]])
    if what in ("w", "delete") and rng.random() < 0.5:
        ops += [["commit"], ["create"], W(101)]
        nf = 2
    case = reopen_case(rng, ops, c, name, rng.random() < 0.7, nf, perms=(1 if quick else 4) if nf > 4 else None)
    case["fam"] = "long-" + what
    if fam:
        case["names"] = fam
    return case


def gen_cases(ctx):
    rng = ctx.rng
    cases = []
    # (b) mode table: exhaustive in both tiers
    for c in "pm":
        for sit in SITS:
            for mode in MODES:
                cases.append(mode_case(c, c, sit, mode))
    # mixed classes (records written by one class, opened by the other)
    for sit in SITS:
        for mode in MODES:
            if ctx.quick and rng.random() < 0.6:
                continue
            # the record itself written by the plain class, probed by the manifest class and vice versa
            cases.append(mode_case("m", "p", sit, mode, wc="p"))
            cases.append(mode_case("p", "m", sit, mode, wc="m"))
    ctx.exhaustive_spaces.append("open-mode table: 6 modes x 5 on-disk situations (absent, uncommitted base, committed base, patched, uncommitted patch) x IH5Record/IH5MFRecord, next to records fo, foo2, foo-bar")
    # (a) reopen after random histories
    for _ in range(54 if ctx.quick else 1000):
        cases.append(gen_reopen(rng, rng.randrange(4, 22)))
    # deterministic chains of 1..4 (5) files, every permutation, both classes, committed or not
    for c in "pm":
        for nfiles in ((1, 2, 3, 4) if ctx.quick else (1, 2, 3, 4, 5)):
            for unc in (False, True):
                ops = [["open", c, "x", "n", "foo"], ["write", 1]]
                for k in range(2, nfiles + 1):
                    ops += [["commit"], ["create"], ["write", k]]
                cases.append(reopen_case(rng, ops, c, "foo", not unc, nfiles))
    # chains whose patches hold something else than datasets (groups, root attributes, attributes of a
    # child of an older container), ended by close(commit) or left uncommitted
    for c in "pm":
        for nfiles in (2, 3):
            for wk in "agn":
                if ctx.quick and rng.random() < 0.5:
                    continue
                for unc in (False, True):
                    ops = [["open", c, "x", "n", "foo"], ["write", 1]]
                    for k in range(2, nfiles + 1):
                        ops += [["commit"], ["create"], W(k, wk if k == nfiles or rng.random() < 0.5 else "d")]
                    cases.append(reopen_case(rng, ops, c, "foo", not unc, nfiles, perms=None if not ctx.quick else 2))
    # chains written by subclasses with extra user-block content of every length class
    for k in "pm":
        pads = c02.pad_classes(k)
        for pad in (rng.sample(pads, 3) if ctx.quick else pads) + [c02.gen_pad_len(rng, k)]:
            c = "%s+%d" % (k, pad)
            ops = [["open", c, "x", "n", "foo"], ["write", 1], ["commit"], ["create"], W(2, rng.choice("dagn"))]
            cases.append(reopen_case(rng, ops, c, "foo", True, 2, perms=None if not ctx.quick else 1))
    # a sample of the mode table with other patch contents and with extended classes (thorough: all cells)
    for c in "pm":
        for sit in SITS:
            for mode in MODES:
                if ctx.quick and rng.random() < 0.75:
                    continue
                wk = rng.choice("agn")
                cx = "%s+%d" % (c, c02.gen_pad_len(rng, c)) if rng.random() < 0.5 else c
                cases.append(mode_case(cx, c, sit, mode, wk=wk))
    # the mode table on generated record names (whole legal alphabet; beginnings / endings made of the characters of
    # the file extension, the patch infix and patch numbers) next to prefix-related neighbours of those names;
    # quick: every cell once (class at random), thorough: every cell x both classes x 3 names
    for sit in SITS:
        for mode in MODES:
            for c in ([rng.choice("pm")] if ctx.quick else ["p", "m"] * 3):
                fam = gen_family(rng)
                others = [fam[k] for k in OTHERS]
                if ctx.quick:
                    others = rng.sample(others, 1)
                cases.append(mode_case(c, c, sit, mode, wk=rng.choice("ddagn"), name=fam["foo"], others=others,
                                       npatch=rng.choice([1, 1, 2, 3])))
    # long histories: 10..12 committed patches (patch numbers with two digits) for the cells whose open discovers,
    # continues, replaces or refuses the existing files, and records removed with `delete_files` (short and long);
    # thorough: all of them x both classes; quick: every mode on the patched record, `w` + one more mode on the
    # uncommitted patch, two modes after delete_files (payloads other than datasets: cheaper to dump)
    cells = [(sit, mode) for sit in ("patched", "upatch", "deleted") for mode in MODES]
    if ctx.quick:
        cells = [("patched", m) for m in MODES] + [("upatch", "w"), ("upatch", rng.choice(["r", "r+", "a", "x"])),
                                                   ("deleted", rng.choice(["x", "a", "w", "w-"])), ("deleted", rng.choice(["r", "r+", "a"]))]
    for sit, mode in cells:
        for c in ([rng.choice("pm")] if ctx.quick else ["p", "m"]):
            fam = gen_family(rng) if rng.random() < 0.5 else {}
            others = [fam.get(k, k) for k in (rng.sample(OTHERS, 1) if ctx.quick else OTHERS)]
            npatch = rng.randrange(10, 12 if ctx.quick else 13) if sit != "deleted" or rng.random() < 0.6 else rng.choice([1, 2])
            cases.append(mode_case(c, c, sit, mode, wk=rng.choice("agn" if ctx.quick else "ddagn"), name=fam.get("foo", "foo"), others=others, npatch=npatch))
    for c in "pm":
        for what in ([rng.choice(["w", "delete"]), rng.choice(["reopen", "more"])] if ctx.quick else [None] * 40):
            cases.append(gen_long_chain(rng, c, ctx.quick, what))
    # (c) find_files / list_records
    for _ in range(150 if ctx.quick else 3000):
        cases.append(gen_find(rng))
    # (d) user-block codec
    cases += gen_ub_cases(ctx, 60 if ctx.quick else 1500, 50 if ctx.quick else 1500)
    return cases


def run(ctx):
    ctx.rule = ("cases: (mode) exhaustive open-mode table with follow-up calls (read, create_patch, write, discard_patch, commit_patch, close, "
                "reopen r) next to prefix-related records, a second table on generated record names (whole legal alphabet, beginnings / "
                "endings made of the characters of the file extension, patch infix and patch numbers) with generated prefix-related "
                "neighbours, and cells on records with 10..12 patches (two-digit patch numbers) or removed with delete_files; the view after "
                "the probe and after the final close + reopen by name is compared with the one before the close; (reopen, half of them on "
                "generated names, plus chains of 11+ containers that are reopened / replaced with w / deleted and created again) (reopen) random histories, close(commit yes/no), then reopen by name and by "
                "permuted explicit file lists in r/r+/a, each probe undone by discard+close; (find) find_files/list_records/"
                "_is_valid_record_name/_infer_name on generated listings of prefix-related, non-canonical and odd names; (ub) IH5UserBlock.load on "
                "blocks written by the real save (with ub_exts content of every length class up to the reserved 1024 bytes, over zeros or over an "
                "older block) and on hand-made malformed heads. Writes are datasets, groups, root attributes or attributes of a child; record "
                "classes include subclasses that store extra ub_exts content on commit. Non-trivial = "
                "tagged: each table cell, reopen with 2..5 files, reopen of an uncommitted container, reopen after merge, find with several "
                "hits, prefix-related names rejected, invalid names, what the newest container holds at the close, extended user blocks, "
                "user-block text longer / shorter than the first probe, each malformed-head outcome.")
    ctx.assumptions += list(dict.fromkeys([
        "sha256 of a container payload is modelled as the payload itself (collision-free digest)",
        "uuid1() is fresh (counter)",
        "one record handle at a time",
        "pathlib glob of `<name>*.ih5` inside one directory = fnmatch (prefix, anything, suffix); listing order is irrelevant (results sorted)",
        "user-block text is ASCII (pydantic .json() escapes everything else); json.loads + pydantic on the text are not part of this model (C04/C11)",
    ]))
    cases = core.load_corpus(ID) + gen_cases(ctx)
    ctx.correspond("record-model", MOD, cases, lines, "drv_rec", compare=compare, timeout=180)


def signature(case, detail):
    if isinstance(detail, dict):
        return "%s:%s" % (ID, detail.get("kind"))
    return "%s:%s" % (ID, str(detail)[:40])


_shrunk = set()


def shrink(ctx, case, detail):
    from .. import pool
    want = detail.get("kind") if isinstance(detail, dict) else None
    if want in _shrunk:  # one minimised witness per kind of violation is reported
        return case, detail
    _shrunk.add(want)
    if case.get("kind") == "find":
        def fails(listing):
            r = pool.run_one(MOD, "impl", dict(case, listing=listing), timeout=60)
            return "ok" in r and any(d.get("kind") == want for d in r["ok"]["oracle"])
        listing = core.ddmin(case["listing"], fails, max_tests=60) if len(case["listing"]) > 1 else case["listing"]
        r = pool.run_one(MOD, "impl", dict(case, listing=listing), timeout=60)
        ds = [d for d in r.get("ok", {}).get("oracle", []) if d.get("kind") == want]
        return (dict(case, listing=listing), ds[0]) if ds else (case, detail)
    if case.get("kind") == "reopen":
        # shrink the history before the close, keep the probes
        at = case["close_at"]
        hist, tail = case["ops"][:at], case["ops"][at:]

        def fails(h):
            c = dict(case, ops=h + tail, close_at=len(h))
            r = pool.run_one(MOD, "impl", c, timeout=120)
            return "ok" in r and any(d.get("kind") == want for d in r["ok"]["oracle"])
        h = core.ddmin(hist, fails, max_tests=60) if len(hist) > 1 else hist
        c = dict(case, ops=h + tail, close_at=len(h))
        if c.get("names"):
            # does the failure need the generated names? (the same history on foo / fo / foo2 / foo-bar)
            back = {v: k for k, v in c["names"].items()}
            c2 = dict(c, ops=rename_ops(c["ops"], back), name=back.get(c.get("name"), c.get("name")))
            c2.pop("names")
            r2 = pool.run_one(MOD, "impl", c2, timeout=120)
            if "ok" in r2 and any(d.get("kind") == want for d in r2["ok"]["oracle"]):
                c = c2
        # fewer probes: the first one that shows it
        at2 = c["close_at"]
        probes = [c["ops"][j:j + 3] for j in range(at2 + 1, len(c["ops"]), 3)]
        for pr in probes:
            c2 = dict(c, ops=c["ops"][:at2 + 1] + pr)
            r2 = pool.run_one(MOD, "impl", c2, timeout=120)
            if "ok" in r2 and any(d.get("kind") == want for d in r2["ok"]["oracle"]):
                c = c2
                break
        r = pool.run_one(MOD, "impl", c, timeout=120)
        ds = [d for d in r.get("ok", {}).get("oracle", []) if d.get("kind") == want]
        return (c, ds[0]) if ds else (case, detail)
    if case.get("kind") == "mode":
        def hits_of(c):
            r = pool.run_one(MOD, "impl", c, timeout=120)
            return [d for d in r.get("ok", {}).get("oracle", []) if d.get("kind") == want] if "ok" in r else []
        cur = case
        if not hits_of(mode_rebuild(cur)):
            return case, detail  # (a corpus / replay case that is not of the parametrised shape)
        name = cur.get("name", "foo")
        steps = [dict(others=[]), dict(c=cur["cls"][0], oc=cur["ocls"][0], wc=None), dict(wk="d"), dict(name="foo")]
        steps += [dict(name=name[k:]) for k in range(len(name) - 1, 0, -1)] + [dict(name=name[:k]) for k in range(1, len(name))]
        np_ = cur.get("npatch", 1)
        steps += [dict(npatch=n) for n in sorted({1, 2, np_ // 2, np_ - 3, np_ - 2, np_ - 1}) if 1 <= n < np_]
        tests = 0
        for st in steps:
            if tests >= 30:
                break
            if "name" in st and cur.get("name", "foo") != name:
                continue  # one simplification of the name is enough
            if "npatch" in st and cur.get("npatch", 1) != np_:
                continue  # (ascending: the smallest chain that still shows it)
            if "name" in st and not VALID_NAME.match(st["name"]):
                continue
            c2 = mode_rebuild(cur, **st)
            if c2["ops"] == cur["ops"]:
                continue
            tests += 1
            if hits_of(c2):
                cur = c2
        ds = hits_of(cur)
        return (cur, ds[0]) if ds else (case, detail)
    return case, detail


def search(ctx):
    from .. import pool
    for s in range(1, 3):
        sub = core.Ctx(ID, "quick", ctx.seed + 7919 * s)
        cases = gen_cases(sub)
        res = pool.run(MOD, "impl", cases, timeout=180)
        ctx.search_log.append("seed %d: %d cases, oracle only" % (sub.seed, len(cases)))
        for c, r in zip(cases, res):
            if "ok" in r and r["ok"]["oracle"]:
                return shrink(ctx, c, r["ok"]["oracle"][0])
    return None


def replay(ctx, rep):
    from .. import pool
    case = rep.get("case")
    if not case:
        print(core.canon(rep)[:3000])
        return 0
    r = pool.run_one(MOD, "impl", case, timeout=180)
    print("implementation:", core.canon(r)[:4000])
    print("model:", lean.run_driver("drv_rec", [lines(case)]))
    return 1 if ("ok" in r and r["ok"]["oracle"]) else 0
