"""C03 — Closing and reopening a record reproduces exactly the same view; open-mode contract.

Lean: Model/FindFiles.lean, Model/Record.lean, Proofs/Record*.lean, Props/C03.lean; driver drv_rec.
Three case families, all on REAL records in a temporary directory (runner shared with c02.py):

* reopen — random API history, close(), then probes: reopen by name in r / r+ / a and by the
  explicit file list in every permutation (<= 4 files; otherwise 20 random ones) in r / r+ / a.
  ORACLE: the dump after each reopen equals the dump before the close; a probe in mode r
  changes no file.  CORRESPONDENCE: every line vs. the record model (outcome, handle,
  listing, rewritten files, visible writes).
* mode — the table 6 modes x 5 on-disk situations x both classes, in a directory that also
  holds the records fo, foo2 and foo-bar.  ORACLE: the contract sentences of the property.
  CORRESPONDENCE: the model's `openRec` and the follow-up calls.
* find — `find_files`, `list_records`, `_is_valid_record_name` on generated directory
  listings with prefix-related names vs. `FindFiles.findFiles/listRecords/isValidName`.
  ORACLE: brute-force reading of the naming convention.
"""
import itertools
import os
import re
import shutil
import tempfile

from .. import core, lean
from . import c02

ID = "C03"
MOD = "harness.props.c03"
T = "MetadorModel.C03."
LEAN = dict(
    modules=["MetadorModel.Props.C03"],
    theorems=[T + n for n in [
        "open_r_pure", "open_r_refuses_patching", "open_rplus_continues", "open_rplus_new_patch",
        "open_a_creates_when_absent", "open_w_replaces", "open_x_refuses_existing", "open_x_creates_when_absent",
        "open_missing_r_fails", "sortByIdx_perm_invariant", "open_accepts_any_order", "open_yields_coherent",
        "reopen_same_view", "coherent_along_histories", "reopen_same_view_history", "discard_returns_to_commit",
        "findFiles_exact", "findFiles_disjoint"]],
    drivers=["drv_rec"],
)

hx = c02.hx
MODES = ["r", "r+", "a", "w", "w-", "x"]
SITS = ["absent", "ubase", "cbase", "patched", "upatch"]
OTHERS = c02.OTHERS


# ----------------------------------------------------------------------------- case builders
def others_setup(c, k0=1000):
    ops = []
    k = k0
    for n in OTHERS:
        ops += [["open", c, "x", "n", n], ["write", k], ["commit"], ["create"], ["write", k + 1], ["close", 1]]
        k += 2
    return ops


def situation_ops(c, sit, name="foo"):
    if sit == "absent":
        return []
    ops = [["open", c, "x", "n", name], ["write", 1]]
    if sit == "ubase":
        return ops + [["close", 0]]
    ops += [["commit"]]
    if sit == "cbase":
        return ops + [["close", 1]]
    ops += [["create"], ["write", 2], ["commit"]]
    if sit == "patched":
        return ops + [["close", 1]]
    return ops + [["create"], ["write", 3], ["close", 0]]


FOLLOW = [["read"], ["create"], ["write", 50], ["read"], ["discard"], ["read"], ["commit"], ["close", 1]]


def mode_case(c, oc, sit, mode, by="n"):
    pre = others_setup(oc) + situation_ops(c, sit)
    probe = ["open", c, mode, "n", "foo", "probe"]
    post = [list(o) for o in FOLLOW] + [["open", c, "r", "n", "foo"], ["read"], ["close", 1]]
    return dict(kind="mode", cls=c, ocls=oc, sit=sit, mode=mode, ops=pre + [probe] + post, probe=len(pre))


def reopen_case(rng, history, c, name, commit, nfiles_guess):
    ops = [list(o) for o in history] + [["close", 1 if commit else 0]]
    at = len(ops) - 1
    probes = []
    for m in ("r", "r+", "a"):
        probes += [["open", c, m, "n", name, "probe"], ["read"], ["restore"]]
    if nfiles_guess <= 4:
        seeds = list(range(24 if nfiles_guess == 4 else (6 if nfiles_guess == 3 else 2)))
    else:
        seeds = [rng.randrange(0, 10 ** 9) for _ in range(20)]
    for sd in seeds:
        for m in (("r", "r+", "a") if nfiles_guess <= 3 or sd % 3 == 0 else ("r", rng.choice(["r+", "a"]))):
            probes += [["openperm", c, m, sd], ["read"], ["restore"]]
    return dict(kind="reopen", ops=ops + probes, close_at=at, name=name)


# ----------------------------------------------------------------------------- real code
def is_name_char(ch):
    return ("A" <= ch <= "Z") or ("a" <= ch <= "z") or ("0" <= ch <= "9") or ch == "-"


def belongs_to(fn, name):
    return fn.startswith(name) and len(fn) > len(name) and not is_name_char(fn[len(name)])


def mode_oracle(case, recs):
    """the contract sentences of the property, read off the per-call records"""
    hits = []
    i = case["probe"]
    r = recs[i]
    sit, mode = case["sit"], case["mode"]
    b, a = r["before"], r["after"]
    new = sorted(set(a) - set(b))
    gone = sorted(set(b) - set(a))
    chg = r["chg"]
    mine_before = sorted(f for f in b if belongs_to(f, "foo"))

    def hit(kind, **kw):
        hits.append(dict(kind=kind, sit=sit, mode=mode, cls=case["cls"], **kw))

    # files of the other (prefix-related) records are never touched by anything done to foo
    for j in range(i, len(recs)):
        rb, ra = recs[j]["before"], recs[j]["after"]
        for f in rb:
            if not belongs_to(f, "foo") and (f not in ra or ra[f][0] != rb[f][0]):
                hit("other-record-touched", file=f, step=j - i)
    exists = sit != "absent"
    expect = "ok"
    if not exists and mode in ("r", "r+"):
        expect = "FileNotFoundError"
    if exists and mode in ("x", "w-"):
        expect = "FileExistsError"
    if r["out"] != expect:
        hit("open-outcome", expected=expect, got=r["out"])
        return hits
    if expect != "ok":
        if new or gone or chg:
            hit("refused-open-changed-files", new=new, gone=gone, chg=chg)
        return hits
    writable = "rw=1" in r["h"]
    files = r.get("files") or []
    committed_before = sorted(f for f in mine_before if b[f][1] == "c")
    if mode == "r":
        if new or gone or chg:
            hit("r-open-changed-files", new=new, gone=gone, chg=chg)
        if writable or "allow=1" in r["h"]:
            hit("r-open-writable")
        for j, op in enumerate(FOLLOW):
            rr = recs[i + 1 + j]
            if op[0] in ("create", "write", "discard", "commit") and rr["out"] == "ok":
                hit("r-allows-" + op[0])
            if set(rr["before"]) != set(rr["after"]) or rr["chg"]:
                hit("r-handle-changed-files", op=op[0])
        if sorted(files) != sorted(f for f in mine_before if f.endswith(".ih5")):
            hit("r-open-wrong-file-set", files=files)
    elif mode in ("r+", "a") and exists:
        if not writable:
            hit("rw-open-not-writable")
        if gone or any(f in chg for f in committed_before):
            hit("rw-open-damaged-files", gone=gone, chg=chg)
        if sit in ("ubase", "upatch"):
            if new:
                hit("continue-created-files", new=new)
            if sorted(files) != sorted(f for f in mine_before if f.endswith(".ih5")):
                hit("continue-wrong-file-set", files=files)
        else:
            if len(new) != 1:
                hit("new-patch-count", new=new)
            elif sorted(files) != sorted([f for f in mine_before if f.endswith(".ih5")] + new):
                hit("new-patch-wrong-file-set", files=files, new=new)
    elif not exists:  # a / w / w- / x on an absent record: create it
        if new != ["foo.ih5"] or gone or chg:
            hit("create-when-absent", new=new, gone=gone, chg=chg)
        if not writable or r["view"] != "":
            hit("created-record-state", h=r["h"], view=r["view"])
    elif mode == "w":
        left = sorted(f for f in a if belongs_to(f, "foo") and f.endswith(".ih5"))
        if left != ["foo.ih5"] or files != ["foo.ih5"]:
            hit("w-did-not-replace", left=left, files=files)
        if r["view"] != "" or not writable:
            hit("w-record-not-fresh", view=r["view"], h=r["h"])
        if "foo.ih5" in b and a["foo.ih5"][0] == b["foo.ih5"][0]:
            hit("w-kept-old-base")
    # discard_patch returns the view to the last commit
    if mode in ("r+", "a") and sit in ("cbase", "patched", "upatch"):
        want = {"cbase": [["w1", 1]], "patched": [["w1", 1], ["w2", 2]], "upatch": [["w1", 1], ["w2", 2]]}[sit]
        rd = recs[i + 1 + 4]
        if rd["out"] != "ok":
            hit("discard-refused", got=rd["out"])
        elif rd.get("full") != want:
            hit("discard-not-last-commit", got=rd.get("full"), want=want)
        elif sorted(set(rd["after"])) != sorted(set(b) - ({"foo.p2.ih5"} if sit == "upatch" else set())):
            hit("discard-removed-wrong-file", before=sorted(b), after=sorted(rd["after"]))
    return hits


def reopen_oracle(case, recs):
    hits = []
    at = case["close_at"]
    if at < 1 or recs[at]["out"] != "ok" or recs[at - 1].get("full") is None:
        return hits, False
    want = recs[at - 1]["full"]
    ops = case["ops"]
    judged = False
    for j in range(at + 1, len(ops)):
        op = ops[j]
        if op[0] not in ("open", "openperm"):
            continue
        r = recs[j]
        mode = op[2]
        judged = True
        how = "name" if op[0] == "open" else "perm%d" % op[3]
        if r["out"] != "ok":
            hits.append(dict(kind="reopen-failed", how=how, mode=mode, got=r["out"]))
            continue
        if r.get("full") != want:
            hits.append(dict(kind="reopen-different-view", how=how, mode=mode, before=want, after=r.get("full")))
        new = sorted(set(r["after"]) - set(r["before"]))
        gone = sorted(set(r["before"]) - set(r["after"]))
        if mode == "r" and (new or gone or r["chg"]):
            hits.append(dict(kind="reopen-r-changed-files", how=how, new=new, gone=gone, chg=r["chg"]))
        if mode != "r" and (gone or len(new) > 1 or any(r["before"][f][1] == "c" for f in r["chg"])):
            hits.append(dict(kind="reopen-rw-damaged-files", how=how, mode=mode, new=new, gone=gone, chg=r["chg"]))
    return hits, judged


def find_impl(case):
    from pathlib import Path
    from metador_core.ih5.record import IH5Record

    d = tempfile.mkdtemp(prefix="vt_find_")
    out, oracle, tags = [], [], []
    try:
        listing = case["listing"]
        for fn in listing:
            with open(os.path.join(d, fn), "wb") as f:
                f.write(b"x")
        for q in case["queries"]:
            valid = IH5Record._is_valid_record_name(q)
            out.append("T" if valid else "F")
            strict = bool(q) and all(is_name_char(ch) for ch in q)
            if strict and not valid:
                oracle.append(dict(kind="valid-name-rejected", name=q))
            try:
                found = sorted(p.name for p in IH5Record.find_files(Path(d) / q))
                out.append("found " + ",".join(hx(x) for x in sorted(found, key=lambda s: s.encode())))
                if strict:
                    exp = sorted(f for f in listing if belongs_to(f, q) and f.endswith(".ih5"))
                    if found != exp:
                        oracle.append(dict(kind="find-files-not-exact", name=q, got=found, expected=exp, listing=listing))
                    # canonical files of other valid names are never picked up
                    for f in found:
                        m = re.match(r"^([A-Za-z0-9\-]+)(\.p[0-9]+)?\.ih5$", f)
                        if m and m.group(1) != q:
                            oracle.append(dict(kind="find-files-picks-other-record", name=q, file=f))
                    if len(found) > 1:
                        tags.append("find>1")
                    if any(f.startswith(q) and f not in found for f in listing):
                        tags.append("prefix-related-rejected")
            except ValueError:
                out.append("ValueError")
                tags.append("invalid-name")
        recs = sorted(p.name for p in IH5Record.list_records(Path(d)))
        out.append("records " + ",".join(hx(x) for x in sorted(recs, key=lambda s: s.encode())))
        exp = set()
        for f in listing:
            m = re.match(r"^([A-Za-z0-9\-]+)[^A-Za-z0-9\-]", f)
            if m and f.endswith(".ih5"):
                exp.add(m.group(1))
        if set(recs) != exp:
            oracle.append(dict(kind="list-records-not-exact", got=recs, expected=sorted(exp), listing=listing))
        for fq in case.get("infer", []):
            out.append("name " + hx(IH5Record._infer_name(Path(d) / fq)))
    finally:
        shutil.rmtree(d, ignore_errors=True)
    return dict(out=out, oracle=oracle, tags=tags)


def impl(case):
    kind = case["kind"]
    if kind == "find":
        return find_impl(case)
    recs, c02hits = c02.run_ops(case["ops"])
    oracle = []
    tags = []
    if kind == "mode":
        oracle += mode_oracle(case, recs)
        tags.append("mode:%s:%s:%s" % (case["cls"], case["sit"], case["mode"]))
    elif kind == "reopen":
        hits, judged = reopen_oracle(case, recs)
        oracle += hits
        if judged:
            at = case["close_at"]
            n = len(recs[at - 1].get("files") or [])
            tags.append("reopen-%d-files" % min(n, 5))
            if "rw=1" in recs[at - 1]["h"] and not case["ops"][at][1]:
                tags.append("reopen-uncommitted")
            if any(o[0] == "merge" for o in case["ops"][:at]):
                tags.append("reopen-after-merge")
    # the C02 monitor runs along (only the parts that do not depend on `w`): a committed file of a
    # record that was not truncated must not change either
    oracle += [dict(h, via="c02-monitor") for h in c02hits]
    return dict(out=c02.out_lines(recs), oracle=oracle, tags=tags)


# ----------------------------------------------------------------------------- model lines
def lines(case):
    if case["kind"] == "find":
        L = []
        fs = " ".join(hx(f) for f in case["listing"])
        for q in case["queries"]:
            L.append("valid " + hx(q))
            L.append(("find %s %s" % (hx(q), fs)).strip())
        L.append(("list " + fs).strip())
        for fq in case.get("infer", []):
            L.append("infer " + hx(fq))
        return L
    return c02.lines(case)


def compare(case, ir, mo):
    if case["kind"] == "find":
        return core.default_compare(case, ir, mo)
    return c02.compare_lines(ir["out"], mo)


# ----------------------------------------------------------------------------- generators
def gen_listing(rng):
    stems = ["foo", "fo", "foo2", "foo-bar", "foo-", "fooo", "Foo", "f", "bar", "foo_bar", "foo.bar", "foo bar", "-foo", "foo\n", "foö", "9"]
    tails = [".ih5", ".p1.ih5", ".p2.ih5", ".p10.ih5", ".ih5mf.json", ".p1.ih5mf.json", ".ih5.bak", ".h5", "", ".ih5.ih5", "ih5", ".IH5", "_x.ih5", ".p.ih5",
             "..ih5", ".ih", ".ih5 ", "\n.ih5", ".tmp.ih5"]
    n = rng.randrange(0, 14)
    out = set()
    for _ in range(n):
        out.add(rng.choice(stems) + rng.choice(tails))
    if rng.random() < 0.2:
        out.add(".ih5")
    if rng.random() < 0.2:
        out.add(".hidden.ih5")
    return sorted(x for x in out if x and "/" not in x and x not in (".", ".."))


def gen_find(rng):
    listing = gen_listing(rng)
    qs = ["foo", "fo", "foo2", "foo-bar", "f", "foo-", "bar", "Foo", "foo_bar", "foo.ih5", "foo\n", "fo o", "foö", "foo*", "fo[o]", "9", "-"]
    queries = rng.sample(qs, rng.randrange(2, 7))
    infer = [rng.choice(["foo.ih5", "foo.p3.ih5", "foo.ih5.p1.ih5", "a.pb.ih5", "scramble0", "x.p", "foo.ih5mf.json", "a.b.p2.ih5", ".p1.ih5", "foo-bar.p12.ih5"]) for _ in range(2)]
    return dict(kind="find", listing=listing, queries=queries, infer=infer)


def gen_reopen(rng, n_ops):
    """history on foo (opened by name), handle open at the end."""
    while True:
        hist = c02.gen_history(rng, n_ops, with_others=rng.random() < 0.6)
        # cut after the last op that leaves the handle open: find the last `open` by name and keep ops up to a point before the next close
        idx = [i for i, o in enumerate(hist) if o[0] == "open" and o[2] in ("r", "r+", "a", "x", "w", "w-")]
        if not idx:
            continue
        i = idx[-1]
        j = i + 1
        while j < len(hist) and hist[j][0] != "close":
            j += 1
        ops = hist[:j]
        c = hist[i][1]
        name = hist[i][4]
        # guess the number of files from the ops (exact when nothing failed)
        n = 0
        for o in ops:
            if o[0] == "open" and o[4] == name and o[2] in ("x", "w", "w-") and n == 0:
                n = 1
        # count creates/discards roughly: use the simulation of c02 for nothing more than a bound
        n = 1 + sum(1 for o in ops if o[0] == "create") + sum(1 for o in ops if o[0] == "open" and o[2] in ("r+", "a"))
        if rng.random() < 0.3 and not any(o[0] == "merge" for o in ops):
            # reopen with the other class (only when no merge happened: a container merged by the plain
            # class keeps the manifest extension without a sidecar, which IH5MFRecord refuses — class mixing)
            c = rng.choice("pm")
        return reopen_case(rng, ops, c, name, rng.random() < 0.7, min(n, 6) if n > 4 else rng.choice([2, 3, 4]))


def gen_cases(ctx):
    rng = ctx.rng
    cases = []
    # (b) mode table: exhaustive in both tiers
    for c in "pm":
        for sit in SITS:
            for mode in MODES:
                cases.append(mode_case(c, c, sit, mode))
    # mixed classes (records written by one class, opened by the other)
    for sit in SITS:
        for mode in MODES:
            if ctx.quick and rng.random() < 0.6:
                continue
            cm = mode_case("m", "p", sit, mode)
            # the record itself written by the plain class, probed by the manifest class and vice versa
            pre = others_setup("p") + situation_ops("p", sit)
            cm["ops"] = pre + cm["ops"][cm["probe"]:]
            cm["probe"] = len(pre)
            cases.append(cm)
            cp = mode_case("p", "m", sit, mode)
            pre = others_setup("m") + situation_ops("m", sit)
            cp["ops"] = pre + cp["ops"][cp["probe"]:]
            cp["probe"] = len(pre)
            cases.append(cp)
    ctx.exhaustive_spaces.append("open-mode table: 6 modes x 5 on-disk situations (absent, uncommitted base, committed base, patched, uncommitted patch) x IH5Record/IH5MFRecord, next to records fo, foo2, foo-bar")
    # (a) reopen after random histories
    for _ in range(60 if ctx.quick else 1000):
        cases.append(gen_reopen(rng, rng.randrange(4, 22)))
    # deterministic chains of 1..4 (5) files, every permutation, both classes, committed or not
    for c in "pm":
        for nfiles in ((1, 2, 3, 4) if ctx.quick else (1, 2, 3, 4, 5)):
            for unc in (False, True):
                ops = [["open", c, "x", "n", "foo"], ["write", 1]]
                for k in range(2, nfiles + 1):
                    ops += [["commit"], ["create"], ["write", k]]
                cases.append(reopen_case(rng, ops, c, "foo", not unc, nfiles))
    # (c) find_files / list_records
    for _ in range(150 if ctx.quick else 3000):
        cases.append(gen_find(rng))
    return cases


def run(ctx):
    ctx.rule = ("cases: (mode) exhaustive open-mode table with follow-up calls (read, create_patch, write, discard_patch, commit_patch, close, "
                "reopen r) next to prefix-related records; (reopen) random histories, close(commit yes/no), then reopen by name and by "
                "permuted explicit file lists in r/r+/a, each probe undone by discard+close; (find) find_files/list_records/"
                "_is_valid_record_name/_infer_name on generated listings of prefix-related, non-canonical and odd names. Non-trivial = "
                "tagged: each table cell, reopen with 2..5 files, reopen of an uncommitted container, reopen after merge, find with several "
                "hits, prefix-related names rejected, invalid names.")
    ctx.assumptions += list(dict.fromkeys([
        "sha256 of a container payload is modelled as the payload itself (collision-free digest)",
        "uuid1() is fresh (counter)",
        "one record handle at a time",
        "pathlib glob of `<name>*.ih5` inside one directory = fnmatch (prefix, anything, suffix); listing order is irrelevant (results sorted)",
    ]))
    cases = core.load_corpus(ID) + gen_cases(ctx)
    ctx.correspond("record-model", MOD, cases, lines, "drv_rec", compare=compare, timeout=180)


def signature(case, detail):
    if isinstance(detail, dict):
        return "%s:%s" % (ID, detail.get("kind"))
    return "%s:%s" % (ID, str(detail)[:40])


_shrunk = set()


def shrink(ctx, case, detail):
    from .. import pool
    want = detail.get("kind") if isinstance(detail, dict) else None
    if want in _shrunk:  # one minimised witness per kind of violation is reported
        return case, detail
    _shrunk.add(want)
    if case.get("kind") == "find":
        def fails(listing):
            r = pool.run_one(MOD, "impl", dict(case, listing=listing), timeout=60)
            return "ok" in r and any(d.get("kind") == want for d in r["ok"]["oracle"])
        listing = core.ddmin(case["listing"], fails, max_tests=60) if len(case["listing"]) > 1 else case["listing"]
        r = pool.run_one(MOD, "impl", dict(case, listing=listing), timeout=60)
        ds = [d for d in r.get("ok", {}).get("oracle", []) if d.get("kind") == want]
        return (dict(case, listing=listing), ds[0]) if ds else (case, detail)
    if case.get("kind") == "reopen":
        # shrink the history before the close, keep the probes
        at = case["close_at"]
        hist, tail = case["ops"][:at], case["ops"][at:]

        def fails(h):
            c = dict(case, ops=h + tail, close_at=len(h))
            r = pool.run_one(MOD, "impl", c, timeout=120)
            return "ok" in r and any(d.get("kind") == want for d in r["ok"]["oracle"])
        h = core.ddmin(hist, fails, max_tests=60) if len(hist) > 1 else hist
        c = dict(case, ops=h + tail, close_at=len(h))
        r = pool.run_one(MOD, "impl", c, timeout=120)
        ds = [d for d in r.get("ok", {}).get("oracle", []) if d.get("kind") == want]
        return (c, ds[0]) if ds else (case, detail)
    return case, detail


def search(ctx):
    from .. import pool
    for s in range(1, 3):
        sub = core.Ctx(ID, "quick", ctx.seed + 7919 * s)
        cases = gen_cases(sub)
        res = pool.run(MOD, "impl", cases, timeout=180)
        ctx.search_log.append("seed %d: %d cases, oracle only" % (sub.seed, len(cases)))
        for c, r in zip(cases, res):
            if "ok" in r and r["ok"]["oracle"]:
                return shrink(ctx, c, r["ok"]["oracle"][0])
    return None


def replay(ctx, rep):
    from .. import pool
    case = rep.get("case")
    if not case:
        print(core.canon(rep)[:3000])
        return 0
    r = pool.run_one(MOD, "impl", case, timeout=180)
    print("implementation:", core.canon(r)[:4000])
    print("model:", lean.run_driver("drv_rec", [lines(case)]))
    return 1 if ("ok" in r and r["ok"]["oracle"]) else 0
