"""Field-type grammar shared by C12 / C13 (and usable by C20).

* grammar `Ty` as JSON-able lists, its compact term syntax for the Lean driver `drv_cod`,
* grammar -> real typing hints / real `MetadataSchema` classes (families with inheritance,
  constants, extra policy, defaults, recursive references),
* generators: random types, random class families, valid JSON inputs for a type, boundary
  value corpus per type, valid inputs for arbitrary installed schema classes (hint driven),
* value <-> term conversion (python value -> model value term, json -> json term) and
  canonicalisation of terms (sets / extras sorted).

Type AST (lists so that it survives JSON):
  ["bool"] ["int"] ["float"] ["str"]                 strict primitives (metador_core.schema.types)
  ["nes"] ["mime"] ["hash"] ["qhash"]                phantom FullMatch strings
  ["dur"] ["unit"] ["qty"]                           Duration, PintUnit, PintQuantity
  ["lit", [v, ...]]                                  Literal[...]  (str / int / bool values)
  ["opt", t] ["union", [t, ...]] ["list", t] ["set", t] ["ann", t]
  ["model", "Name"]                                  nested schema of the family

Only real code is imported lazily (inside functions) so that the harness parent process can
import this module without metador_core.
"""
import json
import sys
import types as _types

ATOMS = ["bool", "int", "float", "str", "nes", "mime", "hash", "qhash", "dur", "unit", "qty"]
CSTR = ["nes", "mime", "hash", "qhash"]
STRLIKE = ["str"] + CSTR
OPAQUE = ["dur", "unit", "qty"]
# plain Python builtins as field types (pydantic's coercing validators + the schema Config's
# anystr limits). Not part of ATOMS / the Lean grammar: used by C13's oracle-only `pln` cases.
PLAIN_ATOMS = ["pstr", "pint", "pfloat", "pbool"]
# externally registered field types ["ext", name] (real code only, outside ATOMS / the Lean grammar): a property
# module registers name -> (hint thunk, called in a worker; input generator (rng) -> JSON input, called in the parent).
# Used by C12 for value schemas that are built by a custom `Parser` class (NumValue, Pixels, SIValue, user-defined).
EXT_TYPES = {}


def register_ext(name, hint, gen):
    EXT_TYPES[name] = (hint, gen)


# --------------------------------------------------------------------------- term syntax
def hx(s):
    return s.encode("utf-8").hex()


def unhx(h):
    return bytes.fromhex(h).decode("utf-8")


def lit_str(v):
    if v is True:
        return "T"
    if v is False:
        return "F"
    if isinstance(v, int):
        return "i:%d" % v
    return "s:" + hx(v)


def ty_str(ty):
    k = ty[0]
    if k in ATOMS or k in PLAIN_ATOMS:
        return k
    if k == "lit":
        return "lit(%s)" % ",".join(lit_str(v) for v in ty[1])
    if k in ("opt", "list", "set", "ann"):
        return "%s(%s)" % (k, ty_str(ty[1]))
    if k == "union":
        return "union(%s)" % ",".join(ty_str(t) for t in ty[1])
    if k == "model":
        return "model(%s)" % ty[1]
    if k == "ext":
        return "ext(%s)" % ty[1]
    raise ValueError(ty)


def json_str(j):
    """JSON value (as python object from json.loads) -> term."""
    if j is None:
        return "null"
    if j is True:
        return "true"
    if j is False:
        return "false"
    if isinstance(j, int):
        return "i:%d" % j
    if isinstance(j, float):
        return "r:" + hx(repr(j))
    if isinstance(j, str):
        return "s:" + hx(j)
    if isinstance(j, (list, tuple)):
        return "arr(%s)" % ",".join(json_str(x) for x in j)
    if isinstance(j, dict):
        return "obj(%s)" % ",".join("kv(%s,%s)" % (hx(k) or "-", json_str(v)) for k, v in j.items())
    raise ValueError(repr(j))


def parse_term(s):
    """term text -> nested ("atom", txt) / ("node", tag, [children])."""
    pos = 0
    n = len(s)

    def term():
        nonlocal pos
        st = pos
        while pos < n and s[pos] not in "(),":
            pos += 1
        head = s[st:pos]
        if pos < n and s[pos] == "(":
            pos += 1
            kids = []
            if pos < n and s[pos] == ")":
                pos += 1
                return ("node", head, kids)
            while True:
                kids.append(term())
                if pos < n and s[pos] == ",":
                    pos += 1
                    continue
                if pos < n and s[pos] == ")":
                    pos += 1
                    return ("node", head, kids)
                raise ValueError("bad term %r at %d" % (s, pos))
        return ("atom", head)

    t = term()
    if pos != n:
        raise ValueError("trailing text in term %r" % s)
    return t


def term_str(t):
    if t[0] == "atom":
        return t[1]
    return "%s(%s)" % (t[1], ",".join(term_str(k) for k in t[2]))


def canon_term_tree(t):
    if t[0] == "atom":
        return t
    kids = [canon_term_tree(k) for k in t[2]]
    if t[1] == "set":
        kids = sorted(kids, key=term_str)
    if t[1] == "objv":
        # objv(Name, f(..)..., c(..)..., x(..)...) : sort constants and extras by key
        head = [k for k in kids if not (k[0] == "node" and k[1] in ("c", "x"))]
        cs = sorted([k for k in kids if k[0] == "node" and k[1] == "c"], key=term_str)
        xs = sorted([k for k in kids if k[0] == "node" and k[1] == "x"], key=term_str)
        kids = head + cs + xs
    return ("node", t[1], kids)


def canon_term(s):
    """Canonical text of a value term (sets sorted, constants/extras of objects sorted)."""
    if not s or s.startswith("err") or s == "bad-op":
        return s
    try:
        return term_str(canon_term_tree(parse_term(s)))
    except ValueError:
        return s


def term_to_json(t):
    """json term tree -> python object (floats by repr)."""
    if t[0] == "atom":
        a = t[1]
        if a == "null":
            return None
        if a == "true":
            return True
        if a == "false":
            return False
        if a.startswith("i:"):
            return int(a[2:])
        if a.startswith("r:"):
            return float(unhx(a[2:]))
        if a.startswith("s:"):
            return unhx(a[2:])
        raise ValueError(a)
    if t[1] == "arr":
        return [term_to_json(k) for k in t[2]]
    if t[1] == "obj":
        d = {}
        for k in t[2]:
            key = k[2][0][1]
            d["" if key == "-" else unhx(key)] = term_to_json(k[2][1])
        return d
    raise ValueError(t[1])


# --------------------------------------------------------------------------- value pools
STR_POOL = [
    "a", "abc", "A b", " a ", "\ta\n", "x y  z", "0", "1", "1.0", "-1", "1e3", "true", "false", "null", "~", "yes", "no", "on",
    "off", "Null", "TRUE", "2001-01-01", "2001-01-01T10:00:00Z", "12:30:00", "0x1f", "0o17", "1_000", ".5", "+1", ".inf", ".nan",
    "a: b", "a #b", "#c", "- x", "[a]", "{a}", "a, b", "'q'", '"dq"', "it's", "a\\b", "\\n", "line1\nline2", "trail ", " lead",
    "tab\there", "%x", "@at", "`bt", "!tag", "&anc", "*ali", "|", ">", "?", ":", "-", "=", "<<", "é", "ü ö", "日本", "a/b", "a/b;c",
    "ab12", "sha256:ab", "PT1M", "meter", "5 m", "https://example.org/", "x" * 90, "a b " * 30, "a\r\nb", "\x7f", "a\x00b"[0:1] + "z",
    "1:2", "1:2:3", "0.", "1e", "e1", "0b1", "--- a", "...", "k: v: w", "a\n", "\na", "a\n\nb", "a  \nb", "\\", "'", '"', "''", '""',
]
NES_POOL = [s for s in STR_POOL if s.strip(" \t\n\r\x0b\x0c\x1c\x1d\x1e\x1f") != ""]
MIME_POOL = ["a/b", "text/plain", "application/json", "application/JSON;q=0.9;v=abc", "x/y;z", "\t/\t", "1/2", "a-b/c+d;e=f;g=h", "é/ü", "*/*"]
HASH_POOL = ["0", "a", "AbCdEf09", "ab12", "deadbeef", "00", "F" * 64, "1e3", "123", "0e0"]
QHASH_POOL = ["sha256:ab", "sha512:0", "sha256:" + "0a" * 32, "sha512:ABCDEF", "sha256:1e3"]
DUR_POOL = ["PT1M", "PT60S", "P1D", "PT0S", "PT", "P0D", "P1W", "PT1H1.5S", "PT0.5S", "PT0.000001S", "P1DT2H3M4S", "-PT5S", "P400D",
            "PT36H", "P1.5D", "PT1.5M", "P10000DT0.000001S", "PT1000000S", "P1Y", "P1M", "P1Y2M3DT4H", "-P1D", "PT0.1S", "PT0.3S", "PT1.999999S"]
UNIT_POOL = ["m", "meter", "s", "meter/second", "m**2", "1/s", "%", "kg*m/s**2", "dimensionless", "1", "km", "degC", "delta_degC", "eV",
             "N*m", "Hz", "ppm", "count", "radian", "mol/L", "µm", "Å", "Ω", "kilogram / second ** 2", "meter * candela", " m ", "a", "year"]
QTY_POOL = ["5 m", "5.0 m", "1e3 m", "1e-7 m", "0 m", "-0.0 s", "3", "1/3 m", "2.5 kg*m/s**2", "7 seconds", "123 meter / (second * kg) ** 2",
            "1 km", "1000 m", "5 %", "2 count", "1 ppm", "0.1 s", "1e22 m", "1e16 s", "12345678901234567890 m", "5 delta_degC", "m", "1.7976931348623157e308 m",
            "5e-324 m", "2 eV", "3 Å", "-5 Hz", "0.30000000000000004 m"]
INT_POOL = [0, 1, -1, 2, 7, -5, 10, 255, 10 ** 6, 2 ** 31, 2 ** 53 + 1, -(2 ** 63), 10 ** 20]
FLOAT_POOL = [0.0, -0.0, 1.0, -1.0, 1.5, -2.25, 0.1, 0.30000000000000004, 1e-7, 1e16, 1e22, 123456789.125, 3.141592653589793, 5e-324,
              1.7976931348623157e308, 2.0 ** 53, 1e15, 9007199254740993.0, 1e-5, 100.0, 1e21, 0.0001]
LIT_STR = ["a", "b", "c", "", "x y", "1", "true", "ab12", "a/b", "sha256:ab", " ", "PT1M", "m", "é"]
LIT_INT = [0, 1, 2, -1, 5]
EXTRA_KEYS = ["zz_extra", "x-1", "Üx", "with space", "e2", "@other", "0", "true", "a:b", "#h"]
CONST_KEYS = ["@context", "@type", "k_const", "kc2", "$meta"]


def json_small(rng, depth=2, allow_none=True):
    r = rng.random()
    if depth <= 0 or r < 0.6:
        c = rng.randrange(6 if allow_none else 5)
        return [rng.choice(STR_POOL), rng.choice(INT_POOL), rng.choice(FLOAT_POOL), rng.random() < 0.5, "", None][c]
    if r < 0.8:
        return [json_small(rng, depth - 1) for _ in range(rng.randrange(0, 3))]
    return {rng.choice(EXTRA_KEYS + ["k", "a", "b"]): json_small(rng, depth - 1) for _ in range(rng.randrange(0, 3))}


# --------------------------------------------------------------------------- random types
def rand_lit(rng):
    n = rng.randrange(1, 4)
    vals = []
    for _ in range(n):
        r = rng.random()
        v = rng.choice(LIT_STR) if r < 0.55 else (rng.choice(LIT_INT) if r < 0.85 else (rng.random() < 0.5))
        # typing.Literal de-duplicates by (type, value); keep the term free of exact duplicates
        if not any(type(v) is type(w) and v == w for w in vals):
            vals.append(v)
    return ["lit", vals]


def ty_kind(ty):
    """JSON kinds a value of the type can be encoded as (used to build unambiguous unions)."""
    k = ty[0]
    if k == "bool":
        return {"bool"}
    if k == "int":
        return {"int"}
    if k == "float":
        return {"float"}
    if k in STRLIKE:
        return {"str"}
    if k in OPAQUE:
        return {"str", "opaque"}
    if k == "lit":
        s = set()
        for v in ty[1]:
            # Literal compares with ==, so an int literal also captures bools / integral floats
            s |= {"str"} if isinstance(v, str) else {"bool", "int", "float", "num-lit"}
        return s
    if k in ("opt", "ann"):
        return ty_kind(ty[1]) | ({"null"} if k == "opt" else set())
    if k == "union":
        s = set()
        for t in ty[1]:
            s |= ty_kind(t)
        return s
    if k in ("list", "set"):
        return {"arr"}
    if k == "model":
        return {"obj"}  # (pydantic also accepts dict(...)-able sequences and "", harmless here)
    raise ValueError(ty)


def union_ok(alts):
    """No opaque (pint / isodate parsed) type together with a string-like type in one Union of
    a *C12* schema: the encodings overlap, so the stored alternative is not recoverable."""
    kinds = [ty_kind(t) for t in alts]
    has_opq = any("opaque" in k for k in kinds)
    n_str = sum(1 for k in kinds if "str" in k)
    return not (has_opq and n_str > 1)


def rand_singular(rng, depth, models=(), atoms=None, unambiguous=True):
    """atomic | model | Union[singular ...] (the "singular" types of partial.py)."""
    atoms = atoms or ATOMS
    r = rng.random()
    if depth > 0 and r < 0.25:
        alts, kinds = [], set()
        for _ in range(rng.randrange(2, 4)):
            t = rand_singular(rng, 0, models, atoms)
            ks = ty_kind(t)
            if unambiguous:
                inter = ks & kinds
                if not inter <= {"str"} or ("str" in inter and "opaque" in (ks | kinds)):
                    continue
            if t in alts:
                continue
            alts.append(t)
            kinds |= ks
        if len(alts) >= 2:
            return ["union", alts]
        return alts[0] if alts else [rng.choice(atoms)]
    if r < 0.35:
        return rand_lit(rng)
    if models and r < 0.5:
        return ["model", rng.choice(list(models))]
    return [rng.choice(atoms)]


HASHABLE_ATOMS = ["bool", "int", "float", "str", "nes", "mime", "hash", "qhash", "unit", "dur"]


def rand_field_type(rng, depth, models=()):
    """A mergeable type: [Optional] (singular | List[singular] | Set[hashable singular])."""
    r = rng.random()
    if depth <= 0:
        inner = rand_singular(rng, 0, models)
    elif r < 0.5:
        inner = rand_singular(rng, depth - 1, models)
    elif r < 0.8:
        inner = ["list", rand_singular(rng, depth - 1, models)]
    else:
        inner = ["set", rand_singular(rng, depth - 1, (), HASHABLE_ATOMS)]
    if rng.random() < 0.4:
        return ["opt", inner]
    return inner


def rand_type(rng, depth, models=()):
    """Unrestricted grammar (C13 subtype pairs): any nesting, typing-normal form."""
    r = rng.random()
    if depth <= 0 or r < 0.35:
        r2 = rng.random()
        if r2 < 0.2:
            return rand_lit(rng)
        if models and r2 < 0.35:
            return ["model", rng.choice(list(models))]
        return [rng.choice(ATOMS)]
    if r < 0.5:
        t = rand_type(rng, depth - 1, models)
        return t if t[0] == "opt" or (t[0] == "union" and any(x[0] == "opt" for x in t[1])) else ["opt", t]
    if r < 0.7:
        alts = []
        for _ in range(rng.randrange(2, 4)):
            t = rand_type(rng, depth - 1, models)
            for x in (t[1] if t[0] == "union" else [t]):
                if x[0] == "opt" or x in alts:
                    continue
                alts.append(x)
        if not alts:
            return [rng.choice(ATOMS)]
        return ["union", alts] if len(alts) >= 2 else alts[0]
    if r < 0.85:
        return ["list", rand_type(rng, depth - 1, models)]
    return ["set", rand_scalar(rng, depth - 1)]


def is_scalar(ty):
    k = ty[0]
    if k in ("list", "set", "model"):
        return False
    if k in ("opt", "ann"):
        return is_scalar(ty[1])
    if k == "union":
        return all(is_scalar(t) for t in ty[1])
    return True


def rand_scalar(rng, depth):
    """item type of a Set: hashable values only (no list / set / schema)"""
    for _ in range(20):
        t = rand_type(rng, depth, ())
        if is_scalar(t):
            return t
    return [rng.choice(HASHABLE_ATOMS)]


def all_types(depth, models=(), lits=None, atoms=None):
    """Enumerate the grammar up to a depth (thorough tier, is_subtype on all ordered pairs)."""
    atoms = atoms or ATOMS
    lits = lits if lits is not None else [["lit", ["a"]], ["lit", ["a", "b"]], ["lit", [1]], ["lit", [True]], ["lit", [1, "a/b"]], ["lit", ["ab12", "sha256:ab"]], ["lit", [""]]]
    base = [[a] for a in atoms] + list(lits) + [["model", m] for m in models]
    if depth <= 0:
        return base
    sub = all_types(depth - 1, models, lits, atoms)
    out = list(base)
    for t in sub:
        if t[0] != "opt":
            out.append(["opt", t])
        out.append(["list", t])
        if is_scalar(t):
            out.append(["set", t])
    flat = [t for t in sub if t[0] not in ("opt", "union")]
    for i, a in enumerate(flat):
        for b in flat[i + 1:]:
            out.append(["union", [a, b]])
            out.append(["union", [b, a]])
    seen, res = set(), []
    for t in out:
        k = json.dumps(t)
        if k not in seen:
            seen.add(k)
            res.append(t)
    return res


# --------------------------------------------------------------------------- class families
def rand_family(rng, n_classes=3, depth=2, inheritance=True, recursive=True):
    """A family of schema classes: list of class definitions in definition order.

    classdef = {name, parent, extra, fields:[[name, ty, default]], consts:[[k, json]],
                overrides:[...], mandatory:[...]}; default = None (no default) or {"v": json input}.
    Field types may reference earlier classes, and (recursive) the class itself inside an
    Optional / List."""
    names = ["Aa", "Bb", "Cc", "Dd", "Ee"][:n_classes]
    fam = []
    for i, name in enumerate(names):
        earlier = names[:i]
        cd = dict(name=name, parent=None, extra=None, fields=[], consts=[], overrides=[], mandatory=[])
        if inheritance and earlier and rng.random() < 0.35:
            cd["parent"] = rng.choice(earlier)
        pdef = next((c for c in fam if c["name"] == cd["parent"]), None)
        pextra = eff_extra(fam, cd["parent"]) if pdef else "allow"
        if pextra == "forbid":
            cd["extra"] = rng.choice([None, "forbid"])
        elif rng.random() < 0.4:
            cd["extra"] = rng.choice(["allow", "ignore", "forbid"])
        pfields = [f[0] for f in eff_fields(fam, cd["parent"])] if pdef else []
        pconsts = [k for k, _ in eff_consts(fam, cd["parent"])] if pdef else []
        nf = rng.randrange(0 if pdef else 1, 5)
        for j in range(nf):
            if pextra == "forbid":
                break  # a child of a forbidding parent cannot add fields
            fname = "f%d%s" % (j, name.lower()[0])
            if fname in pfields or fname in pconsts:
                continue
            ty = rand_field_type(rng, depth, earlier)
            if recursive and rng.random() < 0.12:
                ty = rng.choice([["opt", ["model", name]], ["list", ["model", name]], ["opt", ["list", ["model", name]]]])
            dflt = None
            if rng.random() < 0.2 and ('"%s"' % name) not in json.dumps(ty):  # a self-typed default never terminates
                v = gen_json(rng, ty if ty[0] != "opt" else ty[1], fam + [cd], 1)
                if v is not OMIT:
                    dflt = {"v": v}
            cd["fields"].append([fname, ty, dflt])
        if rng.random() < 0.45:
            for k in rng.sample(CONST_KEYS, rng.randrange(1, 3)):
                if k in pfields:
                    continue
                cd["consts"].append([k, json_small(rng, 2, allow_none=False) if rng.random() < 0.4 else rng.choice(["https://schema.org", "Thing", "v", 1, True, 1.5])])
            if pextra == "forbid" and not all(k in pconsts for k, _ in cd["consts"]):
                # see C13 finding "constant under forbidding parent": such a class is refused by
                # nobody, but its instances are rejected by the parent. Not generated for C12.
                cd["consts"] = [c for c in cd["consts"] if c[0] in pconsts]
        fam.append(cd)
    return fam


def get_cd(fam, name):
    for c in fam:
        if c["name"] == name:
            return c
    raise KeyError(name)


def eff_extra(fam, name):
    while name:
        cd = get_cd(fam, name)
        if cd["extra"]:
            return cd["extra"]
        name = cd["parent"]
    return "allow"


def unopt(ty):
    if ty[0] == "opt":
        return ty[1]
    if ty[0] == "ann":
        return ["ann", unopt(ty[1])]
    return ty


def eff_fields(fam, name):
    """Effective fields [name, ty, default] in pydantic `__fields__` order (parent first,
    overridden in place, new appended)."""
    if not name:
        return []
    cd = get_cd(fam, name)
    out = [list(f) for f in eff_fields(fam, cd["parent"])]
    for f in cd["fields"]:
        for g in out:
            if g[0] == f[0]:
                g[1], g[2] = f[1], f[2]
                del g[3:]  # a re-annotated field is a fresh field: an ancestor's @make_mandatory no longer applies
                break
        else:
            out.append(list(f))
    for m in cd.get("mandatory", []):
        for g in out:
            if g[0] == m:
                g[1] = unopt(g[1])
                g.append("mandatory")
    ck = [k for k, _ in cd["consts"]]
    return [g for g in out if g[0] not in ck]


def eff_consts(fam, name):
    if not name:
        return []
    cd = get_cd(fam, name)
    out = [list(c) for c in eff_consts(fam, cd["parent"])]
    for k, v in cd["consts"]:
        for c in out:
            if c[0] == k:
                c[1] = v
                break
        else:
            out.append([k, v])
    return out


def is_nullable(ty):
    if ty[0] == "opt":
        return True
    if ty[0] == "ann":
        return is_nullable(ty[1])
    if ty[0] == "union":
        return any(is_nullable(t) for t in ty[1])
    return False


def field_required(f):
    if len(f) > 3 and f[3] == "mandatory":
        return True
    return f[2] is None and not is_nullable(f[1])


def cls_line(fam, name):
    """Driver line defining the *effective* schema of a class (C12 codec correspondence)."""
    parts = ["cls", name, eff_extra(fam, name)]
    for f in eff_fields(fam, name):
        d = "-" if f[2] is None else json_str(f[2]["v"])
        parts.append("fld(%s,%s,%s,%s)" % (hx(f[0]), ty_str(f[1]), "req" if field_required(f) else "opt", d))
    for k, v in eff_consts(fam, name):
        parts.append("const(%s,%s)" % (hx(k), json_str(v)))
    return " ".join(parts)


# --------------------------------------------------------------------------- real classes
_counter = [0]


def real_atoms():
    from metador_core.schema import types as T

    return {"bool": T.Bool, "int": T.Int, "float": T.Float, "str": T.Str, "nes": T.NonEmptyStr, "mime": T.MimeTypeStr, "hash": T.HashsumStr,
            "qhash": T.QualHashsumStr, "dur": T.Duration, "unit": T.PintUnit, "qty": T.PintQuantity}


def _literal(vals):
    """`typing.Literal[vals]` built without typing's cache. The cache key does not distinguish `Literal[1, True]` from
    `Literal[True, 1]` (the tuples are equal and hash alike), so in a long-lived worker process the hint - and with it which of
    several `==` members pydantic returns - would depend on the families built before (seen as a spurious model/implementation
    disagreement of C12 in the thorough tier)."""
    import typing

    try:
        return typing.Literal._getitem.__wrapped__(typing.Literal, *vals)
    except AttributeError:
        return typing.Literal[vals]


def typing_cache_clear():
    """Same reason as `_literal`, one level up: `List[Literal[1, True]]`, `Optional[...]`, `Union[...]` are cached by typing
    under keys that compare `Literal[1, True] == Literal[True, 1]` (order-insensitive equality of Literal aliases)."""
    import typing

    for f in getattr(typing, "_cleanups", []):
        f()


def to_hint(ty, ns, fwd=()):
    import typing

    from typing_extensions import Annotated

    k = ty[0]
    if k in ATOMS:
        return real_atoms()[k]
    if k in PLAIN_ATOMS:
        return {"pstr": str, "pint": int, "pfloat": float, "pbool": bool}[k]
    if k == "ext":
        return EXT_TYPES[ty[1]][0]()
    if k == "lit":
        return _literal(tuple(ty[1]))
    if k == "opt":
        return typing.Optional[to_hint(ty[1], ns, fwd)]
    if k == "union":
        return typing.Union[tuple(to_hint(t, ns, fwd) for t in ty[1])]
    if k == "list":
        return typing.List[to_hint(ty[1], ns, fwd)]
    if k == "set":
        return typing.Set[to_hint(ty[1], ns, fwd)]
    if k == "ann":
        return Annotated[to_hint(ty[1], ns, fwd), "vt-annotation"]
    if k == "model":
        if ty[1] in ns and ty[1] not in fwd:
            return ns[ty[1]]
        return typing.ForwardRef(ty[1])
    raise ValueError(ty)


class Family:
    """Real classes of a family. `close()` removes the synthetic module."""

    def __init__(self, fam, check=False):
        import typing

        from pydantic import Extra

        from metador_core.schema import MetadataSchema
        from metador_core.schema import decorators as D

        _counter[0] += 1
        self.modname = "vt_schema_gen_%d" % _counter[0]
        self.mod = _types.ModuleType(self.modname)
        sys.modules[self.modname] = self.mod
        ns = self.mod.__dict__
        ns.update(typing=typing, Optional=typing.Optional, List=typing.List, Set=typing.Set, Union=typing.Union, Literal=typing.Literal)
        self.fam = fam
        self.classes = {}
        meta = type(MetadataSchema)
        for cd in fam:
            name = cd["name"]
            base = self.classes[cd["parent"]] if cd["parent"] else MetadataSchema
            body = {"__module__": self.modname, "__qualname__": name, "__annotations__": {}}
            for fname, ty, dflt in cd["fields"]:
                if '"lit"' in json.dumps(ty):
                    typing_cache_clear()
                body["__annotations__"][fname] = to_hint(ty, ns, fwd=(name,))
                if dflt is not None:
                    body[fname] = dflt["v"]
            if cd["extra"]:
                body["Config"] = type("Config", (), {"extra": getattr(Extra, cd["extra"])})
            if cd.get("plugin"):
                # optional key (C13): the class carries an inner `Plugin` section, i.e. it is what
                # `infer_parent` / `plugin_deps` regard as a (registrable) plugin; classes without
                # it are plain intermediate schema classes
                body["Plugin"] = type("Plugin", (), {"name": "vt.%s" % name.lower(), "version": (0, 1, 0)})
            cls = meta(name, (base,), body)
            if cd.get("mandatory"):
                cls = D.make_mandatory(*cd["mandatory"])(cls)
            if cd.get("overrides"):
                cls = D.override(*cd["overrides"])(cls)
            if cd["consts"]:
                inherited = set(getattr(base, "__constants__", {}))
                ovr = bool(cd.get("const_override")) or any(k in inherited for k, _ in cd["consts"])  # like the `ld` decorator
                cls = D.add_const_fields({k: v for k, v in cd["consts"]}, override=ovr)(cls)
            self.classes[name] = cls
            ns[name] = cls
        for cls in self.classes.values():
            cls.update_forward_refs(**self.classes)

    def close(self):
        sys.modules.pop(self.modname, None)


# --------------------------------------------------------------------------- valid inputs (grammar)
class _Omit:
    def __repr__(self):
        return "OMIT"


OMIT = _Omit()


def gen_json(rng, ty, fam, depth, in_set=False):
    """A valid JSON *input* for the type (what a user would write)."""
    k = ty[0]
    if k in ("bool", "pbool"):
        return rng.random() < 0.5
    if k in ("int", "pint"):
        return rng.choice(INT_POOL)
    if k in ("float", "pfloat"):
        return rng.choice(FLOAT_POOL)
    if k in ("str", "pstr"):
        return rng.choice(NES_POOL)
    if k == "nes":
        return rng.choice(NES_POOL)
    if k == "mime":
        return rng.choice(MIME_POOL)
    if k == "hash":
        return rng.choice(HASH_POOL)
    if k == "qhash":
        return rng.choice(QHASH_POOL)
    if k == "dur":
        return rng.choice(DUR_POOL)
    if k == "unit":
        return rng.choice(UNIT_POOL)
    if k == "qty":
        return rng.choice(QTY_POOL)
    if k == "lit":
        return rng.choice(ty[1])
    if k == "opt":
        if rng.random() < 0.15 and not in_set:
            return None
        return gen_json(rng, ty[1], fam, depth, in_set)
    if k == "ann":
        return gen_json(rng, ty[1], fam, depth, in_set)
    if k == "union":
        return gen_json(rng, rng.choice(ty[1]), fam, depth, in_set)
    if k == "list":
        return [gen_json(rng, ty[1], fam, depth - 1) for _ in range(rng.randrange(0, 4) if depth > 0 else 0)]
    if k == "set":
        return [gen_json(rng, ty[1], fam, depth - 1, True) for _ in range(rng.randrange(0, 4) if depth > 0 else 0)]
    if k == "model":
        return gen_obj(rng, fam, ty[1], depth - 1)
    if k == "ext":
        return EXT_TYPES[ty[1]][1](rng)
    raise ValueError(ty)


def gen_obj(rng, fam, name, depth, extras=True):
    d = {}
    for f in eff_fields(fam, name):
        req = field_required(f)
        if not req and (depth < 0 or rng.random() < 0.4):
            continue  # missing optional = omitted
        v = gen_json(rng, f[1] if f[1][0] != "opt" else f[1][1], fam, depth)
        d[f[0]] = v
    if extras and eff_extra(fam, name) != "forbid" and rng.random() < 0.3:
        for _ in range(rng.randrange(1, 3)):
            k = rng.choice(EXTRA_KEYS)
            if k not in d and k not in [c[0] for c in eff_consts(fam, name)] and k not in [f[0] for f in eff_fields(fam, name)]:
                d[k] = json_small(rng, 2, allow_none=False)
    return d


# --------------------------------------------------------------------------- boundary corpus (C13 accepts)
BOUNDARY_COMMON = [None, True, False, 0, 1, -1, 2, 1.0, 0.0, -0.0, 1.5, 2.0, "", " ", " a ", "a", "b", "1", "ab12", "AbCdEf09", "g", "sha256:ab",
                   "sha512:0", "md5:00", "sha256:", "a/b", "a/b;c", "a/b;", "a /b", "\t/\t", "x y", "\t", "\n", "PT1M", "PT60S", "P1D", "pt1m", "P", "m",
                   "meter", "5 m", "5 foo", "foo", "true", [], {}, [1], ["a"], [1, 1], [1, "a"], [[]], [None], [True, 1], [1, 1.0], ["a", "a", "b"],
                   {"a": 1}, [["a", 1]], ["ab"], "é", [0, False], ["PT1M", "PT60S"], ["m", "meter"], [" a ", "a"]]


def boundary_values(ty, fam=None, rng=None):
    vals = list(BOUNDARY_COMMON)
    k = ty[0]
    if k == "lit":
        for v in ty[1]:
            vals.append(v)
            if isinstance(v, bool):
                vals += [int(v), float(v)]
            elif isinstance(v, int):
                vals += [float(v), v + 1]
                if v in (0, 1):
                    vals.append(bool(v))
            else:
                vals += [v + " ", " " + v, v.upper()]
    if k in ("list", "set", "opt", "ann"):
        inner = boundary_values(ty[1], fam, rng)[len(BOUNDARY_COMMON):]
        vals += inner
        if k in ("list", "set"):
            vals += [[x] for x in inner[:6]] + [inner[:3]]
    if k == "union":
        for t in ty[1]:
            vals += boundary_values(t, fam, rng)[len(BOUNDARY_COMMON):]
    if k == "model" and fam is not None and rng is not None:
        for _ in range(3):
            vals.append(gen_obj(rng, fam, ty[1], 1))
        o = gen_obj(rng, fam, ty[1], 1, extras=False)
        vals.append(list([kk, vv] for kk, vv in o.items()))
        for kk in list(o)[:2]:
            o2 = dict(o)
            del o2[kk]
            vals.append(o2)
            o3 = dict(o)
            o3[kk] = [o3[kk]]
            vals.append(o3)
        o4 = dict(o)
        o4["zz_unknown"] = 1
        vals.append(o4)
    seen, out = set(), []
    for v in vals:
        key = json.dumps(v, sort_keys=True) + type(v).__name__
        if key not in seen:
            seen.add(key)
            out.append(v)
    return out


def model_safe_json(j):
    """Can the value be sent to the model driver? (ASCII whitespace only, finite floats)"""
    if isinstance(j, float):
        return j == j and j not in (float("inf"), float("-inf"))
    if isinstance(j, str):
        return not any(ord(c) >= 0x80 and c.isspace() for c in j) and "\x85" not in j and "\xa0" not in j
    if isinstance(j, list):
        return all(model_safe_json(x) for x in j)
    if isinstance(j, dict):
        return all(model_safe_json(k) and model_safe_json(v) for k, v in j.items())
    return True


# --------------------------------------------------------------------------- python value -> value term
def pyval_str(v):
    """Real python value (after validation) -> model value term. Value directed, like the
    encoder: the class of the value decides."""
    import isodate
    import pint
    from pydantic import BaseModel

    if v is None:
        return "none"
    if v is True:
        return "true"
    if v is False:
        return "false"
    if isinstance(v, BaseModel):
        cls = type(v)
        consts = getattr(cls, "__constants__", {})
        parts = [cls.__name__]
        for fname, mf in cls.__fields__.items():
            if fname in consts:
                continue
            parts.append("f(%s,%s)" % (hx(fname), pyval_str(getattr(v, fname))))
        for k in consts:
            parts.append("c(%s,%s)" % (hx(k), json_str(_jsonable(v.__dict__.get(k)))))
        for k, x in v.__dict__.items():
            if k not in cls.__fields__:
                parts.append("x(%s,%s)" % (hx(k) or "-", json_str(_jsonable(x))))
        return "objv(%s)" % ",".join(parts)
    if isinstance(v, isodate.Duration):
        return "d:" + hx(isodate.duration_isoformat(v))
    if isinstance(v, pint.Unit):
        return "u:" + hx(str(v))
    if isinstance(v, pint.Quantity):
        return "q:" + hx(str(v))
    if isinstance(v, int):
        return "i:%d" % v
    if isinstance(v, float):
        return "f:" + hx(repr(v))
    if isinstance(v, str):
        return "s:" + hx(str(v))
    if isinstance(v, (list, tuple)):
        return "list(%s)" % ",".join(pyval_str(x) for x in v)
    if isinstance(v, (set, frozenset)):
        return "set(%s)" % ",".join(sorted(pyval_str(x) for x in v))
    raise ValueError("no value term for %r" % (v,))


def _jsonable(x):
    return json.loads(json.dumps(x))


# --------------------------------------------------------------------------- installed schemas (hint driven)
URL_POOL = ["https://orcid.org/0000-0002-1825-0097", "https://ror.org/02nr0ka47", "https://example.org/", "http://example.org", "https://example.org/a/b?c=d&e=f#frag", "https://EXAMPLE.org/Path", "http://example.org:80/",
            "https://example.org:8443/x", "https://user:pw@example.org/", "http://127.0.0.1/", "http://[::1]/", "https://xn--bcher-kva.example/", "https://bücher.example/",
            "https://example.org/a%20b", "https://example.org/ä", "http://localhost", "https://w3id.org/ro/crate/1.1/context", "https://example.org/?q=a b",
            "http://example.org//double", "https://example.org/.", "HTTPS://example.org/UP"]
DATE_POOL = ["2020-01-01", "1999-12-31", "2024-02-29", "0001-01-01", "9999-12-31", 0, 86400, 1e9, "2020-1-1"]
DATETIME_POOL = ["2020-01-01T10:00:00", "2020-01-01T10:00:00Z", "2020-01-01T10:00:00+02:00", "2020-01-01T10:00:00.123456", "2020-01-01 10:00", "1999-12-31T23:59:59.999999-11:30",
                 "2020-01-01T00:00:00", 1600000000, 1600000000.5, "2020-01-01T10:00:00.1Z", "2020-01-01T10:00Z"]
TIME_POOL = ["10:00", "10:00:00", "23:59:59.999999", "00:00:00", "10:00:00Z", "10:00:00+01:00", "12:30:15.5"]
LEAF_POOL = (STR_POOL + MIME_POOL + HASH_POOL + QHASH_POOL + DUR_POOL + UNIT_POOL + QTY_POOL + URL_POOL + DATE_POOL + DATETIME_POOL + TIME_POOL
             + INT_POOL + FLOAT_POOL + [True, False, 3, 5, 10, 11, 0.5, 2.5, "5 px", "3px", "12.5 px", {"value": 7, "unitText": "px"}, [1, 2, 3], [0, 1, 0], ["a", "b"], {"k": "v"}])
_leaf_cache = {}


def _leaf_candidates(hint):
    from pydantic import create_model

    from metador_core.schema.base import BaseModelPlus

    key = repr(hint)
    if key not in _leaf_cache:
        try:
            M = create_model("Leaf", __base__=BaseModelPlus, f=(hint, ...))
        except Exception:
            _leaf_cache[key] = []
            return []
        ok = []
        for v in LEAF_POOL:
            try:
                M(f=v)
                ok.append(v)
            except Exception:
                pass
        _leaf_cache[key] = ok
    return _leaf_cache[key]


def gen_for_hint(rng, hint, depth, stack=()):
    """A plausible valid JSON input for an arbitrary type hint of an installed schema."""
    import datetime
    import enum
    import typing

    import typing_extensions as te
    from pydantic import BaseModel

    origin = te.get_origin(hint)
    args = te.get_args(hint)
    if hint is typing.Any or hint is object:
        return json_small(rng, 1, allow_none=False)
    if origin is te.Annotated:
        return gen_for_hint(rng, args[0], depth, stack)
    if origin is typing.Union:
        alts = [a for a in args if a is not type(None)]
        rng.shuffle(alts)
        for a in alts:
            v = gen_for_hint(rng, a, depth, stack)
            if v is not OMIT:
                return v
        return OMIT
    if origin is typing.Literal:
        return rng.choice(args)
    if origin in (list, typing.List):
        n = rng.randrange(0, 3) if depth > 0 else 0
        items = [gen_for_hint(rng, args[0], depth - 1, stack) for _ in range(n)]
        return [x for x in items if x is not OMIT]
    if origin in (set, frozenset, typing.Set):
        n = rng.randrange(0, 3) if depth > 0 else 0
        items = [gen_for_hint(rng, args[0], depth - 1, stack) for _ in range(n)]
        return [x for x in items if x is not OMIT and not isinstance(x, (dict, list))]  # Set[Model] cannot hold values
    if origin in (tuple, typing.Tuple):
        if len(args) == 2 and args[1] is Ellipsis:
            return [gen_for_hint(rng, args[0], depth - 1, stack) for _ in range(rng.randrange(0, 3))]
        items = [gen_for_hint(rng, a, depth - 1, stack) for a in args]
        return OMIT if any(x is OMIT for x in items) else items
    if origin in (dict, typing.Dict):
        if depth <= 0:
            return {}
        out = {}
        for _ in range(rng.randrange(0, 3)):
            k = gen_for_hint(rng, args[0], depth - 1, stack)
            v = gen_for_hint(rng, args[1], depth - 1, stack)
            if k is not OMIT and v is not OMIT and isinstance(k, str) and len(k) <= 40:  # long keys: see C12 yaml-long-key
                out[k] = v
        return out
    if isinstance(hint, typing.ForwardRef) or isinstance(hint, str):
        return OMIT
    if isinstance(hint, type) and issubclass(hint, BaseModel):
        if stack.count(hint) >= 2 or depth < -1:
            return OMIT
        if any("Parser" in c.__dict__ for c in hint.__mro__ if c.__name__ not in ("ParserMixin", "BaseModelPlus")):
            cands = _leaf_candidates(hint)  # schema with a custom parser (Pixels, SIValue ...): take what it accepts
            if cands and rng.random() < 0.8:
                return rng.choice(cands)
        return gen_model_input(rng, hint, depth - 1, stack + (hint,))
    if isinstance(hint, type) and issubclass(hint, enum.Enum):
        return rng.choice(list(hint)).value
    if isinstance(hint, type) and hasattr(hint, "item_type") and hasattr(hint, "min_items"):  # conlist
        lo = hint.min_items or 0
        hi = hint.max_items if hint.max_items is not None else lo + 2
        return [gen_for_hint(rng, hint.item_type, depth - 1, stack) for _ in range(rng.randrange(lo, hi + 1))]
    if hint is datetime.date:
        return rng.choice(DATE_POOL[:5])
    if hint is datetime.datetime:
        return rng.choice(DATETIME_POOL)
    if hint is datetime.time:
        return rng.choice(TIME_POOL)
    cands = _leaf_candidates(hint)
    if not cands:
        return OMIT
    return rng.choice(cands)


def gen_model_input(rng, cls, depth, stack=()):
    consts = getattr(cls, "__constants__", {})
    d = {}
    for fname, mf in cls.__fields__.items():
        if fname in consts:
            continue
        if not mf.required and (depth < 0 or rng.random() < 0.45):
            continue
        v = gen_for_hint(rng, mf.outer_type_, depth, stack)
        lo = getattr(mf.field_info, "min_items", None)
        if lo and isinstance(v, list) and len(v) < lo:
            import typing_extensions as te

            args = [a for a in te.get_args(mf.outer_type_) if a is not type(None)]
            items = [gen_for_hint(rng, args[0], max(depth, 1) - 1, stack) for _ in range(lo)] if args else []
            v = [x for x in items if x is not OMIT]
        if v is OMIT:
            continue
        if v is None and not mf.required:
            continue
        d[mf.alias] = v
    return d


def extra_numpy_aliases():
    """`core.dashboard` imports panel/bokeh, which needs a few more numpy-1 names than the
    nine of harness.envshim (additive, touches no metador code)."""
    import numpy as np

    for a, b in [("bool8", "bool_"), ("object0", "object_"), ("float_", "float64"), ("complex_", "complex128"), ("unicode_", "str_"), ("string_", "bytes_")]:
        if not hasattr(np, a) and hasattr(np, b):
            setattr(np, a, getattr(np, b))


def installed_schemas():
    """{plugin name: real class (unwrapped)} for all installed schema plugins."""
    extra_numpy_aliases()
    from metador_core.plugin.metaclass import UndefVersion
    from metador_core.plugins import schemas

    import typing

    out = {}
    for k in schemas.keys():
        S = schemas[k]
        S = UndefVersion._unwrap(S) or S
        if any(isinstance(f.outer_type_, typing.ForwardRef) for f in S.__fields__.values()):
            # e.g. core.packerinfo (`packer: PGPacker.PluginRef` is never resolved by the package itself, the
            # class cannot be instantiated before `.Partial` or `update_forward_refs()` is touched)
            UNRESOLVED.add(k.name)
            S.update_forward_refs()
        out[k.name] = S
    return out


UNRESOLVED = set()


def repair_input(inp, errors):
    """Drop the parts of a generated input that a custom validator of an installed schema
    refuses (ORCID/ROR ids, unit lists ...). Returns True if something was removed."""
    changed = False
    for er in errors:
        if er["loc"] and er["loc"][-1] == "__root__":
            # a root validator relating several fields: drop the fields its message names
            cur = inp
            try:
                for x in er["loc"][:-1]:
                    if x != "__root__":
                        cur = cur[x]
            except (KeyError, IndexError, TypeError):
                cur = None
            if isinstance(cur, dict):
                for k in list(cur):
                    if k in er["msg"]:
                        del cur[k]
                        changed = True
            continue
        loc = [x for x in er["loc"] if x != "__root__"]
        if er["msg"].startswith("field required") or not loc:
            continue
        cur, path = inp, list(loc)
        parents = []
        ok = True
        for x in path[:-1]:
            try:
                parents.append((cur, x))
                cur = cur[x]
            except (KeyError, IndexError, TypeError):
                ok = False
                break
        if not ok:
            # the location names a field inside a value that is not a container here: drop one level up
            while parents:
                c, x = parents.pop()
                try:
                    del c[x]
                    changed = True
                    break
                except (KeyError, IndexError, TypeError):
                    continue
            continue
        try:
            del cur[path[-1]]
            changed = True
        except (KeyError, IndexError, TypeError):
            if parents:
                c, x = parents[-1]
                try:
                    del c[x]
                    changed = True
                except (KeyError, IndexError, TypeError):
                    pass
    return changed


# --------------------------------------------------------------------------- type-directed JSON canonicalisation
def canon_json(fam, ty, j):
    """Sort arrays that stand for sets (set order is not observable), recursively."""
    k = ty[0]
    if k in ("opt", "ann"):
        return None if j is None else canon_json(fam, ty[1], j)
    if k == "union":
        for t in ty[1]:
            if t[0] == "model" and isinstance(j, dict):
                return canon_json(fam, t, j)
            if t[0] in ("list", "set") and isinstance(j, list):
                return canon_json(fam, t, j)
        return j
    if k == "list" and isinstance(j, list):
        return [canon_json(fam, ty[1], x) for x in j]
    if k == "set" and isinstance(j, list):
        return sorted((canon_json(fam, ty[1], x) for x in j), key=lambda x: json.dumps(x, sort_keys=True))
    if k == "model" and isinstance(j, dict) and fam is not None:
        ft = {f[0]: f[1] for f in eff_fields(fam, ty[1])}
        return {kk: (canon_json(fam, ft[kk], v) if kk in ft else v) for kk, v in j.items()}
    return j


def strings_in(j, acc=None):
    acc = set() if acc is None else acc
    if isinstance(j, str):
        acc.add(j)
    elif isinstance(j, list):
        for x in j:
            strings_in(x, acc)
    elif isinstance(j, dict):
        for k, v in j.items():
            acc.add(k)
            strings_in(v, acc)
    return acc


def all_pool_strings():
    s = set()
    for pool in (STR_POOL, MIME_POOL, HASH_POOL, QHASH_POOL, DUR_POOL, UNIT_POOL, QTY_POOL, LIT_STR, EXTRA_KEYS, CONST_KEYS):
        s |= set(pool)
    strings_in(BOUNDARY_COMMON, s)
    for v in list(LIT_STR):
        s |= {v + " ", " " + v, v.upper()}
    s |= {"https://schema.org", "Thing", "v", "k", "a", "b"}
    return sorted(s)


def normal_forms(strings):
    """Real library behaviour of the three opaque string codecs on the given strings:
    {kind: {s: normal form | None}} — parse (as the metador parser classes do) then encode
    (as the registered JSON encoders do). Runs in a worker (imports the real code)."""
    from pydantic import ValidationError, create_model

    from metador_core.schema.base import BaseModelPlus

    out = {}
    for kind in OPAQUE:
        hint = real_atoms()[kind]
        M = create_model("NF", __base__=BaseModelPlus, f=(hint, ...))
        tbl = {}
        for s in strings:
            try:
                tbl[s] = json.loads(M(f=s).json())["f"]
            except ValidationError as e:
                tbl[s] = None
                NF_ERRORS[(kind, s)] = "%s: %s" % (type(e).__name__, str(e)[:200])
            except Exception as e:  # not a validation error: pydantic lets it through (False = "raises")
                tbl[s] = False
                NF_ERRORS[(kind, s)] = "%s: %s" % (type(e).__name__, str(e)[:200])
        out[kind] = tbl
    return out


NF_ERRORS = {}


def nf_lines(nf, strings):
    """Driver lines that define the graph of the three normalisers on the given strings."""
    L = []
    for kind in OPAQUE:
        tbl = nf[kind]
        for s in sorted(strings):
            if s in tbl:
                n = tbl[s]
                L.append("nf %s %s %s" % (kind, hx(s) or "-", "!" if n is None else ("!!" if n is False else (hx(n) or "-"))))
    return L
