"""C10 — Patches built on a stub apply to the real record with the same result.

Oracle (real code only): build a real IH5MFRecord with a random history; after EVERY commit the
manifest on disk matches hash and uuid recorded in the newest container, describes the current
skeleton, and manifest extensions persist until overridden (also across close/reopen, also when
the newest patch was left uncommitted). A stub created from the newest manifest exposes the same
paths / kinds / attribute names, none of the data, and cannot be merged. An existence-based
update applied (a) on top of the stub and (b) directly on a copy of the real record gives the same
patched record once the stub-made patch is put next to the real files.
Correspondence: Lean overlay model (`stubCont`, `existence_determined`), see Props/C10.lean.
"""
import hashlib
import json
import os
import shutil
import tempfile

from .. import core, lean, pool
from . import h5util as H

ID = "C10"
MOD = "harness.props.c10"
LEAN = dict(modules=["MetadorModel.Props.C10"],
            theorems=["MetadorModel.C10." + n for n in ['stub_identity', 'stub_patch_accepted', 'stub_patch_same_block', 'stub_skeleton', 'stub_single',
                                                               'stub_sameSkel', 'stub_inv', 'stub_mentions',
                                                               'existence_determined', 'existence_determined_ok',
                                                               'existence_determined_error',
                                                               'stub_patch_same_result_partial',
                                                               'stub_patch_same_result_of_step_inv',
                                                               'stub_patch_same_view', 'stub_patch_same_result',
                                                               'stub_patch_same_result_holds']]
            + ["MetadorModel.Follow." + n for n in ['look_shape', 'obsOf_congr', 'step_top', 'run_same_patches',
                                                    'follow_same_skel', 'invAlong_of_step_inv', 'invAlongB_sound']],
            drivers=["drv_mrg"])


def _sha(p):
    return "sha256:" + hashlib.sha256(open(p, "rb").read()).hexdigest()


def _check_manifest(rec, oracle, where, expect_exts):
    from metador_core.ih5.manifest import IH5UBExtManifest, IH5Manifest
    from metador_core.ih5.skeleton import IH5Skeleton

    last = rec.ih5_files[-1]
    ub = rec.ih5_meta[-1]
    ext = IH5UBExtManifest.get(ub)
    mfp = str(last) + "mf.json"
    if ext is None:
        oracle.append(dict(kind="no-manifest-extension-after-commit", where=where))
        return
    if not os.path.isfile(mfp):
        oracle.append(dict(kind="manifest-file-missing-after-commit", where=where))
        return
    if str(ext.manifest_hashsum) != _sha(mfp):
        oracle.append(dict(kind="manifest-hash-mismatch-after-commit", where=where))
    mf = IH5Manifest.parse_file(mfp)
    if mf.manifest_uuid != ext.manifest_uuid:
        oracle.append(dict(kind="manifest-uuid-mismatch-after-commit", where=where))
    # the ub stored on disk must carry the same ext
    from metador_core.ih5.record import IH5UserBlock
    disk_ext = IH5UBExtManifest.get(IH5UserBlock.load(last))
    if disk_ext is None or disk_ext.manifest_uuid != mf.manifest_uuid or str(disk_ext.manifest_hashsum) != _sha(mfp):
        oracle.append(dict(kind="manifest-not-linked-on-disk", where=where))
    sk_now = json.loads(IH5Skeleton.for_record(rec).json())
    sk_mf = json.loads(mf.skeleton.json())
    if sk_now != sk_mf:
        diff = sorted(k for k in set(sk_now) | set(sk_mf) if sk_now.get(k) != sk_mf.get(k))[:4]
        oracle.append(dict(kind="manifest-skeleton-differs", where=where, paths=diff))
    if mf.manifest_exts != expect_exts:
        oracle.append(dict(kind="manifest-exts-not-persisted", where=where, got=mf.manifest_exts, expected=expect_exts))
    if rec.manifest.manifest_uuid != mf.manifest_uuid:
        oracle.append(dict(kind="loaded-manifest-is-not-the-newest", where=where))


def impl(case):
    from pathlib import Path
    from metador_core.ih5.manifest import IH5MFRecord
    from metador_core.ih5.record import IH5Record

    tmp = tempfile.mkdtemp(prefix="vt-c10-")
    oracle, tags, out = [], [], []
    try:
        real_dir = os.path.join(tmp, "real")
        os.makedirs(real_dir)
        rec = IH5MFRecord(Path(real_dir) / "rec", "w")
        exts = {}
        ncommit = 0

        def commit(new_exts):
            nonlocal exts, ncommit
            if new_exts is not None:
                rec_commit(manifest_exts=new_exts)
                exts = new_exts
            else:
                rec_commit()
            ncommit += 1
            _check_manifest(rec, oracle, "commit %d" % ncommit, exts)

        def rec_commit(**kw):
            rec.commit_patch(**kw)

        for op in case["ops"]:
            if op[0] == "patch":
                commit(op[1] if len(op) > 1 else None)
                rec.create_patch()
                out.append("ok")
            elif op[0] == "reopen":
                # close (committing) and reopen; or leave the patch uncommitted and continue it
                if op[1] == "commit":
                    commit(None)
                    rec.close()
                    rec = IH5MFRecord(Path(real_dir) / "rec", "r+")
                    out.append("ok")
                else:
                    rec.close(commit=False)
                    rec = IH5MFRecord(Path(real_dir) / "rec", "r+")
                    tags.append("reopen-uncommitted")
            else:
                out.append(H.oc(H.apply_op(rec, op)))
        commit(case.get("final_exts"))
        if len(exts) and ncommit > 1:
            tags.append("exts-inherited")
        rec.close()
        ncont = len([f for f in os.listdir(real_dir) if f.endswith(".ih5")])
        if ncont >= 3:
            tags.append("containers>=3")

        real = IH5MFRecord(Path(real_dir) / "rec", "r")
        d_real = H.dump(real)
        files = [str(p) for p in real.ih5_files]
        mfpath = files[-1] + "mf.json"
        real.close()

        # --- stub
        stub_dir = os.path.join(tmp, "stub")
        os.makedirs(stub_dir)
        stub = IH5MFRecord.create_stub(Path(stub_dir) / "rec", Path(mfpath))
        d_stub = H.dump(stub)
        if H.skel(d_stub) != H.skel(d_real):
            diff = sorted(p for p in set(d_stub) | set(d_real) if H.skel(d_stub).get(p) != H.skel(d_real).get(p))[:4]
            oracle.append(dict(kind="stub-skeleton-differs", paths=diff))
        leaked = [p for p, v in d_stub.items() if (v[0] == "dataset" and v[1] != "empty") or any(a != "empty" for a in v[2].values())]
        if leaked:
            oracle.append(dict(kind="stub-contains-data", paths=leaked[:4]))
        try:
            stub.merge_files(Path(tmp) / "stubmerge")
            oracle.append(dict(kind="stub-merge-not-refused"))
        except ValueError:
            pass
        stub.close()

        # --- existence-based update via stub and directly
        upd = case.get("update") or []
        direct_dir = os.path.join(tmp, "direct")
        shutil.copytree(real_dir, direct_dir)
        d = IH5MFRecord(Path(direct_dir) / "rec", "r+")
        out_direct = [H.apply_op(d, op) for op in upd]
        d.commit_patch()
        dump_direct = H.dump(d)
        d.close()

        try:
            s = IH5MFRecord(Path(stub_dir) / "rec", "r+")
        except Exception as e:  # noqa: BLE001
            oracle.append(dict(kind="stub-cannot-be-opened-for-patching", error="%s: %s" % (type(e).__name__, str(e)[:160])))
            return dict(out=out, oracle=oracle, tags=tags, partial=True)
        out_stub = [H.apply_op(s, op) for op in upd]
        s.commit_patch()
        stub_patch = str(s.ih5_files[-1])
        s.close()
        if [H.is_ok(x) for x in out_stub] != [H.is_ok(x) for x in out_direct]:
            oracle.append(dict(kind="update-outcomes-differ-stub-vs-direct", stub=out_stub, direct=out_direct))
        # move the stub-made patch next to the real files (explicit file list)
        via_dir = os.path.join(tmp, "via")
        shutil.copytree(real_dir, via_dir)
        tgt = os.path.join(via_dir, "rec.p%d.ih5" % (len(files)))
        shutil.copy(stub_patch, tgt)
        if os.path.exists(stub_patch + "mf.json"):
            shutil.copy(stub_patch + "mf.json", tgt + "mf.json")
        dump_via = None
        try:
            v = IH5MFRecord(Path(via_dir) / "rec", "r")
            dump_via = H.dump(v)
            v.close()
            if dump_via != dump_direct:
                diff = sorted(p for p in set(dump_via) | set(dump_direct) if dump_via.get(p) != dump_direct.get(p))[:4]
                oracle.append(dict(kind="stub-patch-result-differs", paths=diff, via=[dump_via.get(p) for p in diff], direct=[dump_direct.get(p) for p in diff]))
        except Exception as e:  # noqa: BLE001
            oracle.append(dict(kind="stub-patch-rejected-by-real-record", error="%s: %s" % (type(e).__name__, str(e)[:160])))
        # also as plain IH5Record
        try:
            v = IH5Record([Path(os.path.join(via_dir, f)) for f in sorted(os.listdir(via_dir)) if f.endswith(".ih5")], "r")
            if H.dump(v) != dump_direct:
                oracle.append(dict(kind="stub-patch-result-differs-plain-ih5"))
            v.close()
        except Exception as e:  # noqa: BLE001
            oracle.append(dict(kind="stub-patch-rejected-by-real-record-plain-ih5", error=type(e).__name__))
        if any(H.is_ok(x) for x in out_direct):
            tags.append("update-effective")
        if any(op[0] == "del" and H.is_ok(o) for op, o in zip(upd, out_direct)):
            tags.append("update-deletes")
        out += [H.show_dump(d_real), "wf T", H.show_skel(d_real), "ok", "ok"] + [H.oc(x) for x in out_direct] + [H.show_dump(dump_direct)]
        out += ["ok", "ok", H.show_skel(d_stub), H.show_dump(d_stub), "ok"] + [H.oc(x) for x in out_stub] + ["ok"]
        if dump_via is not None:
            out.append(H.show_dump(dump_via))
        return dict(out=out, oracle=oracle, tags=tags, partial=dump_via is None)
    finally:
        shutil.rmtree(tmp, ignore_errors=True)


def lines(case):
    L = []
    for op in case["ops"]:
        if op[0] == "patch" or (op[0] == "reopen" and op[1] == "commit"):
            L.append("patch")
        elif op[0] == "reopen":
            continue
        else:
            L.append(H.op_line(op))
    upd = [H.op_line(op) for op in case.get("update") or []]
    L += ["dump", "wf", "skel", "save", "patch"] + upd + ["dump"]
    L += ["restore", "stub", "skel", "dump", "patch"] + upd + ["graft", "dump"]
    return L


def compare(case, ir, mo):
    out = ir.get("out") or []
    if ir.get("partial") or len(out) != len(mo):
        mo = mo[: len(out)]
    return core.default_compare(case, dict(out=out), mo)


def rand_update(rng, n):
    """existence-based update: set/grp/del/sattr/dattr only (no copy/move: those read values)"""
    return [H.rand_op(rng, ["/a", "/b", "/a/b", "/a/a", "/b/c", "/c"], allow_copy=False) for _ in range(n)]


def gen_cases(ctx):
    rng = ctx.rng
    n = 30 if ctx.quick else 600
    cases = []
    for i in range(n):
        ops = []
        if rng.random() < 0.3:
            # manifest-extension chains: several commits, some overriding the extensions, with
            # close/reopen (committed or leaving the patch uncommitted) in between
            for j in range(rng.randrange(2, 6)):
                ops += [H.rand_op(rng, ["/a", "/b", "/a/b"], allow_copy=False) for _ in range(rng.randrange(1, 3))]
                r = rng.random()
                if r < 0.45:
                    ops.append(["patch", {"k": j}])
                elif r < 0.7:
                    ops.append(["patch"])
                elif r < 0.85:
                    ops.append(["reopen", "commit"])
                if rng.random() < 0.4:
                    ops += [H.rand_op(rng, ["/a", "/b"], allow_copy=False), ["reopen", "uncommitted"]]
            cases.append(dict(ops=ops, update=rand_update(rng, rng.randrange(1, 5)), final_exts=rng.choice([None, None, None, {"final": 1}])))
            continue
        for op in H.rand_history(rng, rng.randrange(3, 22), boundary_p=rng.choice([0.1, 0.25])):
            if op[0] == "patch":
                r = rng.random()
                if r < 0.25:
                    ops.append(["patch", {"k": rng.randrange(3)}])
                elif r < 0.45:
                    ops.append(["reopen", rng.choice(["commit", "uncommitted"])])
                else:
                    ops.append(["patch"])
            else:
                ops.append(op)
        cases.append(dict(ops=ops, update=rand_update(rng, rng.randrange(1, 9)),
                          final_exts=rng.choice([None, None, {"final": 1}])))
    return cases


def run(ctx):
    ctx.rule = ("random histories on a real IH5MFRecord (set/grp/del/sattr/dattr/copy/move, patch boundaries with/without manifest_exts override, close/reopen "
                "committed or uncommitted); stub from the newest manifest; existence-based update (set/grp/del/sattr/dattr) via stub and directly; "
                "non-trivial = >=3 containers, inherited extensions, reopen with uncommitted patch, effective update, update deletes")
    cases = core.load_corpus(ID) + gen_cases(ctx)
    ctx.correspond("stub-model", MOD, cases, lines, "drv_mrg", compare=compare, timeout=120)


def signature(case, detail):
    return "%s:%s" % (ID, detail.get("kind"))


def shrink(ctx, case, detail):
    want = detail.get("kind")
    with pool.Session(MOD, "impl") as ses:
        def hit(c):
            r = ses.call(c, timeout=120)
            if "timeout" in r:
                return [dict(kind="does-not-terminate")] if want == "does-not-terminate" else []
            return [d for d in r.get("ok", {}).get("oracle", []) if d.get("kind") == want]
        if hit(case):
            case = dict(case, update=core.ddmin(case.get("update", []), lambda u: hit(dict(case, update=u)), max_tests=40) if len(case.get("update", [])) > 1 else case.get("update", []))
            case = dict(case, ops=core.ddmin(case["ops"], lambda o: hit(dict(case, ops=o)), max_tests=80))
            ds = hit(case)
            if ds:
                detail = ds[0]
    return case, detail


def search(ctx):
    for s in range(1, 3):
        sub = core.Ctx(ID, "quick", ctx.seed + 7919 * s)
        cases = gen_cases(sub)
        res = pool.run(MOD, "impl", cases, timeout=120)
        ctx.search_log.append("seed %d: %d cases" % (sub.seed, len(cases)))
        for c, r in zip(cases, res):
            if "ok" in r and r["ok"]["oracle"]:
                return shrink(ctx, c, r["ok"]["oracle"][0])
    return None


def replay(ctx, rep):
    case = rep.get("case")
    if not case:
        print(core.canon(rep)[:3000])
        return 0
    r = pool.run_one(MOD, "impl", case, timeout=300)
    print("implementation:", core.canon(r)[:3000])
    return 1 if ("ok" in r and r["ok"]["oracle"]) or "timeout" in r else 0
