"""C10 — Patches built on a stub apply to the real record with the same result.

Oracle (real code only): build a real IH5MFRecord with a random history; after EVERY commit the
manifest on disk matches hash and uuid recorded in the newest container, describes the current
skeleton, and manifest extensions persist until overridden (also across close/reopen, also when
the newest patch was left uncommitted). A stub created from the newest manifest exposes the same
paths / kinds / attribute names, none of the data, and cannot be merged. An existence-based
update applied (a) on top of the stub and (b) directly on a copy of the real record gives the same
patched record once the stub-made patch is put next to the real files.
Correspondence: Lean overlay model (`stubCont`, `existence_determined`), see Props/C10.lean.
"""
import hashlib
import json
import os
import shutil
import tempfile

from .. import core, lean, pool
from . import h5util as H
from . import mfutil as MU

ID = "C10"
MOD = "harness.props.c10"
LEAN = dict(modules=["MetadorModel.Props.C10"],
            theorems=["MetadorModel.C10." + n for n in ['stub_identity', 'stub_patch_accepted', 'stub_patch_same_block', 'stub_merge_refused', 'stub_skeleton', 'stub_single',
                                                               'stub_sameSkel', 'stub_inv', 'stub_mentions',
                                                               'existence_determined', 'existence_determined_ok',
                                                               'existence_determined_error',
                                                               'stub_patch_same_result_partial',
                                                               'stub_patch_same_result_of_step_inv',
                                                               'stub_patch_same_view', 'stub_patch_same_result',
                                                               'stub_patch_same_result_holds']]
            + ["MetadorModel.Follow." + n for n in ['look_shape', 'obsOf_congr', 'step_top', 'run_same_patches',
                                                    'follow_same_skel', 'invAlong_of_step_inv', 'invAlongB_sound']],
            drivers=["drv_mrg"])
# translated tie (harness/translate_c05.py, shared with C05): `init_stub_skeleton`, `init_stub_base`, `create_stub`,
# `commit_patch`, `_fresh_manifest` and the stub guard of `merge_files` are regenerated from the source on every run
LEAN["modules"] += ["MetadorModel.Bridge.MergeFnsTree", "MetadorModel.Bridge.MergeFnsCommit", "MetadorModel.Bridge.MergeFnsStub",
                    "MetadorModel.Bridge.MergeFns"]
LEAN["theorems"] += ["MetadorModel.Bridge.MergeFns." + n for n in [
    'stubFold_eq', 'gen_manifest', 'gen_fresh_manifest', 'gen_commit_patch_ok', 'gen_commit_patch_refused',
    'gen_commit_patch_linked', 'gen_commit_patch_exts',
    'gen_init_stub_skeleton_fold', 'gen_init_stub_skeleton', 'gen_init_stub_skeleton_refused', 'gen_init_stub_base',
    'gen_create_stub', 'gen_stub_ub', 'gen_merge_files_mf', 'gen_stub_merge_refused']]


def translate(ctx):
    """the generator of C05 (one Gen file for both properties)"""
    from . import c05
    return c05.translate(ctx)


def _sha(p):
    return "sha256:" + hashlib.sha256(open(p, "rb").read()).hexdigest()


def _check_manifest(rec, oracle, where, expect_exts, idx=-1):
    """the manifest clauses for the newest COMMITTED container (`idx` = -1, or -2 while a patch is open)"""
    from metador_core.ih5.manifest import IH5UBExtManifest, IH5Manifest
    from metador_core.ih5.skeleton import IH5Skeleton

    last = rec.ih5_files[idx]
    ub = rec.ih5_meta[idx]
    ext = IH5UBExtManifest.get(ub)
    mfp = str(last) + "mf.json"
    if ext is None:
        oracle.append(dict(kind="no-manifest-extension-after-commit", where=where))
        return
    if not os.path.isfile(mfp):
        oracle.append(dict(kind="manifest-file-missing-after-commit", where=where))
        return
    if str(ext.manifest_hashsum) != _sha(mfp):
        oracle.append(dict(kind="manifest-hash-mismatch-after-commit", where=where))
    try:
        mf = IH5Manifest.parse_file(mfp)
    except Exception as e:  # noqa: BLE001
        oracle.append(dict(kind="manifest-file-unreadable-after-commit", where=where, error=type(e).__name__))
        return
    if mf.manifest_uuid != ext.manifest_uuid:
        oracle.append(dict(kind="manifest-uuid-mismatch-after-commit", where=where))
    # the ub stored on disk must carry the same ext
    from metador_core.ih5.record import IH5UserBlock
    disk_ext = IH5UBExtManifest.get(IH5UserBlock.load(last))
    if disk_ext is None or disk_ext.manifest_uuid != mf.manifest_uuid or str(disk_ext.manifest_hashsum) != _sha(mfp):
        oracle.append(dict(kind="manifest-not-linked-on-disk", where=where))
    sk_mf = json.loads(mf.skeleton.json())
    if idx == -1:
        sk_now = json.loads(IH5Skeleton.for_record(rec).json())
        if sk_now != sk_mf:
            diff = sorted(k for k in set(sk_now) | set(sk_mf) if sk_now.get(k) != sk_mf.get(k))[:4]
            oracle.append(dict(kind="manifest-skeleton-differs", where=where, paths=diff))
        # independently of IH5Skeleton: paths, node kinds and attribute names of what the record shows
        shown = H.skel(H.dump(rec))
        listed = {("/" + k.strip("/")) if k != "/" else "/": [v["node_type"], sorted(v["attrs"].keys())] for k, v in sk_mf.items()}
        if {k: [v[0], v[1]] for k, v in shown.items()} != listed:
            diff = sorted(k for k in set(shown) | set(listed) if shown.get(k) != listed.get(k))[:4]
            if not any(d.get("kind") == "manifest-skeleton-differs" and d.get("where") == where for d in oracle):
                oracle.append(dict(kind="manifest-skeleton-differs", where=where, paths=diff, shown=[shown.get(k) for k in diff], manifest=[listed.get(k) for k in diff]))
    if mf.manifest_exts != expect_exts:
        oracle.append(dict(kind="manifest-exts-not-persisted", where=where, got=mf.manifest_exts, expected=expect_exts))
    if rec.manifest.manifest_uuid != mf.manifest_uuid:
        oracle.append(dict(kind="loaded-manifest-is-not-the-newest", where=where))


BAD_COMMITS = ["redundant", "redundant-exts", "readonly", "kwarg-closed", "kwarg-open"]


def _refused_commit(rec, how):
    """a commit attempt that the base class refuses; returns the exception (None = not refused)"""
    try:
        if how == "redundant-exts":
            rec.commit_patch(manifest_exts={"never": 1})
        elif how in ("kwarg-closed", "kwarg-open"):
            rec.commit_patch(manifest_ext={"typo": 1})
        else:
            rec.commit_patch()
    except Exception as e:  # noqa: BLE001
        return e
    return None


def impl(case):
    from pathlib import Path
    from metador_core.ih5.manifest import IH5MFRecord
    from metador_core.ih5.record import IH5Record

    tmp = tempfile.mkdtemp(prefix="vt-c10-")
    oracle, tags, out = [], [], []
    try:
        real_dir = os.path.join(tmp, "real")
        os.makedirs(real_dir)
        rec = IH5MFRecord(Path(real_dir) / "rec", "w")
        exts = {}
        ncommit = 0

        def commit(new_exts):
            nonlocal exts, ncommit
            if new_exts is not None:
                if exts and not new_exts:
                    tags.append("exts-cleared-by-empty-override")
                rec_commit(manifest_exts=new_exts)
                exts = new_exts
            else:
                rec_commit()
            ncommit += 1
            _check_manifest(rec, oracle, "commit %d" % ncommit, exts)

        def rec_commit(**kw):
            rec.commit_patch(**kw)

        for op in case["ops"]:
            if op[0] == "patch":
                commit(op[1] if len(op) > 1 else None)
                rec.create_patch()
                out.append("ok")
            elif op[0] == "badcommit":
                how = op[1]
                tags.append("refused-commit:" + how)
                if how == "kwarg-open":
                    # misspelled keyword while the patch is open: refused, the patch stays open, what
                    # has been committed before (if anything) keeps its manifest
                    _refused_commit(rec, how)
                    if len(rec.ih5_files) > 1:
                        _check_manifest(rec, oracle, "after refused commit (%s)" % how, exts, idx=-2)
                    continue
                commit(None)
                if how == "readonly":
                    rec.close()
                    rec = IH5MFRecord(Path(real_dir) / "rec", "r")
                _refused_commit(rec, how)
                # the clauses hold after EVERY commit attempt, also a refused one ...
                _check_manifest(rec, oracle, "after refused commit (%s)" % how, exts)
                d_before = H.dump(rec)
                rec.close()
                # ... and the record opens again
                try:
                    rec = IH5MFRecord(Path(real_dir) / "rec", "r")
                    if H.dump(rec) != d_before:
                        oracle.append(dict(kind="record-differs-after-refused-commit", how=how))
                    _check_manifest(rec, oracle, "reopened after refused commit (%s)" % how, exts)
                    rec.close()
                    rec = IH5MFRecord(Path(real_dir) / "rec", "r+")
                except Exception as e:  # noqa: BLE001
                    oracle.append(dict(kind="record-does-not-reopen-after-refused-commit", how=how, error="%s: %s" % (type(e).__name__, str(e)[:160])))
                    return dict(out=out, oracle=oracle, tags=tags, partial=True)
                out.append("ok")
            elif op[0] == "reopen":
                # close (committing) and reopen; or leave the patch uncommitted and continue it
                if op[1] == "commit":
                    commit(None)
                    rec.close()
                    rec = IH5MFRecord(Path(real_dir) / "rec", "r+")
                    if len(rec.ih5_files) > 1:
                        _check_manifest(rec, oracle, "reopened after commit %d" % ncommit, exts, idx=-2)
                    out.append("ok")
                else:
                    rec.close(commit=False)
                    rec = IH5MFRecord(Path(real_dir) / "rec", "r+")
                    if len(rec.ih5_files) > 1:
                        _check_manifest(rec, oracle, "reopened with the patch uncommitted", exts, idx=-2)
                    tags.append("reopen-uncommitted")
            else:
                out.append(H.oc(H.apply_op(rec, op)))
        commit(case.get("final_exts"))
        if len(exts) and ncommit > 1:
            tags.append("exts-inherited")
        rec.close()
        ncont = len([f for f in os.listdir(real_dir) if f.endswith(".ih5")])
        if ncont >= 3:
            tags.append("containers>=3")

        real = IH5MFRecord(Path(real_dir) / "rec", "r")
        d_real = H.dump(real)
        files = [str(p) for p in real.ih5_files]
        mfpath = files[-1] + "mf.json"
        _check_manifest(real, oracle, "reopened after the last commit", exts)
        # a commit on a record opened read-only is refused and changes nothing
        if case.get("ro_commit"):
            _refused_commit(real, "readonly")
            _check_manifest(real, oracle, "after refused commit (readonly, final)", exts)
            tags.append("refused-commit:readonly")
        real.close()
        try:
            real = IH5MFRecord([Path(f) for f in files], "r")
            real.close()
        except Exception as e:  # noqa: BLE001
            oracle.append(dict(kind="record-does-not-reopen-after-refused-commit", how="readonly", error="%s: %s" % (type(e).__name__, str(e)[:160])))
            return dict(out=out, oracle=oracle, tags=tags, partial=True)

        # --- stub
        stub_dir = os.path.join(tmp, "stub")
        os.makedirs(stub_dir)
        stub = IH5MFRecord.create_stub(Path(stub_dir) / "rec", Path(mfpath))
        d_stub = H.dump(stub)
        if H.skel(d_stub) != H.skel(d_real):
            diff = sorted(p for p in set(d_stub) | set(d_real) if H.skel(d_stub).get(p) != H.skel(d_real).get(p))[:4]
            oracle.append(dict(kind="stub-skeleton-differs", paths=diff))
        leaked = [p for p, v in d_stub.items() if (v[0] == "dataset" and v[1] != "empty") or any(a != "empty" for a in v[2].values())]
        if leaked:
            oracle.append(dict(kind="stub-contains-data", paths=leaked[:4]))
        try:
            stub.merge_files(Path(tmp) / "stubmerge")
            oracle.append(dict(kind="stub-merge-not-refused"))
        except ValueError:
            pass
        stub.close()

        # --- existence-based update via stub and directly
        upd = case.get("update") or []
        direct_dir = os.path.join(tmp, "direct")
        shutil.copytree(real_dir, direct_dir)
        d = IH5MFRecord(Path(direct_dir) / "rec", "r+")
        out_direct = [H.apply_op(d, op) for op in upd]
        d.commit_patch()
        dump_direct = H.dump(d)
        d.close()

        try:
            s = IH5MFRecord(Path(stub_dir) / "rec", "r+")
        except Exception as e:  # noqa: BLE001
            oracle.append(dict(kind="stub-cannot-be-opened-for-patching", error="%s: %s" % (type(e).__name__, str(e)[:160])))
            return dict(out=out, oracle=oracle, tags=tags, partial=True)
        out_stub = [H.apply_op(s, op) for op in upd]
        s.commit_patch()
        stub_patch = str(s.ih5_files[-1])
        s.close()
        if [H.is_ok(x) for x in out_stub] != [H.is_ok(x) for x in out_direct]:
            oracle.append(dict(kind="update-outcomes-differ-stub-vs-direct", stub=out_stub, direct=out_direct))
        # move the stub-made patch next to the real files (explicit file list)
        via_dir = os.path.join(tmp, "via")
        shutil.copytree(real_dir, via_dir)
        tgt = os.path.join(via_dir, "rec.p%d.ih5" % (len(files)))
        shutil.copy(stub_patch, tgt)
        if os.path.exists(stub_patch + "mf.json"):
            shutil.copy(stub_patch + "mf.json", tgt + "mf.json")
        dump_via = None
        try:
            v = IH5MFRecord(Path(via_dir) / "rec", "r")
            dump_via = H.dump(v)
            v.close()
            if dump_via != dump_direct:
                diff = sorted(p for p in set(dump_via) | set(dump_direct) if dump_via.get(p) != dump_direct.get(p))[:4]
                oracle.append(dict(kind="stub-patch-result-differs", paths=diff, via=[dump_via.get(p) for p in diff], direct=[dump_direct.get(p) for p in diff]))
        except Exception as e:  # noqa: BLE001
            oracle.append(dict(kind="stub-patch-rejected-by-real-record", error="%s: %s" % (type(e).__name__, str(e)[:160])))
        # also as plain IH5Record
        try:
            v = IH5Record([Path(os.path.join(via_dir, f)) for f in sorted(os.listdir(via_dir)) if f.endswith(".ih5")], "r")
            if H.dump(v) != dump_direct:
                oracle.append(dict(kind="stub-patch-result-differs-plain-ih5"))
            v.close()
        except Exception as e:  # noqa: BLE001
            oracle.append(dict(kind="stub-patch-rejected-by-real-record-plain-ih5", error=type(e).__name__))
        if any(H.is_ok(x) for x in out_direct):
            tags.append("update-effective")
        if any(op[0] == "del" and H.is_ok(o) for op, o in zip(upd, out_direct)):
            tags.append("update-deletes")
        out += [H.show_dump(d_real), "wf T", H.show_skel(d_real), "ok", "ok"] + [H.oc(x) for x in out_direct] + [H.show_dump(dump_direct)]
        out += ["ok", "ok", H.show_skel(d_stub), H.show_dump(d_stub), "ok"] + [H.oc(x) for x in out_stub] + ["ok"]
        if dump_via is None:
            return dict(out=out, oracle=oracle, tags=tags, partial=True)
        out.append(H.show_dump(dump_via))
        # "a stub cannot be merged": neither alone nor with committed patches on top, neither in the
        # session that made it nor re-opened from disk (by name, by file list, r+)
        if case.get("stubset"):
            pairs = MU.stub_set_merges(tmp, mfpath, case["stubset"], oracle, tags, kind="stub-merge-not-refused")
            out += [w for _, w in pairs]
        return dict(out=out, oracle=oracle, tags=tags)
    finally:
        shutil.rmtree(tmp, ignore_errors=True)


def lines(case):
    L = []
    for op in case["ops"]:
        if op[0] == "patch" or (op[0] == "reopen" and op[1] == "commit") or (op[0] == "badcommit" and op[1] != "kwarg-open"):
            L.append("patch")
        elif op[0] in ("reopen", "badcommit"):
            continue
        else:
            L.append(H.op_line(op))
    upd = [H.op_line(op) for op in case.get("update") or []]
    L += ["dump", "wf", "skel", "save", "patch"] + upd + ["dump"]
    L += ["restore", "stub", "skel", "dump", "patch"] + upd + ["graft", "dump"]
    sp = case.get("stubset")
    if sp:
        k = len(sp.get("patches") or [])
        L += ["guard 1%s 0" % ("0" * a) for a in range(k + 1)]
        L += ["guard 1%s 0" % ("0" * (k + 1 if how == "name-rw" else k)) for how in sp.get("reopen") or MU.STUB_OPENINGS]
    return L


def compare(case, ir, mo):
    out = ir.get("out") or []
    if ir.get("partial") or len(out) != len(mo):
        mo = mo[: len(out)]
    return core.default_compare(case, dict(out=out), mo)


def rand_update(rng, n):
    """existence-based update: set/grp/del/sattr/dattr only (no copy/move: those read values)"""
    return [H.rand_op(rng, ["/a", "/b", "/a/b", "/a/a", "/b/c", "/c"], allow_copy=False) for _ in range(n)]


WRITE_KINDS = ["datasets", "groups", "root-attrs", "child-attrs", "exts-only", "empty", "deletes", "mixed"]
PATHS = ["/a", "/b", "/a/b", "/a/a", "/b/c", "/c"]


def patch_ops(rng, kind):
    """the writes of one patch of a given 'write kind'"""
    k = rng.randrange(1, 4)
    if kind == "datasets":
        return [["set", rng.choice(PATHS), rng.choice(H.VALS)] for _ in range(k)]
    if kind == "groups":
        return [["grp", rng.choice(PATHS)] for _ in range(k)]
    if kind == "root-attrs":
        return [rng.choice([["sattr", "/", rng.choice(H.ATTRS + ["n"]), rng.choice(H.VALS)], ["sattr", "/", rng.choice(H.ATTRS + ["n"]), rng.choice(H.VALS)],
                            ["dattr", "/", rng.choice(H.ATTRS)]]) for _ in range(k)]
    if kind == "child-attrs":
        return [rng.choice([["sattr", rng.choice(PATHS), rng.choice(H.ATTRS), rng.choice(H.VALS)], ["dattr", rng.choice(PATHS), rng.choice(H.ATTRS)]]) for _ in range(k)]
    if kind in ("exts-only", "empty"):
        return []
    if kind == "deletes":
        return [["del", rng.choice(PATHS)] for _ in range(k)]
    return [H.rand_op(rng, PATHS, allow_copy=False) for _ in range(k + 1)]


def ext_override(rng, j):
    """an explicitly provided manifest_exts value: any dict is an override, the empty one (which clears inherited
    extensions) and ones with falsy / nested values included"""
    return rng.choice([{"k": j}, {"k": j}, {}, {}, {"k": j, "z": []}, {"e": {}}, {"k": 0}])


def boundary(rng, kind=None, j=0):
    """a way of ending a patch: plain commit, commit overriding the extensions, committing close +
    reopen, or a commit followed by a commit attempt that is refused"""
    if kind == "exts-only":
        return ["patch", ext_override(rng, j)]
    r = rng.random()
    if r < 0.35:
        return ["patch"]
    if r < 0.55:
        return ["patch", ext_override(rng, j)]
    if r < 0.7:
        return ["reopen", "commit"]
    return ["badcommit", rng.choice(BAD_COMMITS[:4])]


def kinds_case(rng, kinds, bad=None):
    """base container with some content (root attributes included), then one patch per entry of
    `kinds`; every patch is ended in a random way (`bad`: by that refused commit)"""
    ops = [["set", "/a/b", "i:1"], ["sattr", "/", "k", "i:0"], ["sattr", "/a", "m", "i:7"]] + [H.rand_op(rng, PATHS, allow_copy=False) for _ in range(rng.randrange(0, 4))]
    ops.append(boundary(rng, None, 0) if bad is None else ["badcommit", bad] if bad != "kwarg-open" else ["patch"])
    for j, kd in enumerate(kinds):
        w = patch_ops(rng, kd)
        if bad == "kwarg-open" or rng.random() < 0.1:
            w.insert(rng.randrange(0, len(w) + 1), ["badcommit", "kwarg-open"])
        ops += w
        if j < len(kinds) - 1:
            ops.append(["badcommit", bad] if bad not in (None, "kwarg-open") and rng.random() < 0.6 else boundary(rng, kd, j + 1))
    final = rng.choice([{"final": 1}, {}]) if kinds and kinds[-1] == "exts-only" else rng.choice([None, None, {"final": 1}, {}])
    return dict(ops=ops, update=rand_update(rng, rng.randrange(1, 5)), final_exts=final, ro_commit=bad == "readonly" or rng.random() < 0.3)


def sweep_cases(rng):
    """systematic part: every write kind as the LAST patch before the final commit and as an inner
    patch; every kind of refused commit; stubs with 0..3 committed patches"""
    cases = []
    for kd in WRITE_KINDS:
        cases.append(kinds_case(rng, [kd]))
        cases.append(kinds_case(rng, [rng.choice(WRITE_KINDS), kd, rng.choice(WRITE_KINDS)]))
    for bad in BAD_COMMITS:
        cases.append(kinds_case(rng, [rng.choice(WRITE_KINDS) for _ in range(rng.randrange(1, 3))], bad=bad))
    for k in range(4):
        c = kinds_case(rng, [rng.choice(WRITE_KINDS)])
        c["stubset"] = dict(patches=[[H.rand_op(rng, PATHS, allow_copy=False) for _ in range(rng.randrange(0, 3))] for _ in range(k)], reopen=list(MU.STUB_OPENINGS))
        cases.append(c)
    return cases


def gen_cases(ctx, sweep=True):
    rng = ctx.rng
    n = 30 if ctx.quick else 600
    cases = sweep_cases(rng) if sweep else []
    for i in range(n):
        ops = []
        r0 = rng.random()
        if r0 < 0.25:
            cases.append(kinds_case(rng, [rng.choice(WRITE_KINDS) for _ in range(rng.randrange(1, 5))], bad=rng.choice([None, None] + BAD_COMMITS)))
            if rng.random() < 0.3:
                cases[-1]["stubset"] = dict(patches=[[H.rand_op(rng, PATHS, allow_copy=False)] for _ in range(rng.randrange(0, 4))], reopen=list(MU.STUB_OPENINGS))
            continue
        if r0 < 0.5:
            # manifest-extension chains: several commits, some overriding the extensions, with
            # close/reopen (committed or leaving the patch uncommitted) in between
            for j in range(rng.randrange(2, 6)):
                ops += [H.rand_op(rng, ["/a", "/b", "/a/b"], allow_copy=False) for _ in range(rng.randrange(1, 3))]
                r = rng.random()
                if r < 0.45:
                    ops.append(["patch", {"k": j}])
                elif r < 0.7:
                    ops.append(["patch"])
                elif r < 0.85:
                    ops.append(["reopen", "commit"])
                if rng.random() < 0.4:
                    ops += [H.rand_op(rng, ["/a", "/b"], allow_copy=False), ["reopen", "uncommitted"]]
            cases.append(dict(ops=ops, update=rand_update(rng, rng.randrange(1, 5)), final_exts=rng.choice([None, None, None, {"final": 1}, {}])))
            continue
        for op in H.rand_history(rng, rng.randrange(3, 22), boundary_p=rng.choice([0.1, 0.25])):
            if op[0] == "patch":
                r = rng.random()
                if r < 0.25:
                    ops.append(["patch", {"k": rng.randrange(3)}])
                elif r < 0.45:
                    ops.append(["reopen", rng.choice(["commit", "uncommitted"])])
                elif r < 0.6:
                    ops.append(["badcommit", rng.choice(BAD_COMMITS)])
                else:
                    ops.append(["patch"])
            else:
                ops.append(op)
        cases.append(dict(ops=ops, update=rand_update(rng, rng.randrange(1, 9)),
                          final_exts=rng.choice([None, None, {"final": 1}, {}]), ro_commit=rng.random() < 0.3))
        if rng.random() < 0.25:
            cases[-1]["stubset"] = dict(patches=[[H.rand_op(rng, PATHS, allow_copy=False)] for _ in range(rng.randrange(0, 4))], reopen=list(MU.STUB_OPENINGS))
    return cases


def run(ctx):
    ctx.exhaustive_spaces += ["write kind of a patch (datasets, groups, root attributes only, child attributes only, manifest_exts only, empty, deletes, "
                              "mixed) as last and as inner patch", "kinds of refused commit (redundant, redundant with exts, read-only handle, unknown keyword with "
                              "and without an open patch)", "stub + k committed patches, k = 0..3, x 4 ways of re-opening + in-session"]
    ctx.rule = ("random histories on a real IH5MFRecord (set/grp/del/sattr/dattr/copy/move, patches of every write kind, patch boundaries with/without "
                "manifest_exts override, close/reopen committed or uncommitted, commit attempts that are refused, each followed by a reopen; manifest clauses "
                "after every commit attempt); stub from the newest manifest; stub with 0..3 committed patches merged in-session and re-opened; existence-based update (set/grp/del/sattr/dattr) via stub and directly; "
                "non-trivial = >=3 containers, inherited extensions, reopen with uncommitted patch, effective update, update deletes")
    cases = core.load_corpus(ID) + gen_cases(ctx)
    ctx.correspond("stub-model", MOD, cases, lines, "drv_mrg", compare=compare, timeout=120)


def signature(case, detail):
    return "%s:%s" % (ID, detail.get("kind"))


def shrink(ctx, case, detail):
    want = detail.get("kind")
    with pool.Session(MOD, "impl") as ses:
        def hit(c):
            r = ses.call(c, timeout=120)
            if "timeout" in r:
                return [dict(kind="does-not-terminate")] if want == "does-not-terminate" else []
            return [d for d in r.get("ok", {}).get("oracle", []) if d.get("kind") == want]
        if hit(case):
            case = dict(case, update=core.ddmin(case.get("update", []), lambda u: hit(dict(case, update=u)), max_tests=40) if len(case.get("update", [])) > 1 else case.get("update", []))
            case = dict(case, ops=core.ddmin(case["ops"], lambda o: hit(dict(case, ops=o)), max_tests=80))
            ds = hit(case)
            if ds:
                detail = ds[0]
    return case, detail


def search(ctx):
    for s in range(1, 3):
        sub = core.Ctx(ID, "quick", ctx.seed + 7919 * s)
        cases = gen_cases(sub)
        res = pool.run(MOD, "impl", cases, timeout=120)
        ctx.search_log.append("seed %d: %d cases" % (sub.seed, len(cases)))
        for c, r in zip(cases, res):
            if "ok" in r and r["ok"]["oracle"]:
                return shrink(ctx, c, r["ok"]["oracle"][0])
    return None


def replay(ctx, rep):
    case = rep.get("case")
    if not case:
        print(core.canon(rep)[:3000])
        return 0
    r = pool.run_one(MOD, "impl", case, timeout=300)
    print("implementation:", core.canon(r)[:3000])
    return 1 if ("ok" in r and r["ok"]["oracle"]) or "timeout" in r else 0
