"""C02 — Committed IH5 containers are never modified again.

Lean: Model/FindFiles.lean, Model/Record.lean, Proofs/Record*.lean, Props/C02.lean; driver drv_rec.
Correspondence: random API histories on REAL IH5Record / IH5MFRecord objects in a temporary
directory vs. the file-level record model: outcome class of every call, handle (file list,
patch indices, committed flags, writability), directory listing with committed flags,
set of rewritten files (must <= changed <= must+may), visible writes.
Oracle (real code only): sha256 monitor over every *.ih5 / *.ih5mf.json after every call —
a file once seen committed (and its sidecar) never changes or disappears; the files named at
each commit, as they are at the end of the history, still open and show the dump taken at
that commit.

The real-code runner of this module (`run_ops`) is shared with c03.py.

Ops: `["write", k]` writes the dataset `w<k>`; `["write", k, kind]` with kind g / a / n creates the
group `g<k>`, sets the root attribute `a<k>`, sets the attribute `a<k>` of the first child (root when
there is none) — for the record model all of them are "a write with id k into the newest container".
Optional keyword arguments: an `open` op may end with a dict `{"mf": <file name|None>, "bl": <bool>, "nomode": 1, "str": 1}` =
`manifest_file=` (a path inside the directory), `allow_baseless=`, mode argument omitted (default `r`), record path passed as `str`; `["commit", {"exts": {..}}]` =
`commit_patch(manifest_exts=..)`; `["close", c]` = `close(commit=c)`, `["close", 1, "d"]` = `close()`, `["close", 1, "x"]` = `__exit__`
(end of a `with` block), `["close", 1, "xe"]` = `__exit__(type, value, traceback)` of an exception raised inside the `with` block (an
`open` op is `with Record(...) as r:`, the ops up to the close are the body; record.py:652 ignores the arguments — for the model all
three are `close 1`). Model: `Model/RecordKw.lean` (driver lines `openk`, `commitk`).
Stub life cycle: `["stub", name, manifest]` = `IH5MFRecord.create_stub(dir/name, dir/manifest)` — a committed base container made
from a manifest sidecar (manifest.py:262); the returned handle allows patching. Model: `Model/RecordStub.lean` (driver lines `stub`,
`exit`; merge refused on stubs); histories that also open handles without their base run under the oracle only (`modelled`). `stubpatch` file lists = the real chain the manifest belongs to + the patches committed on the stub.
Class keys: `p` IH5Record, `m` IH5MFRecord, `p+<n>` / `m+<n>` subclasses that add n bytes to the
documented `ub_exts` section of the user block on commit (for the model: `p` / `m`).
"""
import gc
import hashlib
import itertools
import json
import os
import re
import shutil
import tempfile

from .. import core, lean

ID = "C02"
MOD = "harness.props.c02"
T = "MetadorModel.C02."
LEAN = dict(
    modules=["MetadorModel.Props.C02"],
    theorems=[T + n for n in [
        "frame", "writes_only_uncommitted_or_fresh", "committed_step", "committed_frozen", "committed_frozen_between",
        "sidecar_frozen", "snapshot_still_valid", "inv_run", "unsafe_w_can_modify",
        "kw_default", "frame_kw", "writes_only_uncommitted_or_fresh_kw", "committed_step_kw", "committed_frozen_kw",
        "sidecar_frozen_kw", "snapshot_still_valid_kw", "inv_run_kw",
        "exit_is_close", "stub_default", "frame_stub", "writes_only_uncommitted_or_fresh_stub", "committed_step_stub",
        "committed_frozen_stub", "sidecar_frozen_stub", "snapshot_still_valid_stub", "inv_run_stub"]],
    drivers=["drv_rec"],
)

OTHERS = ["fo", "foo2", "foo-bar"]
MAIN = "foo"


def hx(s):
    return s.encode("utf-8").hex() if s else "-"


# ----------------------------------------------------------------------------- real code
def _sha(path):
    with open(path, "rb") as f:
        return hashlib.sha256(f.read()).hexdigest()


def _ub_of(path):
    """Parse the user block of a container directly from its bytes (no metador code)."""
    try:
        with open(path, "rb") as f:
            head = f.read(1024)
        parts = head.split(b"\n")
        if len(parts) < 3 or parts[0] != b"ih5_v01":
            return None
        size = int(parts[1])
        if size > 1024:
            with open(path, "rb") as f:
                parts = f.read(size).split(b"\n")
        txt = parts[2]
        txt = txt[: txt.find(b"\x00")] if b"\x00" in txt else txt
        return json.loads(txt.decode("utf-8"))
    except Exception:
        return None


def snapshot(d):
    """name -> (sha256, flag) for every directory entry; flag c/u for containers, m for sidecars."""
    out = {}
    for fn in sorted(os.listdir(d)):
        p = os.path.join(d, fn)
        if not os.path.isfile(p):
            continue
        if fn.endswith(".ih5"):
            ub = _ub_of(p)
            flag = "?" if ub is None else ("c" if ub.get("hdf5_hashsum") is not None else "u")
        elif fn.endswith("mf.json"):
            flag = "m"
        else:
            flag = "?"
        out[fn] = (_sha(p), flag)
    return out


EXC = ["FileNotFoundError", "FileExistsError", "ValueError", "KeyError", "IndexError", "AssertionError", "UnboundLocalError"]


def exc_name(e):
    n = type(e).__name__
    if n in EXC:
        return n
    if isinstance(e, OSError):
        return "OSError"
    return n


def _scalar(v):
    try:
        return int(v[()]) if hasattr(v, "shape") and not isinstance(v, (int, float)) else int(v)
    except Exception:
        return repr(v)


def _opaque(v):
    """canonical text of a dataset that holds no integer (the `h5py.Empty` placeholders of a stub container)"""
    try:
        x = v[()]
        return "empty" if type(x).__name__ == "Empty" else repr(x)
    except Exception as e:  # noqa: BLE001
        return "!" + exc_name(e)


def dump(rec):
    """user-visible content of the record: root attributes, root children (the harness only writes at root
    level: datasets `w<k>`, groups `g<k>`) and their attributes; sorted by key"""
    out = []
    for a in rec.attrs.keys():
        out.append(["@" + a, _scalar(rec.attrs[a])])
    for k in rec.keys():
        v = rec[k]
        if hasattr(v, "keys"):
            out.append([k, "group:%d" % len(list(v.keys()))])
        else:
            try:
                out.append([k, int(v[()])])
            except Exception:
                out.append([k, _opaque(v)])
        for a in v.attrs.keys():
            out.append([k + "@" + a, _scalar(v.attrs[a])])
    return sorted(out, key=lambda e: e[0])


_ID = re.compile(r"^(?:[wg]\d+@|@)?[wga](\d+)$")


def view_ids(rec):
    ids = []
    for k, _ in dump(rec):
        m = _ID.match(k)
        ids.append(int(m.group(1)) if m else -1)
    return sorted(ids)


def write_op(k, kind="d"):
    return ["write", k] if kind == "d" else ["write", k, kind]


def open_kw(op):
    """the keyword-argument dict of an `open` op ({} when it has none)"""
    return op[-1] if len(op) > 5 and isinstance(op[-1], dict) else {}


def open_label(op):
    """the generator's label of an explicit file list (None when there is none)"""
    return op[5] if len(op) > 5 and isinstance(op[5], str) else None


def commit_exts(op):
    return op[1].get("exts") if len(op) > 1 and isinstance(op[1], dict) else None


def do_write(rec, k, kind):
    if kind == "d":
        rec["w%d" % k] = k
    elif kind == "g":
        rec.create_group("g%d" % k)
    elif kind == "a":
        rec.attrs["a%d" % k] = k
    elif kind == "n":
        ks = sorted(rec.keys())
        (rec[ks[0]] if ks else rec).attrs["a%d" % k] = k
    else:
        raise RuntimeError("unknown write kind %r" % (kind,))


def expected_dump(writes):
    """what `dump` shows after the writes [(k, kind)] (in this order) on an empty record"""
    out = {}
    for k, kind in writes:
        if kind == "d":
            out["w%d" % k] = k
        elif kind == "g":
            out["g%d" % k] = "group:0"
        elif kind == "a":
            out["@a%d" % k] = k
        else:
            ks = sorted(x for x in out if "@" not in x)
            out[(ks[0] if ks else "") + "@a%d" % k] = k
    return [[k, v] for k, v in sorted(out.items())]


def handle_str(rec):
    try:
        return _handle_str(rec)
    except BaseException as e:  # noqa: BLE001 - a broken object must not crash the harness
        return "!" + exc_name(e)


def _handle_str(rec):
    if rec is None or rec._closed:
        return "closed"
    fs = []
    for path, ub in zip(rec.ih5_files, rec.ih5_meta):
        fs.append("%s:%d:%s" % (hx(path.name), ub.patch_index, "c" if ub.hdf5_hashsum is not None else "u"))
    return "%s rw=%d allow=%d" % (",".join(fs), 1 if rec._has_writable else 0, 1 if rec.mode == "r+" else 0)


def perm_by(items, seed):
    """permutation number `seed` in the factorial number system (same function in Drv/Rec.lean)"""
    l = list(items)
    out = []
    while l:
        i = seed % len(l)
        seed //= len(l)
        out.append(l.pop(i))
    return out


def cls_pad(c):
    """bytes of extra `ub_exts` content of a class key (0 for the two library classes)"""
    return int(c[2:]) if len(c) > 2 and c[1] == "+" else 0


# length of the JSON text of a committed patch's user block written by the library classes
UB_TEXT = dict(p=287 + 21, m=480 + 23)


def pad_classes(k):
    """pad lengths that put the user-block text of class k into every length class: as is, below / at / just
    above the 512-byte probe of `load` (text 499), long, close to the reserved 1024 bytes"""
    return sorted({max(0, t - UB_TEXT[k]) for t in (UB_TEXT[k], 450, 495, 499, 500, 505, 513, 520, 600, 800, 990, 1000)})


def gen_pad_len(rng, k):
    return rng.randrange(0, 1000 - UB_TEXT[k])


def _extended(base, n):
    class Ext(base):
        """stores provenance-like extra content in the `ub_exts` section when a container is committed
        (same pattern as IH5MFRecord.commit_patch)"""
        PAD = ("vt-ext:" + "0123456789abcdef" * (n // 16 + 1))[:n]

        def commit_patch(self, **kwargs):
            if self._has_writable:
                ub = self._ublock(-1)
                self._set_ublock(-1, ub.copy(update={"ub_exts": {**ub.ub_exts, "vt_ext": {"pad": self.PAD}}}))
            super().commit_patch(**kwargs)

    Ext.__name__ = Ext.__qualname__ = "%sExt%d" % (base.__name__, n)
    return Ext


class _Classes(dict):
    def __missing__(self, key):
        if len(key) > 2 and key[0] in "pm" and key[1] == "+" and key[2:].isdigit():
            self[key] = _extended(self[key[0]], int(key[2:]))
            return self[key]
        raise KeyError(key)


def classes():
    from metador_core.ih5.record import IH5Record
    from metador_core.ih5.manifest import IH5MFRecord
    return _Classes(p=IH5Record, m=IH5MFRecord)


def run_ops(ops, exempt_after_w=True, keep=None):
    """Run an op list on real records in a fresh temporary directory.

    Returns (records, oracle): one record per op: dict(out, h, ls, chg, view, before, after, dump)
    and the hits of the C02 hash-monitor / snapshot oracle.
    `keep`: optional callback(d, recs) called before the directory is removed."""
    from pathlib import Path

    cls = classes()
    d = tempfile.mkdtemp(prefix="vt_rec_")
    rec = None
    recs = []
    oracle = []
    committed = {}  # file name -> sha when first seen committed
    exempt = set()  # names excluded from the monitor (their record was truncated / deleted)
    commits = []  # (op index, [file names], dump, class key)
    last_cls = "p"
    last_bl = False  # the handle was opened with allow_baseless=True (the snapshot oracle reopens the same way)
    last_files = []  # file names of the handle at the latest `close` op (probe ops of C03)
    try:
        before = snapshot(d)
        for i, op in enumerate(ops):
            kind = op[0]
            out = "ok"
            dmp = None
            destructive = None
            try:
                if kind == "open":
                    _, c, mode, by, arg = op[:5]
                    if rec is not None and not rec._closed:
                        out = "busy"
                    else:
                        if mode == "w" and by == "n":
                            destructive = arg
                        target = Path(d) / arg if by == "n" else [Path(d) / a for a in arg]
                        last_cls = c
                        kw = open_kw(op)
                        kwargs = {}
                        if "mf" in kw:
                            kwargs["manifest_file"] = None if kw["mf"] is None else Path(d) / kw["mf"]
                        if "bl" in kw:
                            kwargs["allow_baseless"] = bool(kw["bl"])
                        last_bl = bool(kw.get("bl"))
                        if kw.get("str") and by == "n":
                            target = str(target)  # `record: Union[str, Path, List[Path]]`
                        if kw.get("nomode") and mode == "r":
                            rec = cls[c](target, **kwargs)
                        else:
                            rec = cls[c](target, mode, **kwargs)
                elif kind == "write":
                    do_write(rec, op[1], op[2] if len(op) > 2 else "d")
                elif kind == "read":
                    dmp = dump(rec)
                elif kind == "create":
                    rec.create_patch()
                elif kind == "commit":
                    if commit_exts(op) is not None:
                        rec.commit_patch(manifest_exts=commit_exts(op))
                    else:
                        rec.commit_patch()
                elif kind == "discard":
                    rec.discard_patch()
                elif kind == "close":
                    if rec is not None and not rec._closed:
                        last_files = [p.name for p in rec.ih5_files]
                    how = op[2] if len(op) > 2 else "c"
                    if how == "d" and op[1]:
                        rec.close()
                    elif how == "x" and op[1]:
                        rec.__exit__(None, None, None)
                    elif how == "xe" and op[1]:
                        # the `with` block is left by an exception raised inside it
                        try:
                            raise RuntimeError("vt: raised inside the with block")
                        except RuntimeError as e:
                            rec.__exit__(type(e), e, e.__traceback__)
                    else:
                        rec.close(commit=bool(op[1]))
                elif kind == "openperm":
                    _, c, mode, seed = op
                    if rec is not None and not rec._closed:
                        out = "busy"
                    else:
                        last_cls = c
                        last_bl = False
                        rec = cls[c]([Path(d) / f for f in perm_by(last_files, seed)], mode)
                elif kind == "restore":
                    # undo a probe: drop the patch its open created (if any), then close without commit — the
                    # outcome reported is that of the close (the driver's `restore` does the same)
                    try:
                        if rec is not None and not rec._closed and len(rec.ih5_files) > len(last_files):
                            rec.discard_patch()
                    except Exception:  # noqa: BLE001 - e.g. a read-only probe of a record with more files
                        pass
                    rec.close(commit=False)
                elif kind == "merge":
                    rec.merge_files(Path(d) / op[1])
                elif kind == "stub":
                    if rec is not None and not rec._closed:
                        out = "busy"
                    else:
                        last_cls, last_bl = "m", False
                        try:
                            rec = cls["m"].create_stub(Path(d) / op[1], Path(d) / op[2])
                        except UnicodeDecodeError:  # (a container given as manifest; a ValueError)
                            out = "ValueError"
                elif kind == "delete":
                    destructive = op[1]
                    cls[last_cls].delete_files(Path(d) / op[1])
                else:
                    raise RuntimeError("unknown op %r" % (op,))
            except BaseException as e:  # noqa: BLE001
                out = exc_name(e)
            if out not in ("ok", "busy") and kind in ("open", "openperm", "stub"):
                # a constructor that raised after `_open` leaves a half-built record (and its h5py files)
                # behind until it is collected; the traceback is gone only after the except block
                gc.collect()
            after = snapshot(d)
            chg = sorted(k for k in before if k in after and before[k][0] != after[k][0])
            is_open = rec is not None and not rec._closed
            try:
                view = ",".join(str(x) for x in view_ids(rec)) if is_open else "-"
            except BaseException as e:  # noqa: BLE001
                view = "!" + exc_name(e)
            r = dict(out=out, h=handle_str(rec), ls=",".join("%s:%s" % (hx(k), v[1]) for k, v in sorted(after.items(), key=lambda kv: kv[0].encode())),
                     chg=chg, view=view, before=before, after=after, dump=dmp)
            if is_open:
                try:
                    r["files"] = [p.name for p in rec.ih5_files]
                    r["full"] = dump(rec)
                except BaseException:  # noqa: BLE001
                    r["files"], r["full"] = None, None
            recs.append(r)
            # ---- C02 oracle: hash monitor
            if destructive is not None and exempt_after_w:
                for fn in list(committed):
                    if re.match(re.escape(destructive) + r"[^A-Za-z0-9\-]", fn):
                        exempt.add(fn)
            for fn, sha in committed.items():
                if fn in exempt:
                    continue
                if fn not in after:
                    oracle.append(dict(kind="committed-file-removed", file=fn, step=i, op=op))
                    exempt.add(fn)
                elif after[fn][0] != sha:
                    oracle.append(dict(kind="committed-file-changed", file=fn, step=i, op=op))
                    exempt.add(fn)
            for fn, (sha, flag) in after.items():
                if flag == "c" and (fn not in committed or fn in exempt and destructive is not None):
                    committed[fn] = sha
                    exempt.discard(fn)
                    side = fn + "mf.json"
                    if side in after:
                        committed[side] = after[side][0]
                        exempt.discard(side)
            # ---- commit events: the file set + dump at that moment
            if out == "ok" and is_open and kind in ("commit", "stub") and r.get("files"):
                commits.append((i, list(r["files"]), r["full"], last_cls, last_bl))
            if (out == "ok" and kind == "close" and op[1] and len(recs) >= 2 and recs[-2].get("files") and "rw=1" in recs[-2]["h"]
                    and after.get(recs[-2]["files"][-1], ("", "?"))[1] == "c"):
                commits.append((i, list(recs[-2]["files"]), recs[-2]["full"], last_cls, last_bl))
            if out == "ok" and kind == "merge" and r.get("full") is not None:
                commits.append((i, [op[1] + ".ih5"], r["full"], last_cls, last_bl))
            before = after
        # ---- snapshot oracle: the files named at each commit, as they are now, still open
        if rec is not None and not rec._closed:
            try:
                rec.close(commit=False)
            except BaseException:  # noqa: BLE001
                pass
        final = snapshot(d)
        for (i, files, dmp, c, bl) in commits:
            if any(f in exempt for f in files) or dmp is None:
                continue
            if any(f not in final for f in files):
                continue  # reported by the monitor already
            sd = tempfile.mkdtemp(prefix="vt_snap_")
            try:
                for f in files:
                    shutil.copy(os.path.join(d, f), os.path.join(sd, f))
                    if f + "mf.json" in final:
                        shutil.copy(os.path.join(d, f + "mf.json"), os.path.join(sd, f + "mf.json"))
                try:
                    # (a handle on patches without their base — `allow_baseless=True` — is reopened the same way)
                    with cls[c]([Path(sd) / f for f in files], "r", **(dict(allow_baseless=True) if bl else {})) as q:
                        now = dump(q)
                    if now != dmp:
                        oracle.append(dict(kind="snapshot-shows-other-state", step=i, files=files, at_commit=dmp, now=now))
                except BaseException as e:  # noqa: BLE001
                    oracle.append(dict(kind="snapshot-no-longer-opens", step=i, files=files, error=exc_name(e), msg=str(e)[:200]))
            finally:
                shutil.rmtree(sd, ignore_errors=True)
        if keep is not None:
            keep(d, recs)
    finally:
        try:
            if rec is not None and not rec._closed:
                rec.close(commit=False)
        except BaseException:  # noqa: BLE001
            pass
        rec = None
        gc.collect()
        shutil.rmtree(d, ignore_errors=True)
    return recs, oracle


def out_lines(recs):
    return ["%s | h=%s | ls=%s | chg=%s | view=%s" % (r["out"], r["h"], r["ls"], ",".join(hx(x) for x in r["chg"]), r["view"]) for r in recs]


def tags_of(ops, recs):
    tags = set()
    seen_commit = False
    since_open = []  # kinds of the successful calls since the latest constructor call (the body of the `with` block)
    stubs = set()  # hex names of the stub base containers
    for i, (op, r) in enumerate(zip(ops, recs)):
        k = op[0]
        prev_h = recs[i - 1]["h"] if i else "closed"
        on_stub = prev_h.split(":")[0] in stubs
        if k == "close" and len(op) > 2 and op[2] == "xe" and op[1]:
            # where the exception left the block
            if prev_h == "closed" or prev_h.startswith("!"):
                st = "closed"
            elif "rw=1" in prev_h:
                st = "open-patch"
            elif "allow=0" in prev_h:
                st = "read-only"
            else:
                st = "after-" + next((x for x in reversed(since_open) if x in ("commit", "discard", "create", "merge", "stub")), "open")
            tags.add("with-left-by-exception:%s:%s" % (st, r["out"] if r["out"] != "ok" else ("1-file" if "," not in prev_h else "n-files")))
        if r["out"] != "ok":
            tags.add("err:" + r["out"])
            if op[0] == "open" and op[3] == "l" and open_label(op):
                tags.add("list-%s-%s-refused" % (open_label(op), op[2]))
            if op[0] == "open" and "mf" in open_kw(op):
                tags.add("kw-manifest_file:%s:%s:%s-refused" % (open_kw(op).get("mfk", "?"), op[1][0], op[2]))
            if k == "stub" and r["out"] != "busy":
                where = "at-a-stub" if hx(op[1] + ".ih5") in stubs else ("at-a-record" if (op[1] + ".ih5") in r["after"] else "elsewhere")
                tags.add("stub-refused:%s:%s" % (where, r["out"]))
            if k == "merge" and on_stub:
                tags.add("merge-on-stub-refused")
            continue
        if k in ("open", "openperm", "stub"):
            since_open = []
        else:
            since_open.append(k)
        if k in ("commit",) or (k == "close" and op[1]):
            seen_commit = True
            if on_stub and "rw=1" in prev_h:
                tags.add("patch-on-stub-committed")
        if seen_commit and k in ("write", "create", "discard", "merge"):
            tags.add("%s-after-commit" % k)
        if k == "write" and len(op) > 2:
            tags.add("write-kind-" + op[2])
        if k == "stub":
            stubs.add(hx(op[1] + ".ih5"))
            tags.add("stub-created:%s" % ("of-base" if ":0:" in r["h"] else "of-patch"))
            if any(o[0] == "stub" and o[1] + ".ih5mf.json" == op[2] or o[0] == "stub" and op[2].startswith(o[1] + ".p") for o in ops[:i]):
                tags.add("stub-of-a-stub")
        if k == "open":
            tags.add("open-%s-%s" % (op[2], op[3]))
            if r["h"].split(":")[0] in stubs:
                tags.add("stub-record-reopened-%s" % op[2])
            if op[3] == "l" and open_label(op):
                tags.add("list-%s-%s" % (open_label(op), op[2]))
            kw = open_kw(op)
            if "mf" in kw:
                tags.add("kw-manifest_file:%s:%s:%s:%s" % (kw.get("mfk", "?"), op[1][0], op[2], op[3]))
            if "bl" in kw:
                tags.add("kw-allow_baseless=%s:%s:%s" % (bool(kw["bl"]), op[2], op[3]))
                if kw["bl"] and ":0:" not in r["h"].split(",")[0]:
                    tags.add("baseless-handle-%s" % op[2])
            if kw.get("nomode"):
                tags.add("kw-mode-omitted")
            if kw.get("str") and op[3] == "n":
                tags.add("record-path-as-str")
            if op[1][0] == "m":
                tags.add("mfrecord")
            if cls_pad(op[1]) or "+" in op[1]:
                tags.add("extended-ublock-class")
            if "u rw=1" in r["h"] and op[2] in ("r+", "a") and set(r["before"]) == set(r["after"]):
                tags.add("continue-uncommitted")
        if k == "merge":
            tags.add("merge")
        if k == "discard":
            tags.add("discard")
        if k == "close" and not op[1]:
            tags.add("close-nocommit")
        if k == "close" and len(op) > 2:
            tags.add("close-" + {"d": "default-argument", "x": "with-exit", "xe": "with-exit-by-exception"}.get(op[2], op[2]))
        if k == "commit" and commit_exts(op) is not None:
            tags.add("kw-manifest_exts:" + last_open_cls(ops, op))
    if len({op[1][0] for op in ops if op[0] == "open"}) > 1:
        tags.add("mixed-class")
    return sorted(tags)


def last_open_cls(ops, op):
    c = "?"
    for o in ops:
        if o is op:
            break
        if o[0] in ("open", "openperm"):
            c = o[1][0]
        if o[0] == "stub":
            c = "m"
    return c


def impl(case):
    recs, oracle = run_ops(case["ops"])
    return dict(out=out_lines(recs), oracle=oracle, tags=tags_of(case["ops"], recs))


# ----------------------------------------------------------------------------- model lines
def op_line(op):
    k = op[0]
    if k == "open":
        _, c, mode, by, arg = op[:5]
        c = c[0]  # subclasses with extra user-block content: the plain / manifest class of the model
        kw = open_kw(op)
        head = ["open", c, mode]
        if "mf" in kw or "bl" in kw:
            head = ["openk", c, mode, hx(kw.get("mf") or ""), "1" if kw.get("bl") else "0"]
        if by == "n":
            return " ".join(head + ["n", hx(arg)])
        return " ".join(head + ["l"] + [hx(a) for a in arg])
    if k == "write":
        return "write %d" % op[1]
    if k == "commit":
        return "commitk" if commit_exts(op) is not None else "commit"
    if k in ("read", "create", "discard"):
        return k
    if k == "close":
        if op[1] and len(op) > 2 and op[2] in ("x", "xe"):
            return "exit %d" % (1 if op[2] == "xe" else 0)  # `__exit__` without / with an exception
        return "close %d" % (1 if op[1] else 0)
    if k == "stub":
        return "stub %s %s" % (hx(op[1]), hx(op[2]))
    if k == "merge":
        return "merge " + hx(op[1])
    if k == "delete":
        return "delete " + hx(op[1])
    if k == "openperm":
        return "openperm %s %s %d" % (op[1][0], op[2], op[3])
    if k == "restore":
        return "restore"
    raise ValueError(op)


def lines(case):
    return [op_line(op) for op in case["ops"]]


def parse_model(line):
    parts = [p.strip() for p in line.split(" | ")]
    d = dict(out=parts[0])
    for p in parts[1:]:
        k, _, v = p.partition("=")
        d[k] = v
    # h: drop the diagnostic manifest flag
    h = d.get("h", "")
    if " mf=" in h:
        d["mfflag"] = h[h.index(" mf=") + 4:]
        h = h[: h.index(" mf=")]
    d["h"] = h
    mm = d.get("must", "")
    must, _, may = mm.partition(" may=")
    d["must"] = set(x for x in must.split(",") if x)
    d["may"] = set(x for x in may.split(",") if x)
    return d


def compare_lines(impl_out, model_out):
    if len(impl_out) != len(model_out):
        return "length %d vs %d" % (len(impl_out), len(model_out))
    for i, (a, b) in enumerate(zip(impl_out, model_out)):
        if b.strip() == "outside":
            return None  # create_stub from a manifest whose containers have left the directory: not modelled from here on
        m = parse_model(b)
        parts = [p.strip() for p in a.split(" | ")]
        r = dict(out=parts[0])
        for p in parts[1:]:
            k, _, v = p.partition("=")
            r[k] = v
        for key in ("out", "h", "ls", "view"):
            if r.get(key) != m.get(key):
                return "line %d %s: impl=%r model=%r" % (i, key, r.get(key), m.get(key))
        chg = set(x for x in r.get("chg", "").split(",") if x)
        if not (m["must"] <= chg):
            return "line %d: model says %s must be rewritten, real changed %s" % (i, sorted(m["must"]), sorted(chg))
        if not (chg <= (m["must"] | m["may"])):
            return "line %d: real changed %s, model allows only %s" % (i, sorted(chg), sorted(m["must"] | m["may"]))
    return None


def compare(case, ir, mo):
    return compare_lines(ir["out"], mo)


# ----------------------------------------------------------------------------- generators
def setup_ops(rng, names, cls_choice=None, start=1000):
    """Other records living in the same directory (each with a committed patch chain)."""
    ops = []
    k = start
    for n in names:
        c = cls_choice or rng.choice("pm")
        ops.append(["open", c, rng.choice(["w", "x", "a", "w-"]), "n", n])
        ops.append(["write", k]); k += 1
        for _ in range(rng.randrange(0, 3)):
            ops.append(["commit"])
            ops.append(["create"])
            ops.append(["write", k]); k += 1
        ops.append(["close", 1])
    return ops


class Sim:
    """generator-side approximation of directory + handle (only to bias op choice and to name files
    for explicit-list opens; exact as long as no call fails unexpectedly)."""

    def __init__(self):
        self.open = False
        self.rw = False
        self.allow = False
        self.name = MAIN
        self.recs = {}  # record name -> dict(files=[(file name, patch index)], unc=last one uncommitted?)
        self.h = []  # (file name, patch index) of the handle
        self.hfull = False  # the handle ends with the newest file of record `name` (and holds all of them, unless `baseless`)
        self.baseless = False  # the handle holds a strict suffix of the record's files (allow_baseless=True)

    @property
    def exists(self):
        return self.name in self.recs

    def created(self, name):
        self.name = name
        self.recs[name] = dict(files=[(name + ".ih5", 0)], unc=True)
        self.h = list(self.recs[name]["files"])
        self.hfull = True
        self.baseless = False
        self.open, self.rw, self.allow = True, True, True

    def stubbed(self, name, of, idx):
        """`create_stub(name, <sidecar of the container with patch index idx of record `of`>)` succeeded"""
        self.name = name
        self.recs[name] = dict(files=[(name + ".ih5", idx)], unc=False, stub=(of, idx))
        self.h = list(self.recs[name]["files"])
        self.hfull = True
        self.baseless = False
        self.open, self.rw, self.allow = True, False, True

    def opened_by_name(self, mode, start=0):
        """`start` > 0: the files from position `start` on (a suffix, opened with allow_baseless=True)"""
        rec = self.recs[self.name]
        self.baseless = start > 0
        self.hfull = True
        self.open = True
        self.allow = mode != "r"
        self.rw = False
        if self.allow:
            if not rec["unc"]:
                rec["files"].append(self.next_file(rec["files"]))
                rec["unc"] = True
            self.rw = True
        self.h = list(rec["files"])[start:]

    @staticmethod
    def next_file(files):
        idx = files[-1][1] + 1
        base = files[0][0].split(".ih5")[0].split(".p")[0]
        return ("%s.p%d.ih5" % (base, idx), idx)

    def create(self):
        if self.open and self.allow and not self.rw and self.h:
            nf = self.next_file(self.h)
            self.h.append(nf)
            if self.hfull:
                self.recs[self.name]["files"].append(nf)
                self.recs[self.name]["unc"] = True
            self.rw = True

    def commit(self):
        if self.open and self.rw:
            self.rw = False
            if self.hfull:
                self.recs[self.name]["unc"] = False

    def discard(self):
        if self.open and self.rw and len(self.h) > 1:
            self.h.pop()
            self.rw = False
            if self.hfull:
                self.recs[self.name]["files"].pop()
                self.recs[self.name]["unc"] = False

    def close(self, commit):
        if commit:
            self.commit()
        self.open = False
        self.rw = False

    def merged(self, t):
        if self.open and not self.rw and self.h and t not in self.recs and not self.baseless and not self.recs.get(self.name, {}).get("stub"):
            self.recs[t] = dict(files=[(t + ".ih5", self.h[-1][1])], unc=False, src=self.name)
            return True
        return False


LIST_KINDS = [("prefix", 5), ("full", 2), ("gap", 1), ("foreign", 1), ("graft", 1.5), ("tail", 0.7), ("missing", 0.5), ("empty", 0.2)]


def gen_file_list(rng, s, stubs=False):
    """An explicit list of container files for `IH5Record(list, mode)`: (label, file names, valid chain?, complete?).

    prefix  - a strict prefix of the record's file list (the state at an earlier commit)
    full    - all files
    gap     - all files but one that is not the last
    foreign - all files plus a container of another record in the directory
    graft   - a merged container followed by the patches its source got afterwards
    tail    - a strict suffix (no base)
    missing - all files plus a name that does not exist
    stubpatch - (`stubs` only) the containers a stub stands for + the patches committed on the stub ("patching in thin air")
    The list is shuffled half of the time (the argument order is irrelevant for the code)."""
    files = [f for f, _ in s.recs[s.name]["files"]]
    kinds = LIST_KINDS + [("stubpatch", 3)] if stubs else LIST_KINDS
    tot = sum(w for _, w in kinds)
    x = rng.random() * tot
    for kind, w in kinds:
        x -= w
        if x <= 0:
            break
    valid, complete = False, False
    patched_stubs = [n for n, r in s.recs.items() if r.get("stub") and len(r["files"]) > (2 if r["unc"] else 1) and r["stub"][0] in s.recs]
    if kind == "stubpatch" and patched_stubs:
        t = rng.choice(patched_stubs)
        of, idx = s.recs[t]["stub"]
        out = [f for f, i in s.recs[of]["files"] if i <= idx] + [f for f, _ in (s.recs[t]["files"][1:-1] if s.recs[t]["unc"] else s.recs[t]["files"][1:])]
        valid = True
    elif kind == "prefix" and len(files) >= 2:
        out = files[: rng.randrange(1, len(files))]
        valid = True
    elif kind == "gap" and len(files) >= 2:
        i = rng.randrange(0, len(files) - 1)
        out = files[:i] + files[i + 1:]
    elif kind == "foreign" and len(s.recs) >= 2:
        other = rng.choice([n for n in s.recs if n != s.name])
        out = files + [rng.choice(s.recs[other]["files"])[0]]
    elif kind == "graft" and any(r.get("src") for r in s.recs.values()):
        t = rng.choice([n for n, r in s.recs.items() if r.get("src")])
        src = s.recs[t]["src"]
        idx = s.recs[t]["files"][0][1]
        later = [f for f, i in s.recs.get(src, dict(files=[]))["files"] if i > idx]
        out = [t + ".ih5"] + (later[: rng.randrange(0, len(later) + 1)] if later else [])
        valid = True
    elif kind == "tail" and len(files) >= 2:
        out = files[rng.randrange(1, len(files)):]  # (opens only with allow_baseless=True)
    elif kind == "missing":
        out = files + [rng.choice(["%s.p%d.ih5" % (s.name, 40 + rng.randrange(3)), "nope.ih5"])]
    elif kind == "empty":
        out = []
    else:
        kind, out, valid, complete = "full", list(files), True, True
    if rng.random() < 0.5:
        out = list(out)
        rng.shuffle(out)
    return kind, out, valid, complete


MF_KINDS = [("newest", 5), ("committed", 1.5), ("older", 1), ("copy", 1.5), ("absent", 0.5), ("container", 0.3), ("none", 0.7)]
EXTS = [{}, {"vt": 1}, {"vt": {"origin": "packer", "n": [1, 2, 3]}}, {"aa": "x", "bb": None}]


def gen_open_kw(rng, s, mode, files=None, label=None, use_bl=True):
    """Optional keyword arguments for a constructor call on record `s.name` (`files`: the explicit list, None = by name).

    manifest_file= (only IH5MFRecord looks at it, and only when the newest container of the handle is committed and carries
    the manifest extension; then the file must have the linked checksum):
      newest    - the sidecar named after the newest container (= the default)
      committed - the sidecar of the newest but one container (the one that counts when the newest is uncommitted)
      older     - the sidecar of some other container of the record
      copy      - the sidecar of a container the record was merged into (same bytes when merged at this patch level)
      absent    - a name that does not exist;  container - a container file;  none - explicit None
    allow_baseless= True / False (True is needed for a list without the base container, harmless otherwise)."""
    rec = s.recs.get(s.name)
    chain = [f for f, _ in rec["files"]] if rec else []
    if files is not None:
        order = {f: i for r_ in s.recs.values() for f, i in r_["files"]}
        chain = sorted((f for f in files if f in order), key=lambda f: order[f]) or chain
    kw = {}
    if rng.random() < 0.75 and chain:
        tot = sum(w for _, w in MF_KINDS)
        x = rng.random() * tot
        for kind, w in MF_KINDS:
            x -= w
            if x <= 0:
                break
        copies = [t for t, r_ in s.recs.items() if r_.get("src") == s.name]
        if kind == "committed" and len(chain) >= 2:
            kw["mf"] = chain[-2] + "mf.json"
        elif kind == "older" and len(chain) >= 2:
            kw["mf"] = rng.choice(chain[:-1]) + "mf.json"
        elif kind == "copy" and copies:
            kw["mf"] = rng.choice(copies) + ".ih5mf.json"
        elif kind == "absent":
            kw["mf"] = rng.choice(["nope.ih5mf.json", chain[-1] + ".json", "%s.p%d.ih5mf.json" % (s.name, 40 + rng.randrange(3))])
        elif kind == "container":
            kw["mf"] = rng.choice(chain)
        elif kind == "none":
            kw["mf"] = None
        else:
            kind, kw["mf"] = "newest", chain[-1] + "mf.json"
        kw["mfk"] = kind
    if use_bl and (label == "tail" or rng.random() < 0.3):
        kw["bl"] = (rng.random() < 0.85) if label == "tail" else (rng.random() < 0.5)
    if mode == "r" and rng.random() < 0.3:
        kw["nomode"] = 1
    if files is None and rng.random() < 0.2:
        kw["str"] = 1
    return kw


KINDS = [("d", 0.5), ("a", 0.25), ("g", 0.1), ("n", 0.15)]


def gen_history(rng, n_ops, with_others=True, allow_merge=True, p_list=0.22, kinds=False, ext=False, kw=0.0, stubs=0.0):
    """`kinds`: writes are datasets, groups, root attributes, attributes of a child (else datasets only);
    `ext`: the record classes are subclasses with extra user-block content;
    `kw`: share of the calls that carry optional keyword arguments (manifest_file=, allow_baseless=, mode omitted,
    manifest_exts=, close() / __exit__ instead of close(commit=True));
    `stubs`: chance of a `create_stub` call whenever no handle is open (stub life cycle: stubs from the newest / an older / another
    record's manifest under a fresh name, the SAME name, the name of an existing stub; the records of the directory are then
    reopened in turn, patches land on stubs, `stubpatch` file lists)."""
    ops = _gen_history(rng, n_ops, with_others, allow_merge, p_list, kinds, kw, stubs)
    if ext:
        m = {k: "%s+%d" % (k, rng.choice(pad_classes(k)) if rng.random() < 0.5 else gen_pad_len(rng, k)) for k in "pm"}
        ops = [[o[0], m[o[1]]] + list(o[2:]) if o[0] == "open" and rng.random() < 0.85 else o for o in ops]
    return ops


STUB_NAMES = ["st", "s2", "foo-st"]


def gen_stub_op(rng, s):
    """a `create_stub` call: manifest = sidecar of the newest / some committed container of the current record, of any record
    of the directory (stubs and their patches included), an absent file, a container; target name = a fresh name, the name
    of an existing stub (again at that location), the current record's own name, any record of the directory, an invalid name"""
    cands = []  # (sidecar, record, patch index)
    for n, r in s.recs.items():
        fs = r["files"][:-1] if r["unc"] else r["files"]
        cands += [(f + "mf.json", n, i) for f, i in fs]
    own = [c for c in cands if c[1] == s.name]
    x = rng.random()
    if x < 0.5 and own:
        mf = own[-1]
    elif x < 0.7 and own:
        mf = rng.choice(own)
    elif x < 0.93 and cands:
        mf = rng.choice(cands)
    else:
        mf = (rng.choice(["nope.ih5mf.json", (own or cands or [("foo.ih5mf.json",)])[-1][0][:-7]]), None, None)
    have = [n for n, r in s.recs.items() if r.get("stub")]
    fresh = [n for n in STUB_NAMES if n not in s.recs]
    x = rng.random()
    if x < 0.45 and fresh:
        name = fresh[0]
    elif x < 0.75 and have:
        name = rng.choice(have)
    elif x < 0.9:
        name = s.name
    elif x < 0.97:
        name = rng.choice(sorted(s.recs))
    else:
        name = "b@d"
    if name not in s.recs and mf[1] is not None and name != "b@d":
        s.stubbed(name, mf[1], mf[2])
    return ["stub", name, mf[0]]


def _gen_history(rng, n_ops, with_others, allow_merge, p_list, kinds, kw=0.0, stubs=0.0):
    ops = []
    s = Sim()
    # a handle on patches without their base shows a child of the base that got an attribute in a patch as an (empty)
    # group: histories with allow_baseless=True do not write attributes of children
    use_bl = kw > 0 and (not kinds or rng.random() < 0.5)
    if kw > 0 and use_bl and kinds:
        kinds = "no-n"
    if with_others and rng.random() < 0.7:
        names = rng.sample(OTHERS, rng.randrange(1, 4))
        ops += setup_ops(rng, names, cls_choice="m" if stubs > 0 and rng.random() < 0.8 else None)
        # what setup_ops leaves on disk (for explicit file lists that mix records)
        j = 0
        for n in names:
            files = [(n + ".ih5", 0)]
            j += 2
            while ops[j][0] == "commit":
                files.append(("%s.p%d.ih5" % (n, len(files)), len(files)))
                j += 3
            j += 1
            s.recs[n] = dict(files=files, unc=False)
    k = 1
    merged = []
    targets = ["bar", "foo3", "fo-o", "ba"]
    cur_cls = rng.choice("pm")
    fixed_cls = rng.random() < 0.6
    if stubs > 0:  # (only IH5MFRecord writes the manifests stubs are made from)
        cur_cls, fixed_cls = "m", rng.random() < 0.8
    n_ops += len(ops)
    while len(ops) < n_ops:
        r = rng.random()
        c = cur_cls if fixed_cls else rng.choice("pm")
        if not s.open:
            if not s.exists:
                ops.append(["open", c, rng.choice(["w", "x", "a", "w-", "a"]), "n", s.name])
                if kw > 0 and rng.random() < kw * 0.5:
                    ops[-1].append(rng.choice([{"mf": None, "mfk": "none"}, {"mf": "nope.ih5mf.json", "mfk": "absent"}, {"bl": True}, {"bl": False},
                                               {"mf": s.name + ".ih5mf.json", "mfk": "newest", "bl": False}]))
                s.created(s.name)
                continue
            if r < 0.06 and merged:
                # continue on a merged record
                s.name = rng.choice(merged)
            if stubs > 0:
                if rng.random() < 0.3:
                    s.name = rng.choice(sorted(s.recs))  # the records of the directory (stubs included) in turn
                if rng.random() < stubs:
                    ops.append(gen_stub_op(rng, s))
                    continue
            if rng.random() < p_list:
                # explicit file list: older snapshots, permutations, incoherent selections
                label, fl, valid, complete = gen_file_list(rng, s, stubs > 0)
                mode = rng.choice(["r", "r+", "a", "r+", "a", "r"] if rng.random() < 0.93 else ["x", "w-"])
                ops.append(["open", c, mode, "l", fl, label])
                okw = gen_open_kw(rng, s, mode, fl, label, use_bl) if kw > 0 and rng.random() < (kw if label != "tail" else min(1.0, 2.5 * kw)) else {}
                if okw:
                    ops[-1].append(okw)
                if label == "tail" and okw.get("bl") and mode not in ("x", "w-"):
                    # a coherent chain without its base, up to the newest container: like the whole record
                    s.opened_by_name(mode, start=len(s.recs[s.name]["files"]) - len(fl))
                    continue
                if mode in ("x", "w-") or not valid:
                    continue
                if complete:
                    s.opened_by_name(mode)
                elif mode == "r":
                    by = {f: i for r_ in s.recs.values() for f, i in r_["files"]}
                    s.h = sorted(((f, by[f]) for f in fl), key=lambda fi: fi[1])
                    s.hfull = False
                    s.open, s.allow, s.rw = True, False, False
                elif label in ("graft", "stubpatch"):
                    # a coherent chain under a new base name: the patch gets a fresh name (unless taken)
                    by = {f: i for r_ in s.recs.values() for f, i in r_["files"]}
                    s.h = sorted(((f, by[f]) for f in fl), key=lambda fi: fi[1])
                    s.hfull = False
                    s.open, s.allow, s.rw = True, True, False
                    s.create()
                # a strict prefix in r+/a: the next patch name is taken -> the open is refused
                continue
            mode = rng.choice(["r", "r+", "a", "r+", "a", "x", "w-"] if r < 0.9 else ["r", "x"])
            ops.append(["open", c, mode, "n", s.name])
            if kw > 0 and rng.random() < kw:
                okw = gen_open_kw(rng, s, mode, None, None, use_bl)
                if okw:
                    ops[-1].append(okw)
            if mode in ("x", "w-"):
                continue
            s.opened_by_name(mode)
            continue
        # handle is open
        choices = []
        if s.rw:
            choices += [("write", 5), ("commit", 3), ("discard", 1.5), ("close1", 1.2), ("close0", 0.8), ("read", 0.6),
                        ("create", 0.3), ("merge", 0.3)]
        elif s.allow:
            choices += [("create", 4), ("merge", 1.5 if allow_merge else 0), ("close1", 1.5), ("read", 0.8), ("write", 0.4),
                        ("commit", 0.4), ("discard", 0.4)]
        else:
            choices += [("read", 2), ("merge", 1.5 if allow_merge else 0), ("close1", 2), ("close0", 0.5), ("write", 0.5), ("create", 0.4),
                        ("commit", 0.5), ("discard", 0.4)]
        tot = sum(w for _, w in choices)
        x = rng.random() * tot
        for name, w in choices:
            x -= w
            if x <= 0:
                break
        if name == "write":
            wk = "d"
            if kinds:
                x = rng.random()
                for wk, w in KINDS:
                    x -= w
                    if x <= 0:
                        break
                if wk == "n" and kinds == "no-n":
                    wk = "a"
            ops.append(write_op(k, wk)); k += 1
        elif name == "commit":
            if kw > 0 and rng.random() < kw:
                ops.append(["commit", {"exts": rng.choice(EXTS)}])
                if [o[1][0] for o in ops if o[0] == "open"][-1:] == ["m"]:  # (the plain class refuses the keyword)
                    s.commit()
            else:
                ops.append(["commit"])
                s.commit()
        elif name == "discard":
            ops.append(["discard"])
            s.discard()
        elif name == "create":
            ops.append(["create"])
            s.create()
        elif name == "read":
            ops.append(["read"])
        elif name == "merge":
            t = rng.choice(targets + [s.name] + OTHERS[:1]) if rng.random() < 0.25 else rng.choice([t for t in targets if t not in merged] or targets)
            ops.append(["merge", t])
            if t in targets and t not in merged and s.merged(t):
                merged.append(t)
        elif name in ("close1", "close0"):
            ops.append(["close", 1 if name == "close1" else 0])
            if name == "close1" and kw > 0 and rng.random() < kw:
                ops[-1].append(rng.choice(["d", "x", "xe"]))
            elif name == "close1" and rng.random() < 0.2:
                ops[-1].append("xe")  # the `with` block is left by an exception
            s.close(name == "close1")
            if rng.random() < 0.15:
                # operations on a closed handle
                ops.append([rng.choice(["read", "commit", "create", "discard"])] if rng.random() < 0.8 else ["write", 900 + k])
    return ops


START = [["open", None, "x", "n", MAIN], ["write", 1], ["commit"]]
ALPHABET = ["create", "write", "commit", "discard", "reopen-r", "reopen-r+", "merge", "reopen-prefix"]
# the calls with their optional keyword arguments
ALPHABET_KW = ["reopen-r+-mf", "reopen-tail", "commit-exts"]


def expand(seq, c):
    """`reopen-prefix`: close, then open the record's file list without its newest container (the state
    at the previous commit) for patching, by explicit list; with a single container: the full list.
    `reopen-r+-mf`: close, then reopen by name for patching with `manifest_file=` <sidecar of the newest container>.
    `reopen-tail`: close, then open the file list without the base container for patching with `allow_baseless=True`
    (a single container: the full list). `commit-exts`: `commit_patch(manifest_exts={..})`."""
    ops = [list(o) for o in START]
    ops[0][1] = c
    s = Sim()
    s.created(MAIN)
    s.commit()
    k = 10
    nmerge = 0
    for a in seq:
        if a == "write":
            ops.append(["write", k]); k += 1
        elif a in ("create", "commit", "discard"):
            ops.append([a])
            getattr(s, a)()
        elif a in ("reopen-r", "reopen-r+"):
            ops += [["close", 1], ["open", c, a[7:], "n", MAIN], ["read"]]
            s.close(True)
            s.opened_by_name(a[7:])
        elif a == "reopen-prefix":
            s.close(True)
            files = [f for f, _ in s.recs[MAIN]["files"]]
            ops += [["close", 1], ["open", c, "r+", "l", files[:-1] or files, "prefix" if len(files) > 1 else "full"], ["read"]]
            if len(files) == 1:
                s.opened_by_name("r+")
        elif a == "reopen-r+-mf":
            s.close(True)
            files = [f for f, _ in s.recs[MAIN]["files"]]
            ops += [["close", 1], ["open", c, "r+", "n", MAIN, {"mf": files[-1] + "mf.json", "mfk": "newest"}], ["read"]]
            s.opened_by_name("r+")
        elif a == "reopen-tail":
            s.close(True)
            files = [f for f, _ in s.recs[MAIN]["files"]]
            ops += [["close", 1, "x"], ["open", c, "r+", "l", files[1:] or files, "tail" if len(files) > 1 else "full", {"bl": True}], ["read"]]
            s.opened_by_name("r+", start=1 if len(files) > 1 else 0)
        elif a == "commit-exts":
            ops.append(["commit", {"exts": {"vt": k}}])
            if c == "m":
                s.commit()
        elif a == "merge":
            ops.append(["merge", "bar%d" % nmerge]); nmerge += 1
    ops += [["read"], ["close", 1], ["open", c, "r", "n", MAIN], ["read"], ["close", 1]]
    return ops


WITH_BODY = ["write", "read", "create", "commit", "discard", "failed-write", "merge"]
WITH_EXITS = ["xe", "x"]


def expand_with(body, c, mode, how, nbase, by="n"):
    """`with Record(foo, mode) as r: <body>` on a record of `nbase` committed containers, the block left by an exception raised
    after the body (`how` = xe; every prefix of a body is a body: the exception at every position) or normally (x), then the
    record is read again. `failed-write`: a write the record refuses when no patch is open (the refusal is the exception a
    real block is left by). `by` = l: the record is named by its file list."""
    ops = [["open", c, "x", "n", MAIN], ["write", 1]]
    files = [MAIN + ".ih5"]
    for i in range(1, nbase):
        ops += [["commit"], ["create"], ["write", 1 + i]]
        files.append("%s.p%d.ih5" % (MAIN, i))
    ops.append(["close", 1])
    ops.append(["open", c, mode, "n", MAIN] if by == "n" else ["open", c, mode, "l", files, "full"])
    k = 10
    nmerge = 0
    for a in body:
        if a in ("write", "failed-write"):
            ops.append(["write", k]); k += 1
        elif a == "merge":
            ops.append(["merge", "bar%d" % nmerge]); nmerge += 1
        else:
            ops.append([a])
    ops += [["close", 1, how], ["open", c, "r", "n", MAIN], ["read"], ["close", 1]]
    return ops


STUB_ALPHABET = ["stub", "stub-same", "stub-own", "stub-older", "patch", "reopen", "merge", "src-patch", "raise", "discard"]


def expand_stub(seq, nbase=2):
    """Stub life cycle after a committed IH5MFRecord `foo` of `nbase` containers (all in one directory):
    stub      - close; create_stub("st", <sidecar of foo's newest container>) (the first time it creates the stub, later: again at that location)
    stub-same - close; create_stub("foo", <the same sidecar>) (the SAME name as the record)
    stub-own  - close; create_stub("st", <sidecar of the newest container of record st>) (a stub of the stub, at its own location)
    stub-older- close; create_stub("st", <sidecar of foo's base container>)
    patch     - create_patch, write, commit_patch on the open handle;  discard - discard_patch
    reopen    - close; open record st by name for patching (r+);  raise - the `with` block is left by an exception, then reopen st r+
    merge     - merge_files (refused on a handle with a stub);  src-patch - close; open foo r+, write, close (the source moves on)"""
    ops = [["open", "m", "x", "n", MAIN], ["write", 1]]
    src = [MAIN + ".ih5"]
    for i in range(1, nbase):
        ops += [["commit"], ["create"], ["write", 1 + i]]
        src.append("%s.p%d.ih5" % (MAIN, i))
    ops.append(["close", 1])
    st = []  # files of record st (approximation, only to name manifests)
    st_idx = 0
    k = 10
    nmerge = 0
    for a in seq:
        if a in ("stub", "stub-same", "stub-own", "stub-older"):
            mf = {"stub": src[-1], "stub-same": src[-1], "stub-older": src[0], "stub-own": st[-1] if st else src[-1]}[a] + "mf.json"
            ops += [["close", 1], ["stub", MAIN if a == "stub-same" else "st", mf]]
            if a != "stub-same" and not st:
                st = ["st.ih5"]
                st_idx = 0 if a == "stub-older" else len(src) - 1
                st_src = src[: st_idx + 1]  # the containers the stub stands for
        elif a == "patch":
            ops += [["create"], ["write", k], ["commit"]]; k += 1
            if st:
                st_idx += 1
                st.append("st.p%d.ih5" % st_idx)
        elif a in ("reopen", "raise"):
            ops += [["close", 1] + (["xe"] if a == "raise" else []), ["open", "m", "r+", "n", "st"], ["write", k]]; k += 1
            if st:
                st_idx += 1
                st.append("st.p%d.ih5" % st_idx)
        elif a == "merge":
            ops.append(["merge", "bar%d" % nmerge]); nmerge += 1
        elif a == "src-patch":
            ops += [["close", 1], ["open", "m", "r+", "n", MAIN], ["write", k], ["close", 1]]; k += 1
            src.append("%s.p%d.ih5" % (MAIN, len(src)))
        elif a == "discard":
            ops.append(["discard"])
    ops += [["close", 1], ["open", "m", "r", "n", "st"], ["read"], ["close", 1]]
    if st and len(st) > 1:
        # the patches made on the stub applied to the real containers
        ops += [["open", "m", "r", "l", st_src + st[1:], "stubpatch"], ["read"], ["close", 1]]
    return ops


def has_stub(case):
    return any(o[0] == "stub" for o in case["ops"])


def modelled(case):
    """histories the Lean model answers: all without stubs; with stubs those that open no handle without its base
    (the manifest committed on such a handle describes the patches only, `Model/RecordStub.lean` reads the whole chain)"""
    return not has_stub(case) or not any(o[0] == "open" and open_kw(o).get("bl") for o in case["ops"])


def gen_cases(ctx):
    rng = ctx.rng
    cases = []
    n = 150 if ctx.quick else 3000
    for _ in range(n):
        # half of the histories use the optional keyword arguments of the API
        cases.append(dict(kind="hist", ops=gen_history(rng, rng.randrange(8, 26), kinds=rng.random() < 0.5, ext=rng.random() < 0.2,
                                                       kw=rng.choice([0.0, 0.0, 0.3, 0.6]))))
    if not ctx.quick:
        for _ in range(500):
            cases.append(dict(kind="stubhist", ops=gen_history(rng, rng.randrange(10, 34), kinds=rng.random() < 0.5, with_others=rng.random() < 0.5,
                                                               kw=rng.choice([0.0, 0.0, 0.3]), stubs=rng.choice([0.25, 0.4]))))
    kwspace = [seq for l in range(1, 4) for seq in itertools.product(ALPHABET + ALPHABET_KW, repeat=l) if set(seq) & set(ALPHABET_KW)]
    if ctx.quick:
        # a sample of the short-sequence space
        space = [seq for l in range(1, 4) for seq in itertools.product(ALPHABET, repeat=l)]
        for seq in rng.sample(space, 30) + rng.sample(kwspace, 20):
            cases.append(dict(kind="seq", ops=expand(seq, rng.choice("pm"))))
        # `with` blocks left by an exception at a random position of a random body / normally
        for _ in range(45):
            body = [rng.choice(WITH_BODY[:5] if rng.random() < 0.7 else WITH_BODY) for _ in range(rng.randrange(0, 6))]
            cases.append(dict(kind="with", ops=expand_with(body, rng.choice("pm"), rng.choice(["r+", "a", "r+", "a", "r"]),
                                                           "xe" if rng.random() < 0.85 else "x", rng.choice([1, 2, 2, 3]), rng.choice("nnl"))))
        # stub life cycles: structured walks and random histories with create_stub calls
        for _ in range(30):
            seq = [rng.choice(["stub", "stub-older"])] if rng.random() < 0.6 else []
            seq += [rng.choice(STUB_ALPHABET) for _ in range(rng.randrange(1, 6))]
            cases.append(dict(kind="stubseq", ops=expand_stub(seq, rng.choice([1, 2, 3]))))
        for _ in range(40):
            cases.append(dict(kind="stubhist", ops=gen_history(rng, rng.randrange(10, 30), kinds=rng.random() < 0.5, with_others=rng.random() < 0.5,
                                                               kw=rng.choice([0.0, 0.0, 0.3]), stubs=rng.choice([0.25, 0.4]))))
    else:
        for l in range(0, 5):
            for seq in itertools.product(ALPHABET, repeat=l):
                for c in "pm":
                    cases.append(dict(kind="seq", ops=expand(seq, c)))
        for seq in kwspace:
            for c in "pm":
                cases.append(dict(kind="seq", ops=expand(seq, c)))
        ctx.exhaustive_spaces.append("all call sequences of length <= 4 over {create_patch, write, commit_patch, discard_patch, close+reopen(r), close+reopen(r+), close+reopen(file list without the newest container, r+), merge_files} after a committed base, both record classes")
        for mode, lmax in (("r+", 4), ("a", 3), ("r", 2)):
            for l in range(0, lmax + 1):
                for body in itertools.product(WITH_BODY[:5], repeat=l):
                    for c in "pm":
                        cases.append(dict(kind="with", ops=expand_with(body, c, mode, "xe", 2)))
        for l in range(0, 4):
            for i, body in enumerate(itertools.product(WITH_BODY, repeat=l)):
                for nbase in (1, 3):
                    cases.append(dict(kind="with", ops=expand_with(body, "pm"[(i + nbase) % 2], "r+", "xe", nbase, by="nl"[(l + nbase) % 2])))
        for l in range(0, 4):
            for seq in itertools.product(STUB_ALPHABET, repeat=l):
                cases.append(dict(kind="stubseq", ops=expand_stub(seq, 1 + l % 2)))
        for _ in range(1500):
            seq = [rng.choice(["stub", "stub-older"])] + [rng.choice(STUB_ALPHABET) for _ in range(rng.randrange(3, 6))]
            cases.append(dict(kind="stubseq", ops=expand_stub(seq, rng.choice([1, 2, 3]))))
        ctx.exhaustive_spaces.append("all `with Record(foo, mode)` blocks on a record of 2 containers with a body of <= 4 (mode r+; a: <= 3; r: <= 2) calls over {write, read, create_patch, commit_patch, discard_patch} left by an exception (= the exception at every position of every such body), both record classes; bodies of <= 3 calls over these and {refused write, merge_files} on records of 1 and 3 containers named by path / by file list (classes alternating)")
        ctx.exhaustive_spaces.append("all stub life cycles of <= 3 steps over {create_stub(st) from the newest / the base manifest of foo, create_stub(foo) (same name), create_stub(st) from st's own newest manifest, patch committed on the open handle, close+reopen st (r+), with-block left by an exception + reopen, merge_files, a new patch of the source record, discard_patch}")
        ctx.exhaustive_spaces.append("all call sequences of length <= 3 over these and {close+reopen(r+, manifest_file=<sidecar of the newest container>), close+reopen(file list without the base, r+, allow_baseless=True), commit_patch(manifest_exts=..)} after a committed base, both record classes")
    return cases


def run(ctx):
    ctx.rule = ("cases: (hist) random API histories on real IH5Record/IH5MFRecord objects in one temporary directory that also holds "
                "prefix-related records (fo, foo2, foo-bar): open r/r+/a/x/w- (w only on absent names), write, read, create_patch, commit_patch, "
                "discard_patch (writes = datasets, groups, root attributes, attributes of a child; classes also subclasses with extra ub_exts content), "
                "close(commit yes/no), reopen by name or by an explicit file list (strict prefixes = older commit states, permutations, "
                "selections with gaps / without base / with foreign or missing files, merged container + later patches of its source) in every "
                "mode, merge_files into fresh/existing/own names, calls on closed handles; in half of the histories the calls carry their optional keyword "
                "arguments with legal and illegal values, both classes, every mode, by name and by list: manifest_file= (sidecar of the newest / newest "
                "committed / an older container, the byte-identical sidecar of a merged copy, absent file, a container, None), allow_baseless= "
                "(True/False; True also on lists without the base container), mode omitted, commit_patch(manifest_exts=..), close() / __exit__; "
                "(seq) short call sequences after a committed base; (with) `with Record(..) as r:` blocks (modes r+/a/r, by name / by file "
                "list, records of 1..3 containers) with bodies over write, read, create_patch, commit_patch, discard_patch, refused write, "
                "merge_files, left by an exception raised at every position of the body (`__exit__` with the exception) or normally, then read "
                "again — in all histories a share of the closes is such an exit; (stubseq / stubhist) stub life cycle: "
                "IH5MFRecord.create_stub from the newest / an older / another record's / a stub's own manifest into the same directory under a "
                "fresh name, the SAME name, the name of an existing stub (again at that location), an existing record's name, with an absent "
                "manifest or a container as manifest; patches created / discarded / committed on stubs (also via close, __exit__, exception "
                "exits), stub records reopened r/r+/a by name by both classes, merges on stubs (refused), the source record patched "
                "meanwhile, file lists = real containers + the patches made on the stub. After every call every file is hashed. Non-trivial = tagged: "
                "write/create/discard/merge after a commit, continuing an uncommitted container, merge, discard, close without commit, each kind of "
                "explicit file list per mode (accepted / refused), each keyword argument per value class / record class / mode (accepted / refused), "
                "IH5MFRecord, mixed classes, each error class.")
    ctx.assumptions += [
        "sha256 of a container payload is modelled as the payload itself (collision-free digest)",
        "uuid1() is fresh (counter)",
        "one record handle at a time (the harness closes before it opens again)",
        "a write through h5py reaches the file at the latest when the container is closed (lazy flush: changed <= must+may)",
    ]
    cases = core.load_corpus(ID) + gen_cases(ctx)
    ctx.correspond("record-model", MOD, [c for c in cases if modelled(c)], lines, "drv_rec", compare=compare, timeout=120)
    oracle_only(ctx, "stub-life-cycle-oracle-only", [c for c in cases if not modelled(c)])


def oracle_only(ctx, group, cases, timeout=120):
    """Stub histories outside the Lean model (see `modelled`): real code under the hash monitor / snapshot oracle only;
    their outcome classes are recorded as tags."""
    from .. import pool
    st = ctx.groups.setdefault(group, __import__("collections").Counter())
    res = pool.run(MOD, "impl", cases, timeout=timeout)
    for c, r in zip(cases, res):
        st["cases"] += 1
        st["steps"] += len(c["ops"])
        if r is None:
            raise lean.InfraError("no result from worker")
        if "timeout" in r:
            r2 = pool.run_one(MOD, "impl", c, timeout=3.0 * timeout)
            if r2 is not None and "timeout" not in r2:
                r = r2
        if "timeout" in r:
            st["timeouts"] += 1
            ctx.oracle_hit(c, {"kind": "does-not-terminate", "limit_s": timeout}, group=group)
            ctx.note_case(c, ["timeout"], len(c["ops"]))
            continue
        if "crash" in r:
            if core.crash_in_real_code(r):
                ctx.oracle_hit(c, {"kind": "unexpected-exception", "error": r["crash"][:300], "where": core.crash_site(r)}, group=group)
                ctx.note_case(c, ["unexpected-exception"], len(c["ops"]))
                continue
            raise lean.InfraError("harness crashed on case %s: %s\n%s" % (core.canon(c)[:300], r["crash"], r.get("tb", "")))
        for d in r["ok"].get("oracle", []) or []:
            ctx.oracle_hit(c, d, group=group)
        ctx.note_case(c, list(r["ok"].get("tags", []) or []), len(c["ops"]))


def signature(case, detail):
    return "%s:%s" % (ID, detail.get("kind") if isinstance(detail, dict) else str(detail)[:40])


_shrunk = set()


def shrink(ctx, case, detail):
    from .. import pool
    want = detail.get("kind") if isinstance(detail, dict) else None
    if want in _shrunk:  # one minimised witness per kind of violation is reported
        return case, detail
    _shrunk.add(want)
    if not case.get("ops") or len(case["ops"]) < 2:
        return case, detail

    def fails(ops):
        r = pool.run_one(MOD, "impl", dict(case, ops=ops), timeout=120)
        return "ok" in r and any(d.get("kind") == want for d in r["ok"]["oracle"])
    ops = core.ddmin(case["ops"], fails, max_tests=80)
    r = pool.run_one(MOD, "impl", dict(case, ops=ops), timeout=120)
    ds = [d for d in r.get("ok", {}).get("oracle", []) if d.get("kind") == want]
    if ds:
        return dict(case, ops=ops), ds[0]
    return case, detail


def search(ctx):
    from .. import pool
    for s in range(1, 4):
        sub = core.Ctx(ID, "quick", ctx.seed + 7919 * s)
        cases = gen_cases(sub)
        res = pool.run(MOD, "impl", cases, timeout=120)
        ctx.search_log.append("seed %d: %d cases, oracle only" % (sub.seed, len(cases)))
        for c, r in zip(cases, res):
            if "ok" in r and r["ok"]["oracle"]:
                return shrink(ctx, c, r["ok"]["oracle"][0])
    return None


def replay(ctx, rep):
    from .. import pool
    case = rep.get("case")
    if not case:
        print(core.canon(rep)[:3000])
        return 0
    r = pool.run_one(MOD, "impl", case, timeout=120)
    print("implementation:", core.canon(r)[:4000])
    if modelled(case):
        print("model:", lean.run_driver("drv_rec", [lines(case)]))
    return 1 if ("ok" in r and r["ok"]["oracle"]) else 0
