"""C18 — Directory diffs are exact and safely ordered.

Lean: Model/Diff.lean, Proofs/Diff*.lean, Props/C18.lean, driver drv_dif; translation tie
Gen/Diff.lean (harness/translate_c18.py) + Bridge/Diff.lean over the dictionary Py/DiffPy.lean.
Real code: `metador_core.util.diff.DirDiff.compare / DiffNode.nodes / status / DirDiff.get` on pairs
of nested dicts of the shape `dir_hashsums` produces (str = file hashsum or "symlink:<target>",
dict = directory), built directly, never sharing sub-dicts between the two trees.

Correspondence: `is_empty`, the node list (path, status, prev, curr) *in order*, and `get(p)` for every
path of either tree plus absent paths, real code vs. model.
Oracle (real code only): empty iff equal; reported paths = {p | lookup a p != lookup b p} with the right
status / prev / curr; applying nodes() in order with an independent simulator (remove needs a file or an
*empty* directory, add needs an existing parent directory) turns a into b; get agrees with the listing.
"""
import copy
import itertools

from .. import core, lean

ID = "C18"
MOD = "harness.props.c18"
T = "MetadorModel.C18."
B = "MetadorModel.Bridge.Diff."
LEAN = dict(
    modules=["MetadorModel.Props.C18"] +
            # one bridge module per translated function: a changed function breaks its own obligation
            ["MetadorModel.Bridge." + m for m in ["DiffType", "DiffStatus", "DiffChildren", "DiffCompare", "DiffNodes",
                                                   "DiffGet", "Diff", "DiffLookup"]],
    theorems=[T + n for n in ["compare_none_iff", "reported_exact", "order_safe", "get_agrees",
                              "compare_none_iff_lookup", "reported_once"]] +
             # translation tie: Gen/Diff.lean (regenerated from util/diff.py on every run) = Model/Diff.lean
             [B + n for n in ["gen_type", "gen_prev_curr_type", "gen_status", "gen_children", "gen_compare",
                              "gen_compare_top", "gen_nodes", "gen_nodes_compare", "gen_get", "gen_get_compare"]],
    drivers=["drv_dif"],
)


def translate(ctx):
    """regenerate Gen/Diff.lean from util/diff.py of the checked tree (see harness/translate_c18.py)"""
    import os

    from .. import translate_c18
    text, errors = translate_c18.gen_diff_checked()
    # written in any case (an untranslatable function is a stub, so that exactly its bridge theorem breaks)
    changed = lean.write_if_changed(os.path.join(lean.LEAN, "MetadorModel", "Gen", "Diff.lean"), text)
    if errors:
        raise translate_c18.TranslateError("; ".join(errors))
    return "Gen/Diff.lean %s" % ("rewritten" if changed else "unchanged")


# ----------------------------------------------------------------------------- encodings
def hx(s):
    return s.encode().hex() if s else "-"


def enc_tree(t):
    """prefix token encoding: `F <hex>` | `D <n> <keyhex> <tree> ...` (keys sorted) | `N`."""
    if t is None:
        return ["N"]
    if isinstance(t, str):
        return ["F", hx(t)]
    out = ["D", str(len(t))]
    for k in sorted(t):
        out += [hx(k)] + enc_tree(t[k])
    return out


def show_tree(t):
    """single-token rendering used in output lines."""
    if t is None:
        return "-"
    if isinstance(t, str):
        return "f:" + hx(t)
    return "d{" + ",".join("%s=%s" % (hx(k), show_tree(t[k])) for k in sorted(t)) + "}"


def show_path(parts):
    return "/".join(hx(p) for p in parts) if parts else "."


def lookup(t, parts):
    for p in parts:
        if not isinstance(t, dict) or p not in t:
            return None
        t = t[p]
    return t


def all_paths(t, pre=()):
    yield pre
    if isinstance(t, dict):
        for k, v in t.items():
            yield from all_paths(v, pre + (k,))


def query_paths(a, b):
    ps = set(all_paths(a)) | set(all_paths(b))
    extra = set()
    for p in ps:
        extra.add(p + ("zz",))
        if p:
            extra.add(p[:-1] + ("zz",))
    return sorted(ps | extra)


# ----------------------------------------------------------------------------- real code
def _node_line(n):
    return "%s|%s|%s|%s" % (show_path(n.path.parts), n.status().value, show_tree(n.prev), show_tree(n.curr))


def simulate(a, nodes):
    """independent 'apply in order' simulator; returns (tree, error)."""
    from metador_core.util.diff import DiffNode
    S = DiffNode.Status
    root = {"": copy.deepcopy(a)}

    def parent_of(parts):
        cur = root[""]
        for p in parts[:-1]:
            if not isinstance(cur, dict) or p not in cur:
                return None
            cur = cur[p]
        return cur if isinstance(cur, dict) else None

    for n in nodes:
        parts = n.path.parts
        st = n.status()
        shell = n.curr if isinstance(n.curr, str) else {}
        if not parts:
            # the root: only directory -> directory is possible for DirHashsums
            if not (isinstance(n.prev, dict) and isinstance(n.curr, dict) and isinstance(root[""], dict)):
                return None, "root node is not a changed directory"
            continue
        par = parent_of(parts)
        name = parts[-1]
        if par is None:
            return None, "parent of %s missing or not a directory when processing %s" % (show_path(parts), st.value)
        if st == S.removed:
            if name not in par:
                return None, "remove of missing %s" % show_path(parts)
            if not (isinstance(par[name], str) or par[name] == {}):
                return None, "remove of non-empty directory %s" % show_path(parts)
            del par[name]
        elif st == S.added:
            if name in par:
                return None, "add of existing %s" % show_path(parts)
            par[name] = shell
        elif st == S.modified:
            if name not in par:
                return None, "modify of missing %s" % show_path(parts)
            if isinstance(n.prev, dict) and isinstance(n.curr, dict):
                if not isinstance(par[name], dict):
                    return None, "changed directory %s is not a directory" % show_path(parts)
                continue
            if not (isinstance(par[name], str) or par[name] == {}):
                return None, "replace of non-empty directory %s" % show_path(parts)
            par[name] = shell
        else:
            return None, "status %r in listing" % (st,)
    return root[""], None


def check_pair(a0, b0):
    from pathlib import Path

    from metador_core.util.diff import DiffNode, DirDiff
    S = DiffNode.Status
    a, b = copy.deepcopy(a0), copy.deepcopy(b0)
    out, oracle, tags = [], [], set()
    try:
        d = DirDiff.compare(a, b)
        nodes = d._diff_root.nodes() if d._diff_root is not None else []
    except Exception as e:  # noqa: BLE001  (compare is total on DirHashsums)
        return ["empty ?", "nodes ?"] + ["get ?" for _ in query_paths(a0, b0)], [dict(kind="compare-raised", error="%s: %s" % (type(e).__name__, str(e)[:200]))], []
    if a != a0 or b != b0:
        oracle.append(dict(kind="input-mutated"))
    out.append("empty " + ("T" if d.is_empty else "F"))
    out.append(" ".join(["nodes"] + [_node_line(n) for n in nodes]))
    # --- no difference iff equal
    if d.is_empty != (a0 == b0):
        oracle.append(dict(kind="empty-iff-equal", empty=d.is_empty, equal=(a0 == b0)))
    # --- reported set is exact
    listed = {}
    for n in nodes:
        p = tuple(n.path.parts)
        if p in listed:
            oracle.append(dict(kind="path-listed-twice", path=list(p)))
        listed[p] = n
    for p in set(all_paths(a0)) | set(all_paths(b0)):
        la, lb = lookup(a0, p), lookup(b0, p)
        n = listed.get(p)
        if la == lb:
            if n is not None:
                oracle.append(dict(kind="unchanged-path-reported", path=list(p)))
            continue
        if n is None:
            oracle.append(dict(kind="changed-path-missing", path=list(p)))
            continue
        want = S.added if la is None else S.removed if lb is None else S.modified
        if n.status() != want or d.status(n) != want:
            oracle.append(dict(kind="wrong-status", path=list(p), got=n.status().value, want=want.value))
        if n.prev != la or n.curr != lb:
            oracle.append(dict(kind="wrong-prev-curr", path=list(p)))
        tags.add({"+": "added", "-": "removed", "~": "modified"}[want.value])
        if isinstance(la, dict) != isinstance(lb, dict) and la is not None and lb is not None:
            tags.add("file<->dir")
        if isinstance(la, dict) and la and lb is None:
            tags.add("subtree-removed")
    for p in listed:
        if lookup(a0, p) is None and lookup(b0, p) is None:
            oracle.append(dict(kind="nonexistent-path-reported", path=list(p)))
    # --- safe order
    if nodes:
        res, err = simulate(a0, nodes)
        if err:
            oracle.append(dict(kind="unsafe-order", error=err))
        elif res != b0:
            oracle.append(dict(kind="apply-does-not-give-new-tree", got=res))
    # --- get agrees with the listing
    for p in query_paths(a0, b0):
        g = d.get(Path(*p) if p else Path(""))
        out.append("get " + ("none" if g is None else _node_line(g)))
        n = listed.get(p)
        if (g is None) != (n is None) or (g is not None and (g.path != n.path or g.prev != n.prev or g.curr != n.curr)):
            oracle.append(dict(kind="get-disagrees-with-listing", path=list(p)))
        if d.status(g) != (S.unchanged if n is None else n.status()):
            oracle.append(dict(kind="status-of-get", path=list(p)))
    if len(nodes) > 6:
        tags.add("nodes>6")
    return out, oracle, sorted(tags)


def impl(case):
    out, oracle, tags = [], [], set()
    for i, (a, b) in enumerate(case["pairs"]):
        o, orc, tg = check_pair(a, b)
        out += o
        for d in orc:
            d["pair"] = i
            oracle.append(d)
        tags |= set(tg)
    return dict(out=out, oracle=oracle, tags=sorted(tags))


# ----------------------------------------------------------------------------- model lines
def lines(case):
    L = []
    for a, b in case["pairs"]:
        L.append(" ".join(["cmp"] + enc_tree(a) + enc_tree(b)))
        L.append("nodes")
        for p in query_paths(a, b):
            L.append("get " + show_path(p))
    return L


def compare(case, ir, mo):
    # model answers `cmp` with the empty flag
    return core.default_compare(case, ir, mo)


# ----------------------------------------------------------------------------- generators
F1, F2, SYM = "sha256:" + "a1" * 4, "sha256:" + "b2" * 4, "symlink:a/b"


def small_trees():
    inner = []
    opts1 = [None, F1, SYM, {}]
    for x, y in itertools.product(opts1, repeat=2):
        t = {}
        if x is not None:
            t["a"] = copy.deepcopy(x)
        if y is not None:
            t["b"] = copy.deepcopy(y)
        inner.append(t)
    opts2 = [None, F1, F2, SYM] + inner
    trees = []
    for x, y in itertools.product(opts2, repeat=2):
        t = {}
        # insertion order b, a on purpose for half of them
        if y is not None:
            t["b"] = copy.deepcopy(y)
        if x is not None:
            t["a"] = copy.deepcopy(x)
        trees.append(t)
    return trees


NAMES = ["a", "b", "a.b", "a-b", "B", "aa", "_x", "c d", "z", "0"]
LEAVES = [F1, F2, SYM, "symlink:z", "sha256:" + "00" * 4]


def rand_tree(rng, depth, width):
    t = {}
    names = rng.sample(NAMES, rng.randrange(0, width + 1))
    for n in names:
        if depth > 0 and rng.random() < 0.45:
            t[n] = rand_tree(rng, depth - 1, width)
        else:
            t[n] = rng.choice(LEAVES)
    return t


def mutate(rng, t, depth):
    """a tree related to t (so that the diff is a mix of unchanged / changed parts)."""
    t = copy.deepcopy(t)
    for _ in range(rng.randrange(0, 5)):
        cur = t
        while True:
            keys = sorted(cur)
            r = rng.random()
            if keys and r < 0.5 and isinstance(cur[rng.choice(keys)], dict):
                sub = [k for k in keys if isinstance(cur[k], dict)]
                cur = cur[rng.choice(sub)]
                continue
            op = rng.choice(["del", "add", "chg", "f2d", "d2f"])
            if op == "del" and keys:
                del cur[rng.choice(keys)]
            elif op == "add":
                cur[rng.choice(NAMES)] = rand_tree(rng, 1, 3) if rng.random() < 0.4 else rng.choice(LEAVES)
            elif op == "chg" and keys:
                k = rng.choice(keys)
                if isinstance(cur[k], str):
                    cur[k] = rng.choice(LEAVES)
            elif op == "f2d" and keys:
                k = rng.choice(keys)
                if isinstance(cur[k], str):
                    cur[k] = rand_tree(rng, 1, 3)
            elif op == "d2f" and keys:
                k = rng.choice(keys)
                if isinstance(cur[k], dict):
                    cur[k] = rng.choice(LEAVES)
            break
    return t


def shuffled(rng, t):
    if not isinstance(t, dict):
        return t
    ks = list(t)
    rng.shuffle(ks)
    return {k: shuffled(rng, t[k]) for k in ks}


def gen_cases(ctx, scale=1.0):
    rng = ctx.rng
    cases = []
    trees = small_trees()
    B = 1 if ctx.quick else 20
    if ctx.quick:
        n = int(12000 * scale)
        pairs = [[copy.deepcopy(rng.choice(trees)), copy.deepcopy(rng.choice(trees))] for _ in range(n)]
    else:
        pairs = [[a, b] for a in trees for b in trees]
        ctx.exhaustive_spaces.append("all %d^2 ordered pairs of trees of depth <= 2 over the names a, b with leaves file(2 contents at the top level)/symlink/empty dir/dir" % len(trees))
    for i in range(0, len(pairs), B):
        cases.append(dict(pairs=pairs[i:i + B]))
    nr = int((3000 if ctx.quick else 20000) * scale)
    rp = []
    for i in range(nr):
        a = rand_tree(rng, rng.choice([1, 2, 3, 4]), rng.choice([2, 3, 5]))
        b = mutate(rng, a, 3) if rng.random() < 0.7 else rand_tree(rng, rng.choice([1, 2, 3]), rng.choice([2, 3, 5]))
        if rng.random() < 0.5:
            a, b = b, a
        rp.append([shuffled(rng, a), shuffled(rng, b)])
    for i in range(0, len(rp), B):
        cases.append(dict(pairs=rp[i:i + B]))
    return cases


def run(ctx):
    ctx.rule = ("cases: batches of pairs (old, new) of nested dicts as produced by dir_hashsums: small trees over two names (quick: sampled, "
                "thorough: all ordered pairs) and random larger trees, the new tree either independent or an edited copy of the old one "
                "(delete / add / change content / file->dir / dir->file at random depth), random dict insertion order. "
                "Non-trivial = tagged: added / removed / modified nodes, file<->dir replacement, removed non-empty subtree, more than 6 nodes.")
    ctx.assumptions += [
        "dict keys are unique and dict comparison ignores insertion order: the model takes directories as key-sorted association lists",
        "PurePosixPath ordering of sibling paths = code point order of the last name = Lean String order (ASCII names used)",
        "file entries are non-empty strings (dir_hashsums never stores an empty string)",
    ]
    cases = core.load_corpus(ID) + gen_cases(ctx)
    ctx.correspond("dirdiff", MOD, cases, lines, "drv_dif", compare=compare, timeout=300)


def signature(case, detail):
    return "%s:%s" % (ID, detail.get("kind") if isinstance(detail, dict) else str(detail)[:40])


# ----------------------------------------------------------------------------- shrinking
def _shrinks(t):
    if isinstance(t, dict):
        for k in sorted(t):
            u = dict(t)
            del u[k]
            yield u
        for k in sorted(t):
            for s in _shrinks(t[k]):
                u = dict(t)
                u[k] = s
                yield u
            if isinstance(t[k], dict):
                u = dict(t)
                u[k] = F1
                yield u


_shrunk = {}


def shrink(ctx, case, detail):
    """structural shrinking, re-checking the oracle on the real code; one shrink per violation kind."""
    want = detail.get("kind") if isinstance(detail, dict) else None
    if want not in _shrunk:
        _shrunk[want] = _shrink(ctx, case, detail)
    return _shrunk[want]


def _shrink(ctx, case, detail):
    from .. import pool
    want = detail.get("kind") if isinstance(detail, dict) else None
    i = detail.get("pair", 0) if isinstance(detail, dict) else 0
    pair = case["pairs"][i] if i < len(case["pairs"]) else case["pairs"][0]

    def fails(p):
        r = pool.run_one(MOD, "impl", dict(pairs=[p]), timeout=60)
        if "ok" not in r:
            return None
        ds = [d for d in r["ok"]["oracle"] if d.get("kind") == want]
        return ds[0] if ds else None

    det = fails(pair)
    if det is None:
        return case, detail
    budget = 150
    progress = True
    while progress and budget > 0:
        progress = False
        for side in (0, 1):
            for s in _shrinks(pair[side]):
                if budget <= 0:
                    break
                budget -= 1
                p = [s, pair[1]] if side == 0 else [pair[0], s]
                d = fails(p)
                if d:
                    pair, det, progress = p, d, True
                    break
    return dict(pairs=[pair]), det


def search(ctx):
    from .. import pool
    for s in range(1, 4):
        sub = core.Ctx(ID, "quick", ctx.seed + 7919 * s)
        cases = gen_cases(sub, scale=1.0)
        res = pool.run(MOD, "impl", cases, timeout=300)
        ctx.search_log.append("seed %d: %d batches, oracle only" % (sub.seed, len(cases)))
        for c, r in zip(cases, res):
            if "ok" in r and r["ok"]["oracle"]:
                return shrink(ctx, c, r["ok"]["oracle"][0])
    return None


def replay(ctx, rep):
    from .. import pool
    case = rep.get("case")
    if not case:
        print(core.canon(rep)[:2000])
        return 0
    r = pool.run_one(MOD, "impl", case, timeout=120)
    print("implementation:", core.canon(r)[:4000])
    print("model:", lean.run_driver("drv_dif", [lines(case)]))
    return 1 if ("ok" in r and r["ok"]["oracle"]) else 0
