"""C18 — Directory diffs are exact and safely ordered.

Lean: Model/Diff.lean, Proofs/Diff*.lean, Props/C18.lean, driver drv_dif; translation tie
Gen/Diff.lean (harness/translate_c18.py) + Bridge/Diff.lean over the dictionary Py/DiffPy.lean.
Real code: `metador_core.util.diff.DirDiff.compare / DiffNode.nodes / status / DirDiff.get` on pairs
of nested dicts of the shape `dir_hashsums` produces (str = file hashsum or "symlink:<target>",
dict = directory), built directly, never sharing sub-dicts between the two trees.

Correspondence: `is_empty`, the node list (path, status, prev, curr) *in order*, and `get(p)` for every
path of either tree plus absent paths, real code vs. model.
Oracle (real code only): empty iff equal; reported paths = {p | lookup a p != lookup b p} with the right
status / prev / curr; applying nodes() in order with an independent simulator (remove needs a file or an
*empty* directory, add needs an existing parent directory) turns a into b; get agrees with the listing.
Scenarios (oracle only; the model is a pure function of the two snapshot *values* at the time of the call, so
independence of the result from what happens to the argument *objects* afterwards cannot be stated in it): after
compare(a, b) the harness edits the two dict objects in place (clear / recycle `a.clear(); a.update(b)` / swap /
replace / add, remove, modify entries at any depth / make them equal), before the first and between later
inspections, each inspection touching the result first through one of is_empty, _diff_root, get(""), get(p),
status(get(p)), annotate(dir) (empty directory, or the new tree materialised on disk); every complete observation
must describe the snapshots as they were at compare() and repeated observations must agree. After such edits the
*content* of directory entries in prev/curr is not compared (DiffNode holds shallow copies of the caller's dicts,
nested directories stay shared - object aliasing, outside the statement; tag `dir-entry-follows-later-edit-of-input`).
"""
import copy
import itertools

from .. import core, lean

ID = "C18"
MOD = "harness.props.c18"
T = "MetadorModel.C18."
B = "MetadorModel.Bridge.Diff."
LEAN = dict(
    modules=["MetadorModel.Props.C18"] +
            # one bridge module per translated function: a changed function breaks its own obligation
            ["MetadorModel.Bridge." + m for m in ["DiffType", "DiffStatus", "DiffChildren", "DiffCompare", "DiffNodes",
                                                   "DiffGet", "Diff", "DiffLookup"]],
    theorems=[T + n for n in ["compare_none_iff", "reported_exact", "order_safe", "get_agrees",
                              "compare_none_iff_lookup", "reported_once", "listing_nil_iff", "reversed_mirror",
                              "undo_roundtrip", "compose_same_result"]] +
             # translation tie: Gen/Diff.lean (regenerated from util/diff.py on every run) = Model/Diff.lean
             [B + n for n in ["gen_type", "gen_prev_curr_type", "gen_status", "gen_children", "gen_compare",
                              "gen_compare_top", "gen_nodes", "gen_nodes_compare", "gen_get", "gen_get_compare"]],
    drivers=["drv_dif"],
)


def translate(ctx):
    """regenerate Gen/Diff.lean from util/diff.py of the checked tree (see harness/translate_c18.py)"""
    import os

    from .. import translate_c18
    text, errors = translate_c18.gen_diff_checked()
    # written in any case (an untranslatable function is a stub, so that exactly its bridge theorem breaks)
    changed = lean.write_if_changed(os.path.join(lean.LEAN, "MetadorModel", "Gen", "Diff.lean"), text)
    if errors:
        raise translate_c18.TranslateError("; ".join(errors))
    return "Gen/Diff.lean %s" % ("rewritten" if changed else "unchanged")


# ----------------------------------------------------------------------------- encodings
def hx(s):
    return s.encode().hex() if s else "-"


def enc_tree(t):
    """prefix token encoding: `F <hex>` | `D <n> <keyhex> <tree> ...` (keys sorted) | `N`."""
    if t is None:
        return ["N"]
    if isinstance(t, str):
        return ["F", hx(t)]
    out = ["D", str(len(t))]
    for k in sorted(t):
        out += [hx(k)] + enc_tree(t[k])
    return out


def show_tree(t):
    """single-token rendering used in output lines."""
    if t is None:
        return "-"
    if isinstance(t, str):
        return "f:" + hx(t)
    return "d{" + ",".join("%s=%s" % (hx(k), show_tree(t[k])) for k in sorted(t)) + "}"


def show_path(parts):
    return "/".join(hx(p) for p in parts) if parts else "."


def lookup(t, parts):
    for p in parts:
        if not isinstance(t, dict) or p not in t:
            return None
        t = t[p]
    return t


def all_paths(t, pre=()):
    yield pre
    if isinstance(t, dict):
        for k, v in t.items():
            yield from all_paths(v, pre + (k,))


def query_paths(a, b):
    ps = set(all_paths(a)) | set(all_paths(b))
    extra = set()
    for p in ps:
        extra.add(p + ("zz",))
        if p:
            extra.add(p[:-1] + ("zz",))
    return sorted(ps | extra)


# ----------------------------------------------------------------------------- real code
def _node_line(n):
    return "%s|%s|%s|%s" % (show_path(n.path.parts), n.status().value, show_tree(n.prev), show_tree(n.curr))


def simulate(a, nodes):
    """independent 'apply in order' simulator; returns (tree, error)."""
    from metador_core.util.diff import DiffNode
    S = DiffNode.Status
    root = {"": copy.deepcopy(a)}

    def parent_of(parts):
        cur = root[""]
        for p in parts[:-1]:
            if not isinstance(cur, dict) or p not in cur:
                return None
            cur = cur[p]
        return cur if isinstance(cur, dict) else None

    for n in nodes:
        parts = n.path.parts
        st = n.status()
        shell = n.curr if isinstance(n.curr, str) else {}
        if not parts:
            # the root: only directory -> directory is possible for DirHashsums
            if not (isinstance(n.prev, dict) and isinstance(n.curr, dict) and isinstance(root[""], dict)):
                return None, "root node is not a changed directory"
            continue
        par = parent_of(parts)
        name = parts[-1]
        if par is None:
            return None, "parent of %s missing or not a directory when processing %s" % (show_path(parts), st.value)
        if st == S.removed:
            if name not in par:
                return None, "remove of missing %s" % show_path(parts)
            if not (isinstance(par[name], str) or par[name] == {}):
                return None, "remove of non-empty directory %s" % show_path(parts)
            del par[name]
        elif st == S.added:
            if name in par:
                return None, "add of existing %s" % show_path(parts)
            par[name] = shell
        elif st == S.modified:
            if name not in par:
                return None, "modify of missing %s" % show_path(parts)
            if isinstance(n.prev, dict) and isinstance(n.curr, dict):
                if not isinstance(par[name], dict):
                    return None, "changed directory %s is not a directory" % show_path(parts)
                continue
            if not (isinstance(par[name], str) or par[name] == {}):
                return None, "replace of non-empty directory %s" % show_path(parts)
            par[name] = shell
        else:
            return None, "status %r in listing" % (st,)
    return root[""], None


def expected(a0, b0):
    """reference {path: (old entry, new entry)} of all paths whose entry differs (no code under test involved)."""
    exp = {}
    for p in set(all_paths(a0)) | set(all_paths(b0)):
        la, lb = lookup(a0, p), lookup(b0, p)
        if la != lb:
            exp[p] = (la, lb)
    return exp


def _same(x, want, strict):
    """entry reported by a node vs. the entry of the compared snapshot. strict: equal. Not strict (the caller has
    mutated the snapshot objects after compare()): same kind, and equal if it is a file entry - DiffNode keeps
    directory entries as (shallow copies of) the caller's dict objects, so their *content* follows later in-place
    edits of nested directories; the property does not speak about object aliasing, only recorded as a tag."""
    if strict:
        return x == want
    if isinstance(want, dict):
        return isinstance(x, dict)
    return x == want


def check_listing(d, nodes, a0, b0, strict=True):
    """oracle for a listing (nodes in the order given by the code): exact set, status, entries, safe order."""
    from metador_core.util.diff import DiffNode
    S = DiffNode.Status
    oracle, tags = [], set()
    listed = {}
    for n in nodes:
        p = tuple(n.path.parts)
        if p in listed:
            oracle.append(dict(kind="path-listed-twice", path=list(p)))
        listed[p] = n
    for p in set(all_paths(a0)) | set(all_paths(b0)):
        la, lb = lookup(a0, p), lookup(b0, p)
        n = listed.get(p)
        if la == lb:
            if n is not None:
                oracle.append(dict(kind="unchanged-path-reported", path=list(p)))
            continue
        if n is None:
            oracle.append(dict(kind="changed-path-missing", path=list(p)))
            continue
        want = S.added if la is None else S.removed if lb is None else S.modified
        if n.status() != want or d.status(n) != want:
            oracle.append(dict(kind="wrong-status", path=list(p), got=n.status().value, want=want.value))
        if not _same(n.prev, la, strict) or not _same(n.curr, lb, strict):
            oracle.append(dict(kind="wrong-prev-curr", path=list(p)))
        elif not strict and (n.prev != la or n.curr != lb):
            tags.add("dir-entry-follows-later-edit-of-input")
        tags.add({"+": "added", "-": "removed", "~": "modified"}[want.value])
        if isinstance(la, dict) != isinstance(lb, dict) and la is not None and lb is not None:
            tags.add("file<->dir")
        if isinstance(la, dict) and la and lb is None:
            tags.add("subtree-removed")
    for p in listed:
        if lookup(a0, p) is None and lookup(b0, p) is None:
            oracle.append(dict(kind="nonexistent-path-reported", path=list(p)))
    # --- safe order
    if nodes:
        res, err = simulate(a0, nodes)
        if err:
            oracle.append(dict(kind="unsafe-order", error=err))
        elif res != b0:
            oracle.append(dict(kind="apply-does-not-give-new-tree", got=res))
    if len(nodes) > 6:
        tags.add("nodes>6")
    return listed, oracle, tags


def check_gets(d, gets, listed, strict=True):
    """get(p) (results in `gets`: path -> node/None) agrees with the listing."""
    from metador_core.util.diff import DiffNode
    S = DiffNode.Status
    oracle = []
    for p, g in gets.items():
        n = listed.get(p)
        if (g is None) != (n is None) or (g is not None and (g.path != n.path or not _same(g.prev, n.prev, strict or g is n)
                                                              or not _same(g.curr, n.curr, strict or g is n))):
            oracle.append(dict(kind="get-disagrees-with-listing", path=list(p)))
        if d.status(g) != (S.unchanged if n is None else n.status()):
            oracle.append(dict(kind="status-of-get", path=list(p)))
    return oracle


def check_pair(a0, b0):
    from pathlib import Path

    from metador_core.util.diff import DirDiff
    a, b = copy.deepcopy(a0), copy.deepcopy(b0)
    out, oracle, tags = [], [], set()
    try:
        d = DirDiff.compare(a, b)
        nodes = d._diff_root.nodes() if d._diff_root is not None else []
    except Exception as e:  # noqa: BLE001  (compare is total on DirHashsums)
        return ["empty ?", "nodes ?"] + ["get ?" for _ in query_paths(a0, b0)], [dict(kind="compare-raised", error="%s: %s" % (type(e).__name__, str(e)[:200]))], []
    if a != a0 or b != b0:
        oracle.append(dict(kind="input-mutated"))
    out.append("empty " + ("T" if d.is_empty else "F"))
    out.append(" ".join(["nodes"] + [_node_line(n) for n in nodes]))
    # --- no difference iff equal
    if d.is_empty != (a0 == b0):
        oracle.append(dict(kind="empty-iff-equal", empty=d.is_empty, equal=(a0 == b0)))
    # --- reported set is exact, order is safe
    listed, orc, tg = check_listing(d, nodes, a0, b0)
    oracle += orc
    tags |= tg
    # --- get agrees with the listing
    gets = {}
    for p in query_paths(a0, b0):
        g = gets[p] = d.get(Path(*p) if p else Path(""))
        out.append("get " + ("none" if g is None else _node_line(g)))
    oracle += check_gets(d, gets, listed)
    # --- the opposite comparison is the mirror image and undoes the change (C18.reversed_mirror, C18.undo_roundtrip)
    oracle += check_reverse(listed, a0, b0)
    return out, oracle, sorted(tags)


MIRROR = {"+": "-", "-": "+", "~": "~"}


def check_reverse(listed, a0, b0):
    """oracle for the theorems about the opposite direction: compare(b, a) lists the same paths with old and new
    entry swapped (added <-> removed) and its listing, processed in order on b, gives back a."""
    from metador_core.util.diff import DirDiff
    oracle = []
    try:
        r = DirDiff.compare(copy.deepcopy(b0), copy.deepcopy(a0))
        rnodes = r._diff_root.nodes() if r._diff_root is not None else []
    except Exception as e:  # noqa: BLE001
        return [dict(kind="reverse-compare-raised", error="%s: %s" % (type(e).__name__, str(e)[:200]))]
    back = {tuple(n.path.parts): n for n in rnodes}
    if set(back) != set(listed):
        oracle.append(dict(kind="reverse-paths-differ", only_forward=sorted(map(list, set(listed) - set(back)))[:4],
                           only_backward=sorted(map(list, set(back) - set(listed)))[:4]))
    for p, n in listed.items():
        m = back.get(p)
        if m is None:
            continue
        if m.status().value != MIRROR.get(n.status().value):
            oracle.append(dict(kind="reverse-status-not-mirrored", path=list(p), forward=n.status().value, backward=m.status().value))
        if m.prev != n.curr or m.curr != n.prev:
            oracle.append(dict(kind="reverse-entries-not-swapped", path=list(p)))
    if rnodes:
        res, err = simulate(b0, rnodes)
        if err:
            oracle.append(dict(kind="undo-unsafe-order", error=err))
        elif res != a0:
            oracle.append(dict(kind="undo-does-not-give-old-tree", got=res))
    return oracle


# ----------------------------------------------------------------------------- later edits of the snapshot objects
# What was compared are the snapshots at the time of the call: a caller may recycle / edit the dict objects it passed
# (one running snapshot updated in place, ...) between compare() and any inspection of the result. A scenario is a
# sequence of steps  ["obs", way] | ["mut", op...]  executed after compare(); every "obs" touches the result through
# `way` first and then makes the complete observation, which must describe the snapshots as they were at compare().
WAYS = ["empty", "root", "get-root", "get", "status", "annotate"]


def _dir_at(t, path):
    for p in path:
        if not isinstance(t, dict) or not isinstance(t.get(p), dict):
            return None
        t = t[p]
    return t if isinstance(t, dict) else None


def apply_mut(op, ab):
    """in-place edit of the two snapshot objects ab = [a, b]; lenient (an op that does not fit is skipped)."""
    k = op[0]
    if k == "swap":
        tmp = dict(ab[0])
        ab[0].clear()
        ab[0].update(ab[1])
        ab[1].clear()
        ab[1].update(tmp)
        return
    x, other = ab[op[1]], ab[1 - op[1]]
    if k == "clear":
        x.clear()
    elif k == "copy":  # recycle: x.clear(); x.update(other)  (sub-directories shared afterwards)
        x.clear()
        x.update(other)
    elif k == "deepcopy":
        x.clear()
        x.update(copy.deepcopy(other))
    elif k == "replace":
        x.clear()
        x.update(copy.deepcopy(op[2]))
    elif k == "set":
        par = _dir_at(x, op[2][:-1])
        if par is not None and op[2]:
            par[op[2][-1]] = copy.deepcopy(op[3])
    elif k == "del":
        par = _dir_at(x, op[2][:-1])
        if par is not None and op[2] and op[2][-1] in par:
            del par[op[2][-1]]


def materialise(t, base):
    """directory with the content described by snapshot t (file content = its entry, symlink target as given)."""
    import os
    for k, v in t.items():
        p = os.path.join(base, k)
        if isinstance(v, dict):
            os.mkdir(p)
            materialise(v, p)
        elif v.startswith("symlink:"):
            os.symlink(v[len("symlink:"):], p)
        else:
            with open(p, "w") as f:
                f.write(v)


def observe(d, way, a0, b0, strict, base_dir):
    """touch the result through `way` first, then the complete observation. Returns (canonical form, oracle, tags)."""
    from pathlib import Path
    oracle, tags = [], set()
    qs = query_paths(a0, b0)
    first = None
    if way == "empty":
        first = d.is_empty
    elif way == "root":
        first = d._diff_root if hasattr(d, "_diff_root") else d.get(Path(""))
    elif way == "get-root":
        first = d.get(Path(""))
    elif way == "get":
        first = [d.get(Path(*p) if p else Path("")) for p in qs]
    elif way == "status":
        first = [d.status(d.get(Path(*p) if p else Path(""))) for p in qs]
    elif way == "annotate":
        first = d.annotate(Path(base_dir))
    # --- complete observation
    empty = d.is_empty
    if empty != (a0 == b0):
        oracle.append(dict(kind="empty-iff-equal", empty=empty, equal=(a0 == b0)))
    root = d.get(Path(""))
    nodes = root.nodes() if root is not None else []
    listed, orc, tg = check_listing(d, nodes, a0, b0, strict)
    oracle += orc
    tags |= tg
    gets = {p: d.get(Path(*p) if p else Path("")) for p in qs}
    oracle += check_gets(d, gets, listed, strict)
    if way == "get":
        oracle += check_gets(d, dict(zip(qs, first)), listed, strict)
    elif way == "status":
        for p, st in zip(qs, first):
            if st != d.status(listed.get(p)):
                oracle.append(dict(kind="status-of-get", path=list(p)))
    elif way == "annotate":
        # values that are nodes, in iteration order = a listing; a path annotated with None is reported as unchanged
        exp = expected(a0, b0)
        vals = []
        for k, v in first.items():
            rel = tuple(Path(k).relative_to(base_dir).parts)
            if v is None:
                if rel in exp:
                    oracle.append(dict(kind="changed-path-missing", path=list(rel), via="annotate"))
                continue
            if tuple(v.path.parts) != rel:
                oracle.append(dict(kind="get-disagrees-with-listing", path=list(rel), via="annotate"))
            vals.append(v)
        _l, orc, _t = check_listing(d, vals, a0, b0, strict)
        for o in orc:
            o["via"] = "annotate"
        oracle += orc
        tags.add("annotate")
    canon = (empty, tuple((tuple(n.path.parts), n.status().value, _kind(n.prev), _kind(n.curr)) for n in nodes),
             tuple((p, None if g is None else (tuple(g.path.parts), g.status().value)) for p, g in gets.items()))
    return canon, oracle, tags


def _kind(x):
    return "-" if x is None else "d" if isinstance(x, dict) else "f:" + x


def check_scenario(a0, b0, scen):
    """compare(), then the steps of the scenario, then two more complete observations (stable)."""
    import shutil
    import tempfile
    from metador_core.util.diff import DirDiff
    ab = [copy.deepcopy(a0), copy.deepcopy(b0)]
    oracle, tags = [], set()
    steps = [list(s) for s in scen.get("steps", [])]
    steps.append(["obs", ([w for w in WAYS if ["obs", w] not in steps] or WAYS)[0]])  # once more: stable
    tmp = tempfile.mkdtemp(prefix="c18-")
    muts, nobs, last = [], 0, None
    if scen.get("mat"):
        materialise(b0, tmp)  # the directory in its current state, as annotate() expects it
        tags.add("annotate-on-directory")
    try:
        d = DirDiff.compare(ab[0], ab[1])
        for i, st in enumerate(steps):
            if st[0] == "mut":
                apply_mut(st[1:], ab)
                muts.append(st[1:])
                last = None
                continue
            canon, orc, tg = observe(d, st[1], a0, b0, not muts, tmp)
            tags |= tg
            if not orc and last is not None and canon != last:
                orc = [dict(kind="inspection-not-stable")]
            last = canon
            if muts:
                tags.add("edited-before-first-inspection" if nobs == 0 else "edited-between-inspections")
            nobs += 1
            if orc:
                for o in orc:
                    if muts:
                        o["kind"] = "after-edit-of-snapshot:" + o["kind"]
                    o["step"] = i
                    o["first_touched"] = st[1]
                    oracle.append(o)
                break
    except Exception as e:  # noqa: BLE001
        oracle.append(dict(kind=("after-edit-of-snapshot:" if muts else "") + "inspection-raised",
                           error="%s: %s" % (type(e).__name__, str(e)[:200])))
    finally:
        shutil.rmtree(tmp, ignore_errors=True)
    return oracle, tags


def impl(case):
    out, oracle, tags = [], [], set()
    alias = case.get("alias") or []
    for i, (a, b) in enumerate(case["pairs"]):
        o, orc, tg = check_pair(a, b)
        out += o
        if not orc and i < len(alias) and alias[i]:
            # the scenarios only when the plain observation is clean (otherwise they repeat its findings)
            orc, tg2 = check_scenario(a, b, alias[i])
            tg = set(tg) | tg2
        for d in orc:
            d["pair"] = i
            oracle.append(d)
        tags |= set(tg)
    return dict(out=out, oracle=oracle, tags=sorted(tags))


# ----------------------------------------------------------------------------- model lines
def lines(case):
    L = []
    for a, b in case["pairs"]:
        L.append(" ".join(["cmp"] + enc_tree(a) + enc_tree(b)))
        L.append("nodes")
        for p in query_paths(a, b):
            L.append("get " + show_path(p))
    return L


def compare(case, ir, mo):
    # model answers `cmp` with the empty flag
    return core.default_compare(case, ir, mo)


# ----------------------------------------------------------------------------- generators
F1, F2, SYM = "sha256:" + "a1" * 4, "sha256:" + "b2" * 4, "symlink:a/b"


def small_trees():
    inner = []
    opts1 = [None, F1, SYM, {}]
    for x, y in itertools.product(opts1, repeat=2):
        t = {}
        if x is not None:
            t["a"] = copy.deepcopy(x)
        if y is not None:
            t["b"] = copy.deepcopy(y)
        inner.append(t)
    opts2 = [None, F1, F2, SYM] + inner
    trees = []
    for x, y in itertools.product(opts2, repeat=2):
        t = {}
        # insertion order b, a on purpose for half of them
        if y is not None:
            t["b"] = copy.deepcopy(y)
        if x is not None:
            t["a"] = copy.deepcopy(x)
        trees.append(t)
    return trees


NAMES = ["a", "b", "a.b", "a-b", "B", "aa", "_x", "c d", "z", "0"]
LEAVES = [F1, F2, SYM, "symlink:z", "sha256:" + "00" * 4]


def rand_tree(rng, depth, width):
    t = {}
    names = rng.sample(NAMES, rng.randrange(0, width + 1))
    for n in names:
        if depth > 0 and rng.random() < 0.45:
            t[n] = rand_tree(rng, depth - 1, width)
        else:
            t[n] = rng.choice(LEAVES)
    return t


def mutate(rng, t, depth):
    """a tree related to t (so that the diff is a mix of unchanged / changed parts)."""
    t = copy.deepcopy(t)
    for _ in range(rng.randrange(0, 5)):
        cur = t
        while True:
            keys = sorted(cur)
            r = rng.random()
            if keys and r < 0.5 and isinstance(cur[rng.choice(keys)], dict):
                sub = [k for k in keys if isinstance(cur[k], dict)]
                cur = cur[rng.choice(sub)]
                continue
            op = rng.choice(["del", "add", "chg", "f2d", "d2f"])
            if op == "del" and keys:
                del cur[rng.choice(keys)]
            elif op == "add":
                cur[rng.choice(NAMES)] = rand_tree(rng, 1, 3) if rng.random() < 0.4 else rng.choice(LEAVES)
            elif op == "chg" and keys:
                k = rng.choice(keys)
                if isinstance(cur[k], str):
                    cur[k] = rng.choice(LEAVES)
            elif op == "f2d" and keys:
                k = rng.choice(keys)
                if isinstance(cur[k], str):
                    cur[k] = rand_tree(rng, 1, 3)
            elif op == "d2f" and keys:
                k = rng.choice(keys)
                if isinstance(cur[k], dict):
                    cur[k] = rng.choice(LEAVES)
            break
    return t


def shuffled(rng, t):
    if not isinstance(t, dict):
        return t
    ks = list(t)
    rng.shuffle(ks)
    return {k: shuffled(rng, t[k]) for k in ks}


def _dirs(t, pre=()):
    yield pre
    for k in sorted(t):
        if isinstance(t[k], dict):
            yield from _dirs(t[k], pre + (k,))


def rand_muts(rng, a, b):
    """in-place edits of the two snapshot objects, recorded as data (valid for the evolving trees)."""
    ab = [copy.deepcopy(a), copy.deepcopy(b)]
    ops = []
    for _ in range(rng.choice([1, 1, 1, 2, 3])):
        r = rng.random()
        s = rng.randrange(2)
        if r < 0.3:
            op = rng.choice([["copy", s], ["copy", s], ["deepcopy", s], ["clear", s], ["swap"]])
        elif r < 0.4:
            op = ["replace", s, rand_tree(rng, rng.choice([0, 1, 2]), 3)]
        else:
            # add / remove / modify an entry at any depth
            path = list(rng.choice(list(_dirs(ab[s]))))
            cur = _dir_at(ab[s], path)
            keys = sorted(cur)
            k = rng.choice(["del", "del", "set-old", "set-old", "set-new"]) if keys else "set-new"
            if k == "del":
                op = ["del", s, path + [rng.choice(keys)]]
            else:
                name = rng.choice(keys) if k == "set-old" else rng.choice(NAMES[:3] + NAMES)
                val = rand_tree(rng, 1, 2) if rng.random() < 0.3 else rng.choice(LEAVES)
                if k == "set-old" and rng.random() < 0.3:
                    val = copy.deepcopy(lookup(ab[1 - s], path + [name])) or val  # towards "equal"
                op = ["set", s, path + [name], val]
        apply_mut(op, ab)
        ops.append(["mut"] + op)
    return ops, ab


def rand_scenario(rng, a, b):
    """steps after compare(a, b): [inspection] edits inspection [edits inspection]; see check_scenario."""
    steps = []
    if rng.random() < 0.3:
        steps.append(["obs", rng.choice(WAYS)])
    ops, ab = rand_muts(rng, a, b)
    steps += ops
    steps.append(["obs", rng.choice(WAYS)])
    if rng.random() < 0.3:
        ops, ab = rand_muts(rng, ab[0], ab[1])
        steps += ops
        steps.append(["obs", rng.choice(WAYS)])
    size = sum(1 for _ in all_paths(b))
    return dict(steps=steps, mat=bool(size <= 12 and rng.random() < 0.15))


def with_scenarios(rng, pairs, frac):
    return dict(pairs=pairs, alias=[rand_scenario(rng, a, b) if rng.random() < frac else None for a, b in pairs])


def gen_cases(ctx, scale=1.0):
    rng = ctx.rng
    cases = []
    trees = small_trees()
    B = 1 if ctx.quick else 20
    if ctx.quick:
        n = int(12000 * scale)
        pairs = [[copy.deepcopy(rng.choice(trees)), copy.deepcopy(rng.choice(trees))] for _ in range(n)]
    else:
        pairs = [[a, b] for a in trees for b in trees]
        ctx.exhaustive_spaces.append("all %d^2 ordered pairs of trees of depth <= 2 over the names a, b with leaves file(2 contents at the top level)/symlink/empty dir/dir" % len(trees))
    frac = 0.5 if ctx.quick else 0.15
    for i in range(0, len(pairs), B):
        cases.append(with_scenarios(rng, pairs[i:i + B], frac))
    nr = int((3000 if ctx.quick else 20000) * scale)
    rp = []
    for i in range(nr):
        a = rand_tree(rng, rng.choice([1, 2, 3, 4]), rng.choice([2, 3, 5]))
        b = mutate(rng, a, 3) if rng.random() < 0.7 else rand_tree(rng, rng.choice([1, 2, 3]), rng.choice([2, 3, 5]))
        if rng.random() < 0.5:
            a, b = b, a
        rp.append([shuffled(rng, a), shuffled(rng, b)])
    for i in range(0, len(rp), B):
        cases.append(with_scenarios(rng, rp[i:i + B], 0.5))
    return cases


def run(ctx):
    ctx.rule = ("cases: batches of pairs (old, new) of nested dicts as produced by dir_hashsums: small trees over two names (quick: sampled, "
                "thorough: all ordered pairs) and random larger trees, the new tree either independent or an edited copy of the old one "
                "(delete / add / change content / file->dir / dir->file at random depth), random dict insertion order. "
                "Half of the pairs (thorough: 15% of the exhaustive ones) carry a scenario: in-place edits of the two snapshot objects "
                "after compare() (clear, recycle, swap, replace, set/del at any depth, make equal) before the first / between inspections, "
                "first touch through is_empty | _diff_root | get('') | get(p) | status | annotate(dir), then the complete observation, repeated. "
                "Non-trivial = tagged: added / removed / modified nodes, file<->dir replacement, removed non-empty subtree, more than 6 nodes, "
                "edited-before-first-inspection, edited-between-inspections, annotate, annotate-on-directory.")
    ctx.assumptions += [
        "dict keys are unique and dict comparison ignores insertion order: the model takes directories as key-sorted association lists",
        "PurePosixPath ordering of sibling paths = code point order of the last name = Lean String order (ASCII names used)",
        "file entries are non-empty strings (dir_hashsums never stores an empty string)",
        "after in-place edits of the argument dicts, directory entries reported in prev/curr are compared by kind only (DiffNode keeps "
        "shallow copies of the caller's dicts; aliasing of nested directories is outside the statement)",
    ]
    cases = core.load_corpus(ID) + gen_cases(ctx)
    ctx.correspond("dirdiff", MOD, cases, lines, "drv_dif", compare=compare, timeout=300)


def signature(case, detail):
    return "%s:%s" % (ID, detail.get("kind") if isinstance(detail, dict) else str(detail)[:40])


# ----------------------------------------------------------------------------- shrinking
def _shrinks(t):
    if isinstance(t, dict):
        for k in sorted(t):
            u = dict(t)
            del u[k]
            yield u
        for k in sorted(t):
            for s in _shrinks(t[k]):
                u = dict(t)
                u[k] = s
                yield u
            if isinstance(t[k], dict):
                u = dict(t)
                u[k] = F1
                yield u


_shrunk = {}


def shrink(ctx, case, detail):
    """structural shrinking, re-checking the oracle on the real code; one shrink per violation kind."""
    want = detail.get("kind") if isinstance(detail, dict) else None
    if want not in _shrunk:
        _shrunk[want] = _shrink(ctx, case, detail)
    return _shrunk[want]


def _shrink(ctx, case, detail):
    from .. import pool
    want = detail.get("kind") if isinstance(detail, dict) else None
    i = detail.get("pair", 0) if isinstance(detail, dict) else 0
    if i >= len(case["pairs"]):
        i = 0
    pair = case["pairs"][i]
    alias = case.get("alias") or []
    scen = alias[i] if i < len(alias) else None

    def mk(p, sc):
        return dict(pairs=[p], alias=[sc]) if sc else dict(pairs=[p])

    def fails(p, sc):
        r = pool.run_one(MOD, "impl", mk(p, sc), timeout=60)
        if "ok" not in r:
            return None
        ds = [d for d in r["ok"]["oracle"] if d.get("kind") == want]
        return ds[0] if ds else None

    det = fails(pair, scen)
    if det is None:
        return case, detail
    budget = 200
    progress = True
    while progress and budget > 0:
        progress = False
        if scen:
            # fewer steps / no directory on disk, then smaller values in the edits
            cands = [dict(scen, steps=scen["steps"][:j] + scen["steps"][j + 1:]) for j in range(len(scen["steps"]))]
            if scen.get("mat"):
                cands.insert(0, dict(scen, mat=False))
            for j, st in enumerate(scen["steps"]):
                if st[0] == "mut" and st[1] in ("set", "replace") and isinstance(st[-1], dict):
                    for sub in list(_shrinks(st[-1])) + [F1]:
                        cands.append(dict(scen, steps=scen["steps"][:j] + [st[:-1] + [sub]] + scen["steps"][j + 1:]))
            for sc in cands:
                if budget <= 0:
                    break
                budget -= 1
                d = fails(pair, sc)
                if d:
                    scen, det, progress = sc, d, True
                    break
            if progress:
                continue
        for side in (0, 1):
            for s in _shrinks(pair[side]):
                if budget <= 0:
                    break
                budget -= 1
                p = [s, pair[1]] if side == 0 else [pair[0], s]
                d = fails(p, scen)
                if d:
                    pair, det, progress = p, d, True
                    break
    det = dict(det, pair=0)
    return mk(pair, scen), det


def search(ctx):
    from .. import pool
    for s in range(1, 4):
        sub = core.Ctx(ID, "quick", ctx.seed + 7919 * s)
        cases = gen_cases(sub, scale=1.0)
        res = pool.run(MOD, "impl", cases, timeout=300)
        ctx.search_log.append("seed %d: %d batches, oracle only" % (sub.seed, len(cases)))
        for c, r in zip(cases, res):
            if "ok" in r and r["ok"]["oracle"]:
                return shrink(ctx, c, r["ok"]["oracle"][0])
    return None


def replay(ctx, rep):
    from .. import pool
    case = rep.get("case")
    if not case:
        print(core.canon(rep)[:2000])
        return 0
    r = pool.run_one(MOD, "impl", case, timeout=120)
    print("implementation:", core.canon(r)[:4000])
    print("model:", lean.run_driver("drv_dif", [lines(case)]))
    return 1 if ("ok" in r and r["ok"]["oracle"]) else 0
