"""C14 — Merging partial metadata is a lossless, associative, non-mutating monoid.

Lean: Model/Partial.lean, Proofs/Partial*.lean, Props/C14.lean, driver drv_par.
Real code: `metador_core.schema.partial` (PartialModel.merge_with/_update_field/merge/to_partial/
from_partial/cast), `schema.core.PartialSchemas` (`Schema.Partial`), `harvester.harvest`.

A case is a triple of value *specs*; every spec is turned into a real partial instance in one
of the ways the library produces partials (`src`): parse_obj of a dict, parse_obj with partial
instances inside, JSON text, YAML file through the `metadata_loader` harvester, validated
constructor (what harvesters do), `construct`, `to_partial(complete object)`.
The canonical form of the *realised* objects (phase 1) is the input of the Lean model.

Correspondence: outcomes (value or error kind) of a+b, b+c, (a+b)+c, a+(b+c), e+a, a+e for
allow_overwrite False/True, real code vs. model.
Dynamic families (`family == "dyn"`, `case["schema"]`): the schema classes are part of the case — a
sequence of class definitions (class statement or `create_model`, MetadataSchema / plain pydantic
base with extra=allow / extra=ignore), in which a NAME may be defined several times (distinct classes
with identical module and qualname and different field sets: re-executed definition, schema factory,
`class X(X)`), with the partial of an earlier definition created before the next definition exists
or only at the end. Classes are labelled `<name>~<k>` in the canonical forms.

Oracle (real code only): identity, associativity (under ChainAt), operands unchanged, list
concat / set union / recursive merge / nothing dropped / conflict raises / later wins (walk over
the canonical forms), from_partial(to_partial(o)) == o, harvest() == left fold.
"""
import json
import os

from .. import core, lean

ID = "C14"
MOD = "harness.props.c14"
T = "MetadorModel.C14."
B = "MetadorModel.Bridge.PartialMerge."
LEAN = dict(
    modules=["MetadorModel.Props.C14", "MetadorModel.Bridge.PartialMerge"],
    theorems=[T + n for n in [
        "merge_empty_left", "merge_empty_right", "merge_assoc", "merge_list_concat", "merge_set_union",
        "merge_nested", "no_value_dropped", "conflict_raises", "later_wins", "from_to_partial",
        "legacy_or_drops_falsy", "merge_empty_left'", "merge_assoc_nested", "no_value_dropped_strict",
        "conflict_is_value_error", "get_partial_src", "get_partial_src_run", "get_partial_cached"]]
    # translated tie: Gen/PartialMerge.lean is regenerated from `PartialModel._update_field` / `merge_with` of the
    # source on every run (harness/translate_c14.py); these theorems say it equals the model (Model/Partial.lean)
    + [B + n for n in ["gen_update_field", "gen_update_field_merge", "gen_merge_with", "gen_no_recursion_error"]],
    drivers=["drv_par"],
)


def translate(ctx):
    """regenerate Gen/PartialMerge.lean from the current source of `PartialModel._update_field` and
    `PartialModel.merge_with` (schema/partial.py)"""
    from .. import translate_c14
    try:
        return translate_c14.write(lean)
    except Exception as e:  # noqa: BLE001
        # leave no text of an earlier run (possibly of another tree) behind: the bridge module then fails to
        # build for this reason and not for a stale one
        translate_c14.write_stub(lean, "%s: %s" % (type(e).__name__, e))
        raise

SRCS = ["dict", "obj", "json", "yaml", "ctor", "construct", "complete"]

# ----------------------------------------------------------------------------- real classes
_fam = {}


def _families():
    """Generated schema families (built once per worker process)."""
    if _fam:
        return _fam
    from typing import List, Optional, Set

    from pydantic import BaseModel

    from metador_core.schema import MetadataSchema
    from metador_core.schema.partial import PartialFactory

    ns = {}
    src = '''
class Leaf(BASE):
    a: Optional[int]
    s: Optional[str]

class Par(BASE):
    x: Optional[int]
    f: Optional[bool]
    t: Optional[str]
    xs: Optional[List[int]]
    ss: Optional[Set[str]]
    m: Optional[Leaf]
    ms: Optional[List[Leaf]]

class Chi(Par):
    y: Optional[int]
    ys: Optional[List[str]]

class Gch(Chi):
    z: Optional[bool]

class Sib(Par):
    y: Optional[int]

class Top(BASE):
    r: int
    i: Optional[int]
    b: Optional[bool]
    s: Optional[str]
    l: Optional[List[int]]
    ls: List[str] = []
    st: Optional[Set[int]]
    sst: Optional[Set[str]]
    k: Optional[Par]
    n: Optional["Top"]
    lm: Optional[List[Par]]

class Top2(Top):
    j: Optional[int]
'''
    for fam, base in (("ms", MetadataSchema), ("pl", None)):
        if base is None:
            class PBase(BaseModel):
                class Config:
                    extra = "allow"
            base = PBase

            class PlainFactory(PartialFactory):
                base_model = PBase
            fac = PlainFactory
        else:
            fac = None
        import sys
        import types
        mod = types.ModuleType("vt_c14_" + fam)
        sys.modules[mod.__name__] = mod  # typing.get_type_hints resolves forward refs there
        g = mod.__dict__
        g.update(BASE=base, Optional=Optional, List=List, Set=Set)
        exec(src, g)
        classes = {n: g[n] for n in ["Leaf", "Par", "Chi", "Gch", "Sib", "Top", "Top2"]}
        for c in classes.values():
            c.update_forward_refs(**classes)
        if fac is None:
            part = {n: c.Partial for n, c in classes.items()}
        else:
            part = {n: fac.get_partial(c) for n, c in classes.items()}
        _fam[fam] = dict(classes=classes, partial=part, base=base)
    return _fam


INSTALLED = {
    # name -> (nested class names by field)
    "core.file": {}, "core.imagefile": {}, "core.person": {}, "core.table": {}, "core.org": {},
}


def _installed(name):
    key = "inst:" + name
    if key not in _fam:
        from metador_core.plugins import schemas
        from metador_core.schema.core import SchemaBase
        v = schemas.versions(name)[-1].version
        cls = schemas.get(name, v)
        _fam[key] = dict(top=cls, base=SchemaBase)
    return _fam[key]


def _family(fam, case=None):
    if fam.startswith("inst:"):
        return _installed(fam[5:])
    if fam == "dyn":
        return _dyn_family(case["schema"])
    return _families()[fam]


# ----------------------------------------------------------------------------- dynamic families
_LABELS = {}   # class object -> label (dynamic families: several classes share one __name__)
_dyn = {}      # canonical schema json -> family
_dyn_count = [0]

DYN_TYPES = {"int": "int", "bool": "bool", "str": "str", "Lint": "List[int]", "Lstr": "List[str]",
             "Eint": "Set[int]", "Estr": "Set[str]", "Leaf": "Leaf", "LLeaf": "List[Leaf]"}
DYN_DEFAULTS = {"int": "3", "bool": "False", "str": "'d'", "Lint": "[]", "Lstr": "[]", "Eint": "set()", "Estr": "set()"}


def dyn_fields(schema, label):
    """all fields (name, type, mode, declaring class) of the class `label`, inherited ones first."""
    by = {r["label"]: r for r in schema["revs"]}
    chain = []
    while label is not None:
        chain.append(by[label])
        label = by[label]["parent"]
    out = []
    for r in reversed(chain):
        out += [(f, ty, mode, r["label"]) for f, ty, mode in r["fields"]]
    return out


def dyn_chain(schema, label):
    by = {r["label"]: r for r in schema["revs"]}
    out = []
    while label is not None:
        out.append(label)
        label = by[label]["parent"]
    return list(reversed(out))


def dyn_reqs(schema):
    """`req` declarations for the model: chain and required fields of every class of the schema."""
    return [[".".join(dyn_chain(schema, r["label"])), [f for f, _, m, _ in dyn_fields(schema, r["label"]) if m == "req"]]
            for r in schema["revs"]]


def dyn_gp(schema):
    """the `get_partial` calls of `_dyn_family` in order, then one more per class (stored partial):
    (label, uid of the class object, name)."""
    revs = schema["revs"]
    uid = {r["label"]: i + 1 for i, r in enumerate(revs)}
    first = [r for r in revs if r.get("touch", True)] + [r for r in revs if not r.get("touch", True)]
    return [("Leaf", 0, "Leaf")] + [(r["label"], uid[r["label"]], r["name"]) for r in first + revs]


def _dyn_family(schema):
    """Build the classes of a schema description, one definition after the other, in a fresh module.
    rev = {label, name, parent (label | None), fields [[name, type, mode opt|req|def]], touch};
    `touch`: the partial of the class is created right after its definition (before the next
    definition of possibly the same name exists), otherwise after all definitions, in order."""
    key = json.dumps(schema, sort_keys=True)
    if key in _dyn:
        return _dyn[key]
    import sys
    import types
    from typing import ForwardRef, List, Optional, Set

    from pydantic import BaseModel, create_model

    from metador_core.schema import MetadataSchema
    from metador_core.schema.partial import PartialFactory

    _dyn_count[0] += 1
    mod = types.ModuleType("vt_c14_dyn%d" % _dyn_count[0])
    sys.modules[mod.__name__] = mod
    g = mod.__dict__
    if schema["base"] == "ms":
        base, fac = MetadataSchema, None
    else:
        class PBase(BaseModel):
            class Config:
                extra = "allow" if schema["base"] == "pl" else "ignore"
        PBase.__module__ = mod.__name__

        class DynFactory(PartialFactory):
            base_model = PBase
        base, fac = PBase, DynFactory
    g.update(BASE=base, Optional=Optional, List=List, Set=Set, __name__=mod.__name__)
    exec("class Leaf(BASE):\n    a: Optional[int]\n    s: Optional[str]\n", g)
    Leaf = g["Leaf"]
    _LABELS[Leaf] = "Leaf"

    def get_partial(c):
        return c.Partial if fac is None else fac.get_partial(c)

    classes, partial = {"Leaf": Leaf}, {"Leaf": get_partial(Leaf)}
    for r in schema["revs"]:
        name, par = r["name"], (classes[r["parent"]] if r["parent"] else base)
        if any(ty == "self" for _, ty, _ in r["fields"]):
            # pydantic resolves the string annotation at class creation in the module namespace, where the
            # name still denotes the previous definition: define the recursive class in a namespace without it
            g.pop(name, None)
        if schema["how"] == "create_model":
            ns = dict(int=int, bool=bool, str=str, List=List, Set=Set, Leaf=Leaf)
            fdefs = {}
            for f, ty, mode in r["fields"]:
                t = ForwardRef(name) if ty == "self" else eval(DYN_TYPES[ty], ns)
                fdefs[f] = (Optional[t], None) if mode == "opt" else (t, ...) if mode == "req" else (t, eval(DYN_DEFAULTS[ty]))
            cls = create_model(name, __base__=par, __module__=mod.__name__, **fdefs)
        else:
            g["_PARENT"] = par
            body = []
            for f, ty, mode in r["fields"]:
                t = '"%s"' % name if ty == "self" else DYN_TYPES[ty]
                body.append("    %s: %s" % (f, "Optional[%s]" % t if mode == "opt" else t if mode == "req" else "%s = %s" % (t, DYN_DEFAULTS[ty])))
            exec("class %s(_PARENT):\n%s\n" % (name, "\n".join(body) or "    pass"), g)
            cls = g[name]
        g[name] = cls
        cls.update_forward_refs(**{name: cls, "Leaf": Leaf})
        classes[r["label"]] = cls
        _LABELS[cls] = r["label"]
        if r.get("touch", True):
            partial[r["label"]] = get_partial(cls)
    for r in schema["revs"]:
        if r["label"] not in partial:
            partial[r["label"]] = get_partial(classes[r["label"]])
    fam = dict(classes=classes, partial=partial, base=base, get_partial=get_partial, yaml=(schema["base"] == "ms"), harvest=(schema["base"] == "ms"))
    if len(_dyn) > 64:
        _dyn.clear()
    _dyn[key] = fam
    return fam


# ----------------------------------------------------------------------------- canonical form
def _chain(cls, base):
    """Inheritance chain of the *source* model class of `cls`, root first, as class names."""
    from metador_core.schema.partial import PartialModel
    if isinstance(cls, type) and issubclass(cls, PartialModel):
        cls = cls.__partial_src__
    names = []
    for c in cls.__mro__:
        if c is base or not issubclass(c, base):
            break
        if issubclass(c, PartialModel):
            continue
        names.append(_LABELS.get(c, c.__name__))
    return list(reversed(names))


def canon_val(v, base):
    """Canonical tree of a real value. Atoms: I int, B bool, S str, X other (opaque repr)."""
    from pydantic import BaseModel
    if v is None:
        return None
    if isinstance(v, bool):
        return ["B", v]
    if isinstance(v, int):
        return ["I", v]
    if isinstance(v, str):
        return ["S", v]
    if isinstance(v, list):
        return ["L", [canon_val(x, base) for x in v]]
    if isinstance(v, (set, frozenset)):
        return ["E", sorted((canon_val(x, base) for x in v), key=akey)]
    if isinstance(v, BaseModel):
        consts = getattr(type(v), "__constants__", None) or {}
        fields = {k: canon_val(x, base) for k, x in v.__dict__.items()
                  if not k.startswith("_") and x is not None and k not in consts}
        return ["O", _chain(type(v), base), fields]
    return ["S", "%s:%s" % (type(v).__name__, v)]


def enc(c):
    """Token encoding of a canonical tree for the driver (space separated, prefix notation)."""
    if c is None:
        return ["N"]
    t = c[0]
    if t == "I":
        return ["I", str(c[1])]
    if t == "B":
        return ["B", "T" if c[1] else "F"]
    if t == "S":
        return ["S", c[1].encode().hex() or "-"]
    if t == "L":
        out = ["L", str(len(c[1]))]
        for x in c[1]:
            out += enc(x)
        return out
    if t == "E":
        out = ["E", str(len(c[1]))]
        for x in c[1]:
            out += enc(x)
        return out
    if t == "O":
        out = ["O", ".".join(c[1]) or "-", str(len(c[2]))]
        for k in sorted(c[2]):
            out += [k.encode().hex(), *enc(c[2][k])]
        return out
    raise ValueError(c)


def show(c):
    return " ".join(enc(c))


def akey(c):
    """sort key of set elements (both sides sort by the token encoding)."""
    return " ".join(enc(c))


# ----------------------------------------------------------------------------- realisation
def _plain(spec, drop_cls=True):
    """Spec -> plain python data (dicts for objects, lists for sets: what JSON/YAML can carry)."""
    t = spec[0]
    if t in "IBS":
        return spec[1]
    if t == "L":
        return [_plain(x) for x in spec[1]]
    if t == "E":
        return [_plain(x) for x in spec[1]]
    if t == "O":
        return {k: _plain(v) for k, v in spec[2].items()}
    raise ValueError(spec)


def _inst(spec, fam, mode):
    """Spec -> python value with model instances for objects.
    mode: obj (Partial.parse_obj), ctor (Partial(**)), construct (Partial.construct), complete."""
    t = spec[0]
    if t in "IBS":
        return spec[1]
    if t == "L":
        return [_inst(x, fam, mode) for x in spec[1]]
    if t == "E":
        return set(_inst(x, fam, mode) for x in spec[1])
    if t == "O":
        fields = {k: _inst(v, fam, mode) for k, v in spec[2].items()}
        name = spec[1]
        if mode == "complete":
            return fam["classes"][name].parse_obj(fields)
        P = fam["partial"][name]
        if mode == "obj":
            return P.parse_obj(fields)
        if mode == "ctor":
            return P(**fields)
        return P.construct(**fields)
    raise ValueError(spec)


def realise(spec, src, famname, tmpdir, fam=None):
    fam = fam or _family(famname)
    if famname.startswith("inst:"):
        top = fam["top"]
        P = top.Partial
        if src in ("obj", "complete", "construct"):
            src = "dict"
    else:
        top = fam["classes"][spec[1]]
        P = fam["partial"][spec[1]]
    if src == "dict":
        return P.parse_obj(_plain(spec))
    if src == "json":
        return P.parse_raw(json.dumps(_plain(spec)))
    if src == "yaml":
        from metador_core.harvester import metadata_loader
        import yaml as _y
        path = os.path.join(tmpdir, "m%d.yaml" % len(os.listdir(tmpdir)))
        with open(path, "w") as f:
            f.write(_y.safe_dump(_plain(spec)) if _plain(spec) else "{}\n")
        from pathlib import Path
        if not fam.get("yaml", famname != "pl"):  # plain pydantic models have no YAML route in the library
            return P.parse_raw(json.dumps(_plain(spec)))
        return metadata_loader(top)(filepath=Path(path)).harvest()
    if src == "ctor" and famname.startswith("inst:"):
        return P(**_plain(spec))
    if src == "complete":
        return P.to_partial(_inst(spec, fam, "complete"))
    return _inst(spec, fam, src)


# ----------------------------------------------------------------------------- oracle helpers
def _kind(c):
    return None if c is None else c[0] if c[0] in "LEO" else "A"


def _comparable(c1, c2):
    return c1[:len(c2)] == c2 or c2[:len(c1)] == c1


def chain_at(vals):
    """ChainAt: at every nested position the provided values have one shape and, for model
    values, pairwise comparable classes (recursively over the fields)."""
    vals = [v for v in vals if v is not None]
    if len(vals) < 2:
        return True
    ks = {_kind(v) for v in vals}
    if len(ks) != 1:
        return False
    if ks == {"O"}:
        for i in range(len(vals)):
            for j in range(i + 1, len(vals)):
                if not _comparable(vals[i][1], vals[j][1]):
                    return False
        keys = set()
        for v in vals:
            keys |= set(v[2])
        return all(chain_at([v[2].get(k) for v in vals]) for k in keys)
    return True


def expect_merge(a, b, ow, top=False):
    """What the *property* demands of merge(a, b): returns ("ok", canonical) | ("err",) |
    ("any",) where the statement does not fix the outcome."""
    if a is None or b is None:
        return ("ok", b if a is None else a)
    ka, kb = _kind(a), _kind(b)
    if ka != kb:
        if ka in "LE" or kb in "LE":
            return ("any",)  # shape clash: outside validated partials
        return ("ok", b) if ow else ("err",)
    if ka == "L":
        return ("ok", ["L", a[1] + b[1]])
    if ka == "E":
        u = {akey(x): x for x in a[1] + b[1]}
        return ("ok", ["E", [u[k] for k in sorted(u)]])
    if ka == "A":
        return ("ok", b) if ow else ("err",)
    # two model values
    if not top and not _comparable(a[1], b[1]):
        return ("ok", b) if ow else ("err",)
    res = dict(a[2])
    for k, vb in b[2].items():
        r = expect_merge(a[2].get(k), vb, ow)
        if r[0] != "ok":
            return r
        res[k] = r[1]
    return ("ok", ["O", a[1], res])


def strip(c):
    """canonical tree without class labels (what `==` on pydantic v1 models compares)."""
    if c is None or isinstance(c, str):
        return c
    if c[0] == "O":
        return ["O", {k: strip(v) for k, v in c[2].items()}]
    if c[0] == "L":
        return ["L", [strip(x) for x in c[1]]]
    return c


def leaves(c, path=()):
    """(path, value) for every provided non-model value (atoms, lists, sets)."""
    if c is None:
        return
    if c[0] == "O":
        for k, v in c[2].items():
            yield from leaves(v, path + (k,))
    else:
        yield path, c


def at(c, path):
    for k in path:
        if c is None or c[0] != "O":
            return None
        c = c[2].get(k)
    return c


def _contains(res, leaf, side):
    if res is None:
        return False
    if leaf[0] == "L":
        n = len(leaf[1])
        res, leaf = strip(res), strip(leaf)
        return res[0] == "L" and (res[1][:n] == leaf[1] if side == 0 else (n == 0 or res[1][-n:] == leaf[1]))
    if leaf[0] == "E":
        have = {core.canon(x) for x in res[1]} if res[0] == "E" else set()
        return res[0] == "E" and all(core.canon(x) in have for x in leaf[1])
    return res == leaf


def _replaced(a, b, path):
    """with overwrite: the later operand provides a value at `path`, or replaced a whole
    (non-mergeable) value above it."""
    for i in range(1, len(path) + 1):
        q = path[:i]
        vb = at(b, q)
        if vb is None:
            return False
        if i == len(path):
            return True
        va = at(a, q)
        if not (va[0] == "O" and vb[0] == "O" and _comparable(va[1], vb[1])):
            return True
    return False


def no_drop(a, b, res, ow):
    """every provided leaf of a and b is present in res, or (only with ow) replaced by a value
    the later operand provides at that path (or at a non-mergeable position above it)."""
    bad = []
    for side, op in enumerate((a, b)):
        for path, leaf in leaves(op):
            got = at(res, path)
            if _contains(got, leaf, side):
                continue
            if ow and side == 0 and _replaced(a, b, path):
                continue
            bad.append(dict(side="ab"[side], path=list(path), leaf=leaf, got=got))
    return bad


# ----------------------------------------------------------------------------- impl
def _merge(x, y, ow):
    try:
        return ("ok", x.merge_with(y, allow_overwrite=ow))
    except ValueError as e:  # pydantic ValidationError is a ValueError too
        from pydantic import ValidationError
        if isinstance(e, ValidationError):
            return ("err", "validation")
        return ("err", "conflict")
    except TypeError:
        return ("err", "type")
    except Exception as e:  # noqa: BLE001  (anything else is reported by the oracle as merge-raised)
        return ("err", "exc:" + type(e).__name__)


def _res_line(tag, r, base):
    if r[0] == "ok":
        return "%s ok %s" % (tag, show(canon_val(r[1], base)))
    return "%s err %s" % (tag, r[1])


def _snap(o, base):
    try:
        js = o.json()
    except Exception as e:  # noqa: BLE001
        js = "json-failed:" + type(e).__name__
    return core.canon(canon_val(o, base)), js, repr(o)


def realise_canon(case):
    """Phase 1: canonical forms of the realised operands (model input)."""
    import shutil
    import tempfile
    tmp = tempfile.mkdtemp(prefix="c14_")
    try:
        try:
            fam = _family(case["family"], case)
        except Exception as e:  # noqa: BLE001  (a schema the library does not accept)
            if case["family"] != "dyn":
                raise
            return dict(unrealisable="schema %s: %s" % (type(e).__name__, str(e)[:300]))
        out = []
        if case.get("kind") == "roundtrip":
            try:
                return dict(canon=[canon_val(_inst(case["obj"], fam, "complete"), fam["base"])])
            except Exception as e:  # noqa: BLE001
                return dict(unrealisable="%s: %s" % (type(e).__name__, str(e)[:300]))
        for spec, src in zip(case["ops"], case["src"]):
            try:
                o = realise(spec, src, case["family"], tmp, fam)
            except Exception as e:  # noqa: BLE001
                return dict(unrealisable="%s: %s" % (type(e).__name__, str(e)[:300]))
            out.append(canon_val(o, fam["base"]))
        return dict(canon=out)
    finally:
        shutil.rmtree(tmp, ignore_errors=True)


def impl(case):
    import shutil
    import tempfile
    tmp = tempfile.mkdtemp(prefix="c14_")
    try:
        return _impl(case, tmp)
    finally:
        shutil.rmtree(tmp, ignore_errors=True)


def _impl(case, tmp):
    famname = case["family"]
    fam = _family(famname, case)
    base = fam["base"]
    out, oracle, tags = [], [], []
    if famname == "dyn":
        names = [r["name"] for r in case["schema"]["revs"]]
        tags.append("dyn")
        # which class the partial of every class was made from (first creation, then the stored one)
        uid = {"Leaf": 0, **{r["label"]: i + 1 for i, r in enumerate(case["schema"]["revs"])}}
        n1 = 1 + len(names)
        for i, (lab, u, _) in enumerate(dyn_gp(case["schema"])):
            P = fam["partial"][lab] if i < n1 else fam["get_partial"](fam["classes"][lab])
            out.append("gp %s" % uid.get(_LABELS.get(P.__partial_src__), "?"))
        if len(set(names)) < len(names):
            tags.append("dyn:same-name-classes")
    kind = case.get("kind", "triple")
    if kind == "roundtrip":
        # from_partial(to_partial(o)) == o for complete objects
        o = _inst(case["obj"], fam, "complete")
        P = fam["partial"][case["obj"][1]]
        before = _snap(o, base)
        try:
            p = P.to_partial(o)
            back = p.from_partial()
        except Exception as e:  # noqa: BLE001  (a complete, valid object must convert both ways)
            oracle.append(dict(kind="from-to-partial", obj=case["obj"], back="raise %s: %s" % (type(e).__name__, str(e)[:200])))
            out.append("rt err %s" % ("validation" if isinstance(e, ValueError) else "exc:" + type(e).__name__))
            return dict(out=out, oracle=oracle, tags=tags + ["roundtrip"])
        if not (back == o) or canon_val(back, base) != canon_val(o, base) or type(back) is not type(o):
            oracle.append(dict(kind="from-to-partial", obj=case["obj"], back=canon_val(back, base),
                               back_class_is_obj_class=type(back) is type(o),
                               values_equal=strip(canon_val(back, base)) == strip(canon_val(o, base))))
        if _snap(o, base) != before:
            oracle.append(dict(kind="operand-mutated", by="to_partial/from_partial"))
        out.append("rt ok %s" % show(canon_val(back, base)))
        tags.append("roundtrip")
        return dict(out=out, oracle=oracle, tags=tags)

    objs = [realise(s, src, famname, tmp, fam) for s, src in zip(case["ops"], case["src"])]
    cs = [canon_val(o, base) for o in objs]
    if cs != case["canon"]:
        raise RuntimeError("realisation is not deterministic")
    a, b, c = objs
    ca, cb, cc = cs
    snaps = [_snap(o, base) for o in objs]
    if not famname.startswith("inst:"):
        # operands converted from a complete object: converting back gives the same object
        for spec, src, p in zip(case["ops"], case["src"], objs):
            if src != "complete":
                continue
            o = _inst(spec, fam, "complete")
            try:
                back = p.from_partial()
            except Exception as e:  # noqa: BLE001
                oracle.append(dict(kind="from-to-partial", obj=spec, back="raise " + type(e).__name__))
                continue
            if not (back == o) or canon_val(back, base) != canon_val(o, base) or type(back) is not type(o):
                oracle.append(dict(kind="from-to-partial", obj=spec, back=canon_val(back, base)))
    E = type(a)()
    chain = chain_at(cs)
    if not chain:
        tags.append("non-chain")
    if any(s != "dict" for s in case["src"]):
        tags.append("src:" + "+".join(sorted(set(case["src"]))))
    for ow in (False, True):
        o = "T" if ow else "F"
        ab = _merge(a, b, ow)
        bc = _merge(b, c, ow)
        ab_c = _merge(ab[1], c, ow) if ab[0] == "ok" else ab
        a_bc = _merge(a, bc[1], ow) if bc[0] == "ok" else bc
        ea = _merge(E, a, ow)
        ae = _merge(a, E, ow)
        for tag, r in (("ab", ab), ("bc", bc), ("ab_c", ab_c), ("a_bc", a_bc), ("ea", ea), ("ae", ae)):
            out.append(_res_line(tag + o, r, base))
        # --- identity
        for nm, r in (("left", ea), ("right", ae)):
            if r[0] != "ok" or canon_val(r[1], base) != ca or not (r[1] == a):
                oracle.append(dict(kind="identity-" + nm, ow=ow, a=ca, got=(canon_val(r[1], base) if r[0] == "ok" else r[1])))
        # --- associativity (claimed under ChainAt)
        if chain:
            l = canon_val(ab_c[1], base) if ab_c[0] == "ok" else "raise"
            r = canon_val(a_bc[1], base) if a_bc[0] == "ok" else "raise"
            if strip(l) != strip(r):
                oracle.append(dict(kind="associativity", ow=ow, a=ca, b=cb, c=cc, left=l, right=r))
        # --- clause-wise demands on a+b and b+c
        for nm, x, y, r in (("ab", ca, cb, ab), ("bc", cb, cc, bc)):
            want = expect_merge(x, y, ow, top=True)
            if want[0] == "any":
                continue
            if want[0] == "err":
                if r[0] == "ok":
                    oracle.append(dict(kind="conflict-not-raised", ow=ow, x=x, y=y, got=canon_val(r[1], base)))
                elif r[1] != "conflict":
                    oracle.append(dict(kind="wrong-exception", ow=ow, x=x, y=y, got=r[1]))
                tags.append("conflict")
                continue
            if r[0] != "ok":
                oracle.append(dict(kind="merge-raised", ow=ow, x=x, y=y, err=r[1]))
                continue
            got = canon_val(r[1], base)
            bad = no_drop(x, y, got, ow)
            if bad:
                oracle.append(dict(kind="value-dropped", ow=ow, x=x, y=y, got=got, dropped=bad[:3]))
            if strip(got) != strip(want[1]):
                oracle.append(dict(kind="merge-result", ow=ow, x=x, y=y, got=got, want=want[1]))
            if ow and any(at(x, p) is not None and at(x, p) != l and l[0] not in "LE" for p, l in leaves(y)):
                tags.append("later-wins")
    # --- operands unchanged
    for nm, o, s in zip("abc", objs, snaps):
        if _snap(o, base) != s:
            oracle.append(dict(kind="operand-mutated", operand=nm, before=s[0], after=_snap(o, base)[0]))
    # --- the harvest pipeline is the left fold (allow_overwrite=False)
    if case.get("harvest") and fam.get("harvest", famname != "pl"):
        from metador_core.harvester import Harvester, harvest

        class H(Harvester):
            class Args(Harvester.Args):  # (the bare base `Args` has no usable partial)
                tag: int = 0

            def __init__(self, val):
                super().__init__()
                self._val = val

            def run(self):
                return self._val

        top = fam["top"] if famname.startswith("inst:") else fam["classes"][case["ops"][0][1]]
        try:
            hr = ("ok", harvest(top, [H(x) for x in objs], return_partial=True))
        except ValueError:
            hr = ("err", "conflict")
        except Exception as e:  # noqa: BLE001
            hr = ("err", "exc:" + type(e).__name__)
        ab = _merge(a, b, False)
        fold = _merge(ab[1], c, False) if ab[0] == "ok" else ab
        l = canon_val(hr[1], base) if hr[0] == "ok" else "raise"
        r = canon_val(fold[1], base) if fold[0] == "ok" else "raise"
        if l != r:
            oracle.append(dict(kind="harvest-not-left-fold", harvest=l, fold=r))
        tags.append("harvest")
    for v in cs:
        for p, l in leaves(v):
            if l in (["I", 0], ["B", False], ["S", ""], ["L", []], ["E", []]):
                tags.append("falsy")
            if len(p) > 1:
                tags.append("nested")
            if len(p) > 2:
                tags.append("deep")
    return dict(out=out, oracle=oracle, tags=sorted(set(tags)))


# ----------------------------------------------------------------------------- model lines
def lines(case):
    if case.get("kind") == "roundtrip":
        return ["req %s" % " ".join([c] + [f.encode().hex() for f in fs]) for c, fs in _reqs(case)] + _gp_lines(case) + ["rt " + show(case["canon"][0])]
    L = []
    for nm, cv in zip("abc", case["canon"]):
        L.append("set %s %s" % (nm, show(cv)))
    L += _gp_lines(case)
    for ow in "FT":
        for op in ("ab", "bc", "ab_c", "a_bc", "ea", "ae"):
            L.append("m %s %s" % (op, ow))
    return L


def _gp_lines(case):
    if case["family"] != "dyn":
        return []
    return ["gp %d %s" % (u, n.encode().hex()) for _, u, n in dyn_gp(case["schema"])]


def _reqs(case):
    if case["family"] == "dyn":
        return dyn_reqs(case["schema"])
    return [["Top", ["r"]], ["Top.Top2", ["r"]]]


def compare(case, ir, mo):
    if case.get("kind") == "roundtrip":
        return core.default_compare(case, dict(out=["ok"] * len(_reqs(case)) + ir["out"]), mo)
    return core.default_compare(case, dict(out=["ok"] * 3 + ir["out"]), mo)


def _spec_canon(spec):
    """canonical tree of a spec as realised with instances (class labels kept)."""
    t = spec[0]
    if t in "IBS":
        return spec
    if t == "L":
        return ["L", [_spec_canon(x) for x in spec[1]]]
    if t == "E":
        u = {akey(x): x for x in spec[1]}
        return ["E", [u[k] for k in sorted(u)]]
    return ["O", CHAINS[spec[1]], {k: _spec_canon(v) for k, v in spec[2].items()}]


CHAINS = {"Leaf": ["Leaf"], "Par": ["Par"], "Chi": ["Par", "Chi"], "Gch": ["Par", "Chi", "Gch"], "Sib": ["Par", "Sib"],
          "Top": ["Top"], "Top2": ["Top", "Top2"]}


# ----------------------------------------------------------------------------- generators
INTS = [0, 0, 1, 2, -1, 7]
STRS = ["a", "b", "ab", "x y", "0"]


def g_int(rng):
    return ["I", rng.choice(INTS)]


def g_str(rng, fam):
    return ["S", rng.choice(STRS + ([""] * 3 if fam == "pl" else []))]


def g_leaf(rng, fam):
    f = {}
    if rng.random() < 0.6:
        f["a"] = g_int(rng)
    if rng.random() < 0.5:
        f["s"] = g_str(rng, fam)
    return ["O", "Leaf", f]


def g_par(rng, fam, classes=("Par", "Chi", "Gch")):
    cls = rng.choice(classes)
    f = {}
    p = 0.45
    if rng.random() < p:
        f["x"] = g_int(rng)
    if rng.random() < p:
        f["f"] = ["B", rng.random() < 0.3]
    if rng.random() < 0.3:
        f["t"] = g_str(rng, fam)
    if rng.random() < p:
        f["xs"] = ["L", [g_int(rng) for _ in range(rng.choice([0, 1, 2]))]]
    if rng.random() < p:
        f["ss"] = ["E", _uniq([g_str(rng, fam) for _ in range(rng.choice([0, 1, 2]))])]
    if rng.random() < 0.35:
        f["m"] = g_leaf(rng, fam)
    if rng.random() < 0.25:
        f["ms"] = ["L", [g_leaf(rng, fam) for _ in range(rng.choice([0, 1, 2]))]]
    if cls in ("Chi", "Gch", "Sib"):
        if rng.random() < 0.6:
            f["y"] = g_int(rng)
    if cls in ("Chi", "Gch"):
        if rng.random() < 0.4:
            f["ys"] = ["L", [g_str(rng, fam) for _ in range(rng.choice([0, 1, 2]))]]
    if cls == "Gch" and rng.random() < 0.6:
        f["z"] = ["B", rng.random() < 0.5]
    return ["O", cls, f]


def _uniq(l):
    u = {akey(x): x for x in l}
    return [u[k] for k in sorted(u)]


def g_top(rng, fam, depth, classes, complete=False, sparse=0.4, topcls="Top"):
    f = {}
    p = sparse
    if complete or rng.random() < 0.3:
        f["r"] = g_int(rng)
    if rng.random() < p:
        f["i"] = g_int(rng)
    if rng.random() < p:
        f["b"] = ["B", rng.random() < 0.3]
    if rng.random() < p:
        f["s"] = g_str(rng, fam)
    if rng.random() < p:
        f["l"] = ["L", [g_int(rng) for _ in range(rng.choice([0, 1, 2]))]]
    if rng.random() < 0.25:
        f["ls"] = ["L", [g_str(rng, fam) for _ in range(rng.choice([0, 1, 2]))]]
    if rng.random() < p:
        f["st"] = ["E", _uniq([g_int(rng) for _ in range(rng.choice([0, 1, 2, 3]))])]
    if rng.random() < 0.25:
        f["sst"] = ["E", _uniq([g_str(rng, fam) for _ in range(rng.choice([0, 1, 2]))])]
    if rng.random() < 0.55:
        f["k"] = g_par(rng, fam, classes)
    if depth > 0 and rng.random() < 0.45:
        f["n"] = g_top(rng, fam, depth - 1, classes, complete, sparse)
    if rng.random() < 0.25:
        f["lm"] = ["L", [g_par(rng, fam, classes) for _ in range(rng.choice([0, 1, 2]))]]
    if topcls == "Top2" and rng.random() < 0.6:
        f["j"] = g_int(rng)
    return ["O", topcls, f]


def g_installed(rng, name):
    f = {}
    if name in ("core.file", "core.imagefile"):
        if rng.random() < 0.5:
            f["name"] = ["S", rng.choice(["f.txt", "g.png"])]
        if rng.random() < 0.6:
            f["contentSize"] = ["I", rng.choice([0, 0, 1, 512])]
        if rng.random() < 0.4:
            f["sha256"] = ["S", rng.choice(["ab" * 32, "cd" * 32])]
        if rng.random() < 0.4:
            f["encodingFormat"] = ["S", rng.choice(["text/plain", "image/png"])]
        if rng.random() < 0.5:
            f["keywords"] = ["E", _uniq([["S", rng.choice(["k1", "k2", "k3"])] for _ in range(rng.choice([0, 1, 2]))])]
        if rng.random() < 0.5:
            f["alternateName"] = ["L", [["S", rng.choice(["n1", "n2"])] for _ in range(rng.choice([0, 1, 2]))]]
        if rng.random() < 0.3:
            f["copyrightYear"] = ["I", rng.choice([0, 1999])]
    elif name in ("core.person",):
        for k in ("name", "givenName", "familyName", "email"):
            if rng.random() < 0.4:
                f[k] = ["S", rng.choice(["Ada", "Bob", "x@y.z"])]
        if rng.random() < 0.5:
            f["alternateName"] = ["L", [["S", rng.choice(["n1", "n2"])] for _ in range(rng.choice([0, 1, 2]))]]
        if rng.random() < 0.4:
            f["affiliation"] = ["O", "?", {"name": ["S", rng.choice(["Org1", "Org2"])]}]
    elif name == "core.org":
        for k in ("name", "description"):
            if rng.random() < 0.5:
                f[k] = ["S", rng.choice(["Org1", "Org2"])]
        if rng.random() < 0.5:
            f["alternateName"] = ["L", [["S", rng.choice(["n1", "n2"])] for _ in range(rng.choice([0, 1, 2]))]]
    elif name == "core.table":
        if rng.random() < 0.5:
            f["name"] = ["S", rng.choice(["t1", "t2"])]
        if rng.random() < 0.6:
            f["columns"] = ["L", [["O", "?", {"name": ["S", rng.choice(["c1", "c2"])], "unit": ["S", rng.choice(["m", "s"])]}] for _ in range(rng.choice([0, 1, 2]))]]
    return ["O", "?", f]


DYN_NAMES = ["Sample", "Row", "Entry"]
DYN_FNAMES = ["va", "vb", "vc", "vd", "ve", "vf", "vg", "vh"]
DYN_ATOMIC = ["int", "bool", "str", "Lint", "Lstr", "Eint", "Estr"]


def g_schema(rng):
    """A sequence of class definitions in which a name is regularly defined more than once (distinct
    classes, identical module + qualname, different field sets), also as `class X(X)`."""
    base = rng.choice(["ms", "ms", "pl", "pi"])
    how = "class" if rng.random() < 0.7 else "create_model"
    revs = []
    for i in range(rng.choice([1, 2, 2, 3, 3, 4])):
        if revs and rng.random() < 0.6:
            name = rng.choice(revs)["name"]
        else:
            name = rng.choice(DYN_NAMES)
        parent = rng.choice(revs)["label"] if revs and rng.random() < 0.3 else None
        sch = dict(revs=revs)
        inherited = {f for f, _, _, _ in dyn_fields(sch, parent)} if parent else set()
        pool = [f for f in DYN_FNAMES if f not in inherited]
        fields = []
        for f in sorted(rng.sample(pool, min(len(pool), rng.choice([1, 2, 2, 3, 4])))):
            ty = rng.choice(DYN_ATOMIC + ["int", "str", "Leaf", "LLeaf"])
            r = rng.random()
            mode = "opt" if r < 0.6 or ty in ("Leaf",) else "req" if r < 0.8 else "def" if ty in DYN_DEFAULTS else "opt"
            fields.append([f, ty, mode])
        revs.append(dict(label="%s~%d" % (name, i), name=name, parent=parent, fields=fields, touch=rng.random() < 0.7))
    # a recursive field only in the last definition of a name (a string annotation is resolved in the
    # module namespace, i.e. to whatever class carries the name when it is evaluated)
    for i, r in enumerate(revs):
        last = all(q["name"] != r["name"] for q in revs[i + 1:])
        sch = dict(revs=revs)
        if last and rng.random() < 0.4 and "nx" not in {f for f, _, _, _ in dyn_fields(sch, r["label"])} \
                and not any("nx" in {f for f, _, _ in q["fields"]} for q in revs if r["label"] in dyn_chain(sch, q["label"])):
            r["fields"].append(["nx", "self", "opt"])
    return dict(base=base, how=how, revs=revs)


def g_dyn(rng, schema, label, depth, complete=False, sparse=0.4):
    fs = "ms" if schema["base"] == "ms" else "pl"
    f = {}
    for name, ty, mode, owner in dyn_fields(schema, label):
        if not ((complete and mode == "req") or rng.random() < (sparse if mode == "opt" else max(sparse, 0.5))):
            continue
        if ty == "self":
            if depth > 0:
                f[name] = g_dyn(rng, schema, owner, depth - 1, complete, sparse)
        elif ty == "int":
            f[name] = g_int(rng)
        elif ty == "bool":
            f[name] = ["B", rng.random() < 0.3]
        elif ty == "str":
            f[name] = g_str(rng, fs)
        elif ty == "Lint":
            f[name] = ["L", [g_int(rng) for _ in range(rng.choice([0, 1, 2]))]]
        elif ty == "Lstr":
            f[name] = ["L", [g_str(rng, fs) for _ in range(rng.choice([0, 1, 2]))]]
        elif ty == "Eint":
            f[name] = ["E", _uniq([g_int(rng) for _ in range(rng.choice([0, 1, 2, 3]))])]
        elif ty == "Estr":
            f[name] = ["E", _uniq([g_str(rng, fs) for _ in range(rng.choice([0, 1, 2]))])]
        elif ty == "Leaf":
            f[name] = g_leaf(rng, fs)
        elif ty == "LLeaf":
            f[name] = ["L", [g_leaf(rng, fs) for _ in range(rng.choice([0, 1, 2]))]]
        else:
            raise ValueError(ty)
    return ["O", label, f]


def gen_dyn_cases(rng, n_schemas, per):
    cases = []
    for _ in range(n_schemas):
        schema = g_schema(rng)
        labels = [r["label"] for r in schema["revs"]]
        plan = [("roundtrip", lab) for lab in labels] + [("triple", lab) for lab in labels]
        plan += [(rng.choice(["roundtrip", "triple", "triple"]), rng.choice(labels)) for _ in range(per)]
        for kind, lab in plan:
            if kind == "roundtrip":
                cases.append(dict(kind="roundtrip", family="dyn", schema=schema,
                                  obj=g_dyn(rng, schema, lab, 2, complete=True, sparse=rng.choice([0.2, 0.5, 0.8]))))
                continue
            sparse = rng.choice([0.15, 0.3, 0.5, 0.8])
            srcs = [rng.choice(SRCS) for _ in range(3)] if rng.random() < 0.8 else ["dict"] * 3
            chain = dyn_chain(schema, lab)
            tops = [lab] * 3 if len(chain) < 2 or rng.random() < 0.75 else [rng.choice(chain) for _ in range(3)]
            if len(set(tops)) > 1:
                srcs = [rng.choice(["dict", "json", "yaml"]) for _ in range(3)]  # (see gen_cases)
            ops = [g_dyn(rng, schema, tc, 2, complete=(s_ == "complete"), sparse=sparse) for s_, tc in zip(srcs, tops)]
            cases.append(dict(kind="triple", family="dyn", schema=schema, ops=ops, src=srcs, harvest=(rng.random() < 0.3)))
    return cases


def gen_cases(ctx, scale=1.0):
    rng = ctx.rng
    cases = []
    n = int((1500 if ctx.quick else 12000) * scale)
    for i in range(n):
        fam = "pl" if rng.random() < 0.3 else "ms"
        r = rng.random()
        classes = ("Par", "Chi", "Gch") if r < 0.7 else ("Chi", "Sib") if r < 0.85 else ("Par", "Chi", "Sib")
        sparse = rng.choice([0.08, 0.15, 0.3, 0.5])
        srcs = [rng.choice(SRCS) for _ in range(3)] if rng.random() < 0.8 else ["dict"] * 3
        tops = ["Top"] * 3 if rng.random() < 0.85 else [rng.choice(["Top", "Top2"]) for _ in range(3)]
        if len(set(tops)) > 1:
            # the cast of a parent-class operand into the child partial re-parses it: nested values get the
            # declared class of their field; keep to sources where that is already the case
            srcs = [rng.choice(["dict", "json", "yaml"]) for _ in range(3)]
        ops = []
        for s, tc in zip(srcs, tops):
            ops.append(g_top(rng, fam, 2, classes, complete=(s == "complete"), sparse=sparse, topcls=tc))
        cases.append(dict(kind="triple", family=fam, ops=ops, src=srcs, harvest=(rng.random() < 0.3)))
    # small exhaustive space: 3 fields (atom, list, nested chain object) x 3 values each, all triples
    if not ctx.quick:
        import itertools as it
        vals_i = [None, ["I", 0], ["I", 1]]
        vals_l = [None, ["L", []], ["L", [["I", 0]]]]
        vals_k = [None, ["O", "Par", {"x": ["I", 0]}], ["O", "Chi", {"y": ["I", 0]}]]
        space = []
        for i_, l_, k_ in it.product(vals_i, vals_l, vals_k):
            f = {}
            if i_:
                f["i"] = i_
            if l_:
                f["l"] = l_
            if k_:
                f["k"] = k_
            space.append(["O", "Top", f])
        for tr in it.product(space, repeat=3):
            cases.append(dict(kind="triple", family="ms", ops=list(tr), src=["obj"] * 3))
        ctx.exhaustive_spaces.append("all 27^3 triples of partials over fields (i: int, l: list, k: Par|Chi) with 3 values per field incl. 0/[]/absent")
    # installed schemas
    ni = int((300 if ctx.quick else 3000) * scale)
    for i in range(ni):
        name = rng.choice(sorted(INSTALLED))
        srcs = [rng.choice(["dict", "json", "yaml", "ctor"]) for _ in range(3)]
        cases.append(dict(kind="triple", family="inst:" + name, ops=[g_installed(rng, name) for _ in range(3)], src=srcs,
                          harvest=(rng.random() < 0.3)))
    # round trips of complete objects
    nr = int((300 if ctx.quick else 3000) * scale)
    for i in range(nr):
        fam = "pl" if rng.random() < 0.3 else "ms"
        cases.append(dict(kind="roundtrip", family=fam, obj=g_top(rng, fam, 2, ("Par", "Chi", "Gch", "Sib"), complete=True, sparse=0.5)))
    # schema families that are part of the case (names defined more than once, see g_schema)
    cases += gen_dyn_cases(rng, int((60 if ctx.quick else 600) * scale), 6)
    return cases


def phase1(ctx, cases):
    """Realise every operand once to obtain the model input; drops unrealisable cases (counted)."""
    from .. import pool
    tri = list(cases)
    res = pool.run(MOD, "realise_canon", tri, timeout=60)
    keep = []
    for c, r in zip(tri, res):
        if "ok" not in r:
            raise lean.InfraError("phase 1 failed: %s" % (r,))
        if "canon" in r["ok"]:
            c["canon"] = r["ok"]["canon"]
            keep.append(c)
        else:
            ctx.dist["unrealisable:" + c["family"]] += 1
            if len(ctx.notes) < 5:
                ctx.notes.append("unrealisable %s %s: %s" % (c["family"], c.get("src"), r["ok"]["unrealisable"][:200]))
    return keep


def run(ctx):
    ctx.rule = ("cases: triples of partial instances of generated schema families (MetadataSchema-based `ms`, plain pydantic `pl` for the empty "
                "string; optional int/bool/str, lists, sets, nested Leaf, recursive Top, Par<Chi<Gch / Sib at one nested position) and of installed "
                "schemas (core.file, core.imagefile, core.person, core.org, core.table), each operand realised through a randomly chosen source "
                "(dict, instances, JSON, YAML via metadata_loader, constructor, construct, to_partial(complete)); plus round trips of complete objects. "
                "Dynamic families: the class definitions are part of the case (1-4 definitions by class statement or create_model over MetadataSchema / "
                "plain pydantic with extra allow|ignore; a name is regularly defined several times = distinct class objects with identical module and "
                "qualname and different field sets, also `class X(X)`; partial of a definition created before or after the next definition), triples and "
                "round trips on every definition, and the source class of every partial class (get_partial) compared with the factory model. "
                "Non-trivial = tagged: falsy leaf present, nested/deep leaf, conflict, later-wins, non-dict source, harvest fold.")
    ctx.trusted.append("harness/translate_c14.py (Python ast -> Lean) + value dictionary Py/PartialPy.lean for PartialModel._update_field and "
                       "PartialModel.merge_with; bridge theorems Bridge/PartialMerge.lean re-checked on every run")
    ctx.assumptions += [
        "model classes are single-inheritance chains of names; issubclass on partial classes = prefix test on the chains of their source classes",
        "pydantic re-validation in the cast-down branch (`to_partial` of a parent-class value into the child partial) is the identity on field values (no child narrows a parent field type in the generated families); the ValidationError fall-through of `_update_field` is not modelled",
        "set elements are atoms (sets of models cannot be serialised by pydantic v1 `.dict()`)",
        "dynamic families: class objects are told apart by labels `<name>~<k>` (the model's class chains are chains of these labels); a model class nested in "
        "another one carries a name that is defined only once, or is the class itself (nested references are resolved by NAME in `_forwardrefs`, see "
        "`forwardref_by_name_is_ambiguous`)",
        "shape clashes (list vs. non-list at one field) are outside validated partials and are not generated",
    ]
    cases = core.load_corpus(ID) + gen_cases(ctx)
    cases = phase1(ctx, cases)
    if len([c for c in cases if c.get("kind", "triple") == "triple"]) < 50:
        raise lean.InfraError("too few realisable cases")
    ctx.correspond("partial-merge", MOD, cases, lines, "drv_par", compare=compare, timeout=120)


def signature(case, detail):
    return "%s:%s" % (ID, detail.get("kind") if isinstance(detail, dict) else str(detail)[:40])


# ----------------------------------------------------------------------------- shrinking
def _shrinks(spec):
    """smaller variants of a spec (drop a field, shorten a list, shrink a nested value)."""
    if spec[0] == "O":
        for k in sorted(spec[2]):
            f = dict(spec[2])
            del f[k]
            yield ["O", spec[1], f]
        for k in sorted(spec[2]):
            for s in _shrinks(spec[2][k]):
                f = dict(spec[2])
                f[k] = s
                yield ["O", spec[1], f]
        if spec[1] in ("Chi", "Gch", "Sib") and not (set(spec[2]) & {"y", "ys", "z"}):
            yield ["O", "Par", spec[2]]
    elif spec[0] in "LE":
        for i in range(len(spec[1])):
            yield [spec[0], spec[1][:i] + spec[1][i + 1:]]


_shrunk = {}


def shrink(ctx, case, detail):
    """structural shrinking, re-checking the oracle on the real code; one shrink per violation kind."""
    want = detail.get("kind") if isinstance(detail, dict) else None
    if want not in _shrunk:
        _shrunk[want] = _shrink(ctx, case, detail)
    return _shrunk[want]


def _labels_used(spec, acc):
    if spec[0] == "O":
        acc.add(spec[1])
        for v in spec[2].values():
            _labels_used(v, acc)
    elif spec[0] in "LE":
        for v in spec[1]:
            _labels_used(v, acc)
    return acc


def _strip_field(spec, schema, rev, fname):
    """spec without the field `fname` in every object whose class is `rev` or inherits from it."""
    if spec[0] == "O":
        f = {k: _strip_field(v, schema, rev, fname) for k, v in spec[2].items()
             if not (k == fname and rev in dyn_chain(schema, spec[1]))} if spec[1] != "Leaf" else spec[2]
        return ["O", spec[1], f]
    if spec[0] == "L":
        return ["L", [_strip_field(v, schema, rev, fname) for v in spec[1]]]
    return spec


def _specs(case):
    return case["ops"] if case.get("kind", "triple") == "triple" else [case["obj"]]


def _with_specs(case, specs, **kw):
    if case.get("kind", "triple") == "triple":
        return dict(case, ops=specs, **kw)
    return dict(case, obj=specs[0], **kw)


def _schema_shrinks(case):
    """smaller schema descriptions of a dynamic family (with the value specs adapted)."""
    schema = case["schema"]
    revs = schema["revs"]
    used = set()
    for sp in _specs(case):
        _labels_used(sp, used)
    for i, r in enumerate(revs):  # drop a class definition nothing refers to
        if r["label"] in used or any(q["parent"] == r["label"] for q in revs):
            continue
        yield dict(case, schema=dict(schema, revs=revs[:i] + revs[i + 1:]))
    for i, r in enumerate(revs):  # cut an inheritance link (the class keeps its own fields)
        if r["parent"] is not None:
            inh = [f for f, _, _, o in dyn_fields(schema, r["label"]) if o != r["label"]]
            specs = _specs(case)
            for f in inh:
                specs = [_strip_field(sp, schema, r["label"], f) for sp in specs]
            yield _with_specs(dict(case, schema=dict(schema, revs=revs[:i] + [dict(r, parent=None)] + revs[i + 1:])), specs)
    for i, r in enumerate(revs):  # drop a field
        for k, (f, _, _) in enumerate(r["fields"]):
            r2 = dict(r, fields=r["fields"][:k] + r["fields"][k + 1:])
            specs = [_strip_field(sp, schema, r["label"], f) for sp in _specs(case)]
            yield _with_specs(dict(case, schema=dict(schema, revs=revs[:i] + [r2] + revs[i + 1:])), specs)
    for i, r in enumerate(revs):  # simplest way of definition
        if not r.get("touch", True):
            yield dict(case, schema=dict(schema, revs=revs[:i] + [dict(r, touch=True)] + revs[i + 1:]))
    if schema["how"] != "class":
        yield dict(case, schema=dict(schema, how="class"))
    for i, r in enumerate(revs):  # required / defaulted field -> optional
        for k, (f, ty, mode) in enumerate(r["fields"]):
            if mode != "opt":
                r2 = dict(r, fields=r["fields"][:k] + [[f, ty, "opt"]] + r["fields"][k + 1:])
                yield dict(case, schema=dict(schema, revs=revs[:i] + [r2] + revs[i + 1:]))


def _shrink(ctx, case, detail):
    from .. import pool
    want = detail.get("kind") if isinstance(detail, dict) else None
    triple = case.get("kind", "triple") == "triple"

    def fails(c):
        c = {k: v for k, v in c.items() if k != "canon"}
        r = pool.run_one(MOD, "realise_canon", c, timeout=60)
        if "ok" not in r or "canon" not in r["ok"]:
            return None
        c["canon"] = r["ok"]["canon"]
        r = pool.run_one(MOD, "impl", c, timeout=60)
        if "ok" not in r:
            return None
        ds = [d for d in r["ok"]["oracle"] if d.get("kind") == want and d.get("values_equal") == detail.get("values_equal")]
        return (c, ds[0]) if ds else None

    def candidates(cur):
        if cur["family"] == "dyn":
            yield from _schema_shrinks(cur)
        specs = _specs(cur)
        for i in range(len(specs)):
            for s in _shrinks(specs[i]):
                yield _with_specs(cur, specs[:i] + [s] + specs[i + 1:], **(dict(harvest=False) if triple else {}))

    cur, det = case, detail
    budget = 160
    # simpler sources first
    for i in range(3 if triple else 0):
        if cur["src"][i] != "dict":
            c = dict(cur, src=cur["src"][:i] + ["dict"] + cur["src"][i + 1:])
            budget -= 1
            r = fails(c)
            if r:
                cur, det = r
    progress = True
    while progress and budget > 0:
        progress = False
        for c in candidates(cur):
            if budget <= 0:
                break
            budget -= 1
            r = fails(c)
            if r:
                cur, det = r
                progress = True
                break
    return cur, det


def search(ctx):
    from .. import pool
    for s in range(1, 4):
        sub = core.Ctx(ID, "quick", ctx.seed + 7919 * s)
        cases = phase1(sub, gen_cases(sub, scale=1.0))
        res = pool.run(MOD, "impl", cases, timeout=120)
        ctx.search_log.append("seed %d: %d cases, oracle only" % (sub.seed, len(cases)))
        for c, r in zip(cases, res):
            if "ok" in r and r["ok"]["oracle"]:
                return shrink(ctx, c, r["ok"]["oracle"][0])
    return None


def replay(ctx, rep):
    from .. import pool
    case = rep.get("case")
    if not case:
        print(core.canon(rep)[:2000])
        return 0
    r = pool.run_one(MOD, "realise_canon", case, timeout=60)
    case = dict(case, canon=r["ok"]["canon"])
    r = pool.run_one(MOD, "impl", case, timeout=120)
    print("implementation:", core.canon(r)[:4000])
    print("model:", lean.run_driver("drv_par", [lines(case)]))
    return 1 if ("ok" in r and r["ok"]["oracle"]) else 0
