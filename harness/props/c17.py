"""C17 — Embedded file bytes and their file metadata are exact.

Lean: Model/Bytes.lean, Proofs/Bytes.lean, Props/C17.lean; driver `drv_byt`;
Gen/BytesFns.lean (translated from /repo on every run by harness/translate_c17.py, value
dictionary Model/BytesPy.lean) + Bridge/BytesFns.lean.

Real side: `pack_file` through `MetadorContainer` over both drivers (`h5py.File`, `IH5Record`)
on boundary byte strings, followed by container histories that keep the nodes (IH5 patch
boundaries, close/reopen read-only and writable, copy and move of datasets and groups,
`merge_files`, packing further files, deleting datasets and groups, embedding another file at a
path that held a file earlier in the same session (deleted, moved away or discarded with its
patch), discarding an open IH5 patch and doing it again differently, copy/move onto such freed
paths; "layered" histories: nested groups filled over several containers and touched again in
the open patch, then copied / moved at every depth, also several times and back, see
`gen_layered`). Reads are either done at every node after every step or (sparse histories) only by
explicit `read` steps, at reopen and at the end, so that both "read before" and "never read
before" orders occur.

Oracle (needs no model): after every step, at every node that holds an embedded file, on both
drivers: bytes of `node[()]` == source bytes, `core.file` `contentSize == len(bytes)` and
`sha256 == hashlib.sha256(bytes)`, the set of datasets is the expected one; the content
`b"\\x7f"` (IH5 deletion marker once wrapped) raises on IH5 and leaves nothing behind, and is
stored and read back unaltered on plain HDF5; every other content is accepted.

Correspondence: `_h5_wrap_bytes`, `_is_del_mark`, the HDF5 round trip of void/str/fixed values,
the read-loop chunking and `pack_file` + read (both drivers) vs. the Lean model.
"""
import hashlib

from .. import core, lean

ID = "C17"
MOD = "harness.props.c17"
T = "MetadorModel.C17."
B = "MetadorModel.Bridge.BytesFns."
LEAN = dict(
    modules=["MetadorModel.Props.C17", "MetadorModel.Bridge.BytesFnsWrap", "MetadorModel.Bridge.BytesFnsDel",
             "MetadorModel.Bridge.BytesFnsHash", "MetadorModel.Bridge.BytesFns"],
    theorems=[T + n for n in [
        "unwrap_wrap", "wrap_injective", "store_wrap", "store_roundtrip", "naive_wrapping_not_exact",
        "chunks_flatten", "chunks_bounded", "chunks_zero", "chunked_digest", "file_meta_exact",
        "del_marker_iff", "isDelMark_wrap_iff", "isDelMark_iff", "del_marker_rejected", "guard_passes",
        "pack_read_exact", "drivers_agree", "plain_h5_keeps_marker"]]
    # translated tie (Gen/BytesFns.lean is regenerated from the source on every run, see translate_c17.py)
    + [B + n for n in [
        "gen_h5_wrap_bytes", "gen_del_value", "gen_is_del_mark", "gen_node_is_del_mark", "gen_guard_value",
        "gen_def_hash_alg", "gen_hash_alg", "gen_hashsum_loop", "gen_hashsum", "gen_qualified_hashsum",
        "gen_file_hashsum", "gen_guard_wrap_iff", "gen_hashsum_oneShot"]],
    drivers=["drv_byt"],
)


def translate(ctx):
    """regenerate Gen/BytesFns.lean from the current source (`_h5_wrap_bytes`, `_is_del_mark`,
    `_node_is_del_mark`, `_guard_value`, `hashsum`, `qualified_hashsum`, `file_hashsum`)"""
    from .. import translate_c17
    try:
        return translate_c17.write(lean)
    except translate_c17.PartlyTranslated:
        raise  # the functions that were understood are written; only the bridge modules of the others fail
    except Exception as e:  # noqa: BLE001
        # leave no text of an earlier run (possibly of another tree) behind: the bridge modules then fail to
        # build for this reason and not for a stale one
        translate_c17.write_stub(lean, "%s: %s" % (type(e).__name__, e))
        raise


def hx(b):
    if isinstance(b, str):
        b = b.encode()
    return bytes(b).hex() or "-"


# ----------------------------------------------------------------------------- real code
def _render(v):
    import h5py
    import numpy as np

    if isinstance(v, np.void):
        return "void " + hx(v.tobytes())
    if isinstance(v, h5py.Empty):
        return "empty"
    if isinstance(v, np.bytes_):
        return "fixed " + hx(bytes(v))
    if isinstance(v, bytes):
        return "str " + hx(v)
    return "other " + type(v).__name__


def _unwrap(v):
    """how consumers get bytes out of `node[()]` (widget/server code: `.tolist()` of np.void);
    None when the value is no byte string at all"""
    import h5py
    import numpy as np

    if isinstance(v, np.void):
        r = v.tolist()
        return r if isinstance(r, bytes) else None
    if isinstance(v, h5py.Empty):
        return b""
    if isinstance(v, (bytes, np.bytes_)):
        return bytes(v)
    return None


def _mkval(kind, bs):
    import h5py
    import numpy as np

    return dict(void=lambda: np.void(bs), empty=lambda: h5py.Empty("b"), str=lambda: bs, fixed=lambda: np.bytes_(bs))[kind]()


def _exc(e):
    return "err " + type(e).__name__


def _prefixes(p):
    parts = p.split("/")
    return ["/".join(parts[:i]) for i in range(1, len(parts))]


def _below(a, p):
    return p == a or p.startswith(a + "/")


class _Tree:
    """expected layout of one container: datasets (path -> content) and groups (also empty ones).
    Used by the generator (content = file index) and by the real-code runner (content = bytes).
    `born[p]` = number of the container generation (IH5: base container / patch) in which the node at p
    was written; `now` = the generation that is being written (diagnostic + generator bias only)."""

    def __init__(self, ds=None, grps=None, born=None, now=0):
        self.ds, self.grps, self.born, self.now = dict(ds or {}), set(grps or ()), dict(born or {}), now

    def clone(self):
        return _Tree(self.ds, self.grps, self.born, self.now)

    def commit(self, flatten=False):
        """a container boundary (flatten: merge_files puts everything into one new base container)"""
        self.now += 1
        if flatten:
            self.born = {p: self.now for p in self.born}
            self.now += 1

    def spans(self, a):
        """generations the embedded files at / below a were written in"""
        return {self.born.get(p, 0) for p in self.under(a)}

    def occupied(self, p):
        """creating a node at p is not possible (p exists, or a parent of p is a dataset)"""
        return p in self.ds or p in self.grps or any(q in self.ds for q in _prefixes(p))

    def under(self, a):
        return {p: v for p, v in self.ds.items() if _below(a, p)}

    def put(self, p, v):
        self.ds[p] = v
        self.born[p] = self.now
        self.grps.update(_prefixes(p))

    def copy(self, a, b):
        for p, v in self.under(a).items():
            self.put(b + p[len(a):], v)
        for g in [g for g in self.grps if _below(a, g)]:
            self.grps.add(b + g[len(a):])
        self.grps.update(_prefixes(b))

    def remove(self, a):
        for p in self.under(a):
            del self.ds[p]
            self.born.pop(p, None)
        self.grps -= {g for g in self.grps if _below(a, g)}

    def move(self, a, b):
        self.copy(a, b)
        # what was below a is gone, what was copied to b stays (b is never below a)
        self.ds = {p: v for p, v in self.ds.items() if not _below(a, p)}
        self.born = {p: v for p, v in self.born.items() if p in self.ds}
        self.grps = {g for g in self.grps if not _below(a, g)}


class _Side:
    """one container (one driver) + what it is expected to hold"""

    def __init__(self, drv, top):
        self.drv, self.top, self.gen = drv, top, 0
        self.tree = _Tree()  # .ds: dataset path -> bytes
        self.snap = None     # expectation at the last commit (IH5 patch boundary); None = nothing committed yet
        self.name = "c-%s" % drv
        self.mc = self._open("w")

    @property
    def expect(self):
        return self.tree.ds

    def committed(self, flatten=False):
        """the state now is what `discard` returns to. IH5: the caller has just committed a patch
        (flatten: and merged all containers into one); plain HDF5 has no patches: keep a copy of the
        flushed file."""
        import shutil

        self.tree.commit(flatten)
        self.snap = self.tree.clone()
        if self.drv == "h5":
            self.mc.flush()
            shutil.copyfile(self._path() + ".h5", self._path() + ".snap")

    def discard(self):
        """IH5: throw away the open patch and start a new one in the same session (same record
        object); the container wrapper is built again over the record, its index of metadata
        objects describes the discarded state. Plain HDF5: go back to the copy."""
        import shutil

        from metador_core.container import MetadorContainer

        if self.drv == "ih5":
            rec = self.mc.__wrapped__
            rec.discard_patch()
            rec.create_patch()
            self.mc = MetadorContainer(rec)
        else:
            self.mc.close()
            shutil.copyfile(self._path() + ".snap", self._path() + ".h5")
            self.mc = self._open("r+")
        self.tree = self.snap.clone()

    def _path(self):
        import os
        return os.path.join(self.top, self.name)

    def _open(self, mode):
        import h5py
        from metador_core.container import MetadorContainer
        from metador_core.ih5.container import IH5Record

        raw = h5py.File(self._path() + ".h5", mode) if self.drv == "h5" else IH5Record(self._path(), mode)
        return MetadorContainer(raw)

    def datasets(self):
        from metador_core.container import MetadorDataset

        found = {}

        def walk(g, pre):
            for k in g.keys():
                n = g[k]
                if isinstance(n, MetadorDataset):
                    found[pre + k] = n
                else:
                    walk(n, pre + k + "/")
        walk(self.mc, "")
        return found

    def check(self, step, oracle):
        found = self.datasets()
        if set(found) != set(self.expect):
            oracle.append(dict(kind="dataset-set-differs", driver=self.drv, step=step,
                               unexpected=sorted(set(found) - set(self.expect))[:3], missing=sorted(set(self.expect) - set(found))[:3]))
        for p, bs in self.expect.items():
            if p in found:
                self.check_node(step, oracle, p, found[p], bs)

    def check_node(self, step, oracle, p, n, bs):
        """one embedded file, read fully: bytes and file metadata against the source bytes"""
        try:
            got = _unwrap(n[()])
            m = n.meta.get("core.file")
        except Exception as e:  # noqa: BLE001
            oracle.append(dict(kind="read-fails", driver=self.drv, step=step, path=p, exc=type(e).__name__, content=bs.hex()))
            return
        if got != bs:
            oracle.append(dict(kind="bytes-differ", driver=self.drv, step=step, path=p, content=bs.hex(),
                               got=got.hex() if isinstance(got, bytes) else "not a byte string"))
        if m is None:
            oracle.append(dict(kind="file-metadata-missing", driver=self.drv, step=step, path=p, content=bs.hex()))
            return
        if m.contentSize != len(bs):
            oracle.append(dict(kind="contentSize-differs", driver=self.drv, step=step, path=p, content=bs.hex(), got=int(m.contentSize)))
        if str(m.sha256).lower() != hashlib.sha256(bs).hexdigest():
            oracle.append(dict(kind="sha256-differs", driver=self.drv, step=step, path=p, content=bs.hex(), got=str(m.sha256)))

    def close(self):
        try:
            self.mc.close()
        except Exception:  # noqa: BLE001
            pass


def _pack(side, src, target, bs, oracle, step, out=None):
    """pack_file on one side; maintains the expectation; returns outcome string"""
    from metador_core.packer.utils import pack_file

    exists = side.tree.occupied(target)
    try:
        pack_file(side.mc, src, target=target)
        res = "ok"
    except Exception as e:  # noqa: BLE001
        res = _exc(e)
    marker = bs == b"\x7f" and side.drv == "ih5"
    if exists:
        if res == "ok":
            oracle.append(dict(kind="existing-target-overwritten", driver=side.drv, step=step, path=target))
    elif marker:
        if res == "ok":
            oracle.append(dict(kind="deletion-marker-stored-silently", driver=side.drv, step=step, path=target, content=bs.hex()))
            side.tree.put(target, bs)
        else:
            # whether the refused call left parent groups behind is not the property's business
            side.tree.grps.update(g for g in _prefixes(target) if g in side.mc)
    else:
        if res != "ok":
            oracle.append(dict(kind="valid-content-rejected", driver=side.drv, step=step, path=target, content=bs.hex(), exc=res))
        else:
            side.tree.put(target, bs)
    return res


def impl(case):
    import os
    import shutil
    import tempfile

    out, oracle, tags = [], [], set()
    top = tempfile.mkdtemp(prefix="vtc17-")
    try:
        if case["kind"] == "bytes":
            return _impl_bytes(case, top)
        files = [bytes.fromhex(h) for h in case["files"]]
        sides = [_Side("h5", top), _Side("ih5", top)]
        src = os.path.join(top, "src file.bin")
        link = os.path.join(top, "src-link")
        os.symlink("src file.bin", link)
        sparse = bool(case.get("sparse"))  # read only at `read` steps, at reopen and at the end
        seen, prev = set(), {}             # paths that held an embedded file at some time / its last content there
        if sparse:
            tags.add("sparse-reads")
        try:
            for step, op in enumerate(case["ops"]):
                try:
                    k = op[0]
                    if k == "pack":
                        bs = files[op[1]]
                        with open(src, "wb") as f:
                            f.write(bs)
                        for s in sides:
                            if _pack(s, link if op[3] else src, op[2], bs, oracle, step) != "ok":
                                continue
                            if op[2] in seen:
                                tags.add("path-reused")
                                if prev.get((s.drv, op[2])) not in (None, bs):
                                    tags.add("path-reused-other-content")
                            prev[(s.drv, op[2])] = bs
                        if any((s.drv, op[2]) in prev for s in sides):
                            seen.add(op[2])
                        n = len(bs)
                        tags.add("len=%s" % (n if n in (0, 1) else "63-65" if 63 <= n <= 65 else "127-129" if 127 <= n <= 129 else "4095-4097" if 4095 <= n <= 4097 else "other"))
                        if bs.endswith(b"\0"):
                            tags.add("trailing-nul")
                        if bs == b"\x7f":
                            tags.add("marker")
                        elif b"\x7f" in bs[:2]:
                            tags.add("marker-like")
                        if op[3]:
                            tags.add("source-via-symlink")
                    elif k == "boundary":
                        for s in sides:
                            if s.drv == "ih5":
                                s.mc.__wrapped__.commit_patch()
                                s.mc.__wrapped__.create_patch()
                            s.committed()
                        tags.add("patch-boundary")
                    elif k == "discard":
                        # only a patch can be discarded, not the base container of a fresh record
                        if all(s.snap is not None for s in sides):
                            for s in sides:
                                dropped = set(s.expect) - set(s.snap.ds)
                                s.discard()
                                if dropped:
                                    tags.add("discard-embedded")
                            tags.add("discard-patch")
                    elif k == "reopen":
                        for s in sides:
                            s.mc.close()
                            s.mc = s._open("r")
                            s.check("%d:read-only" % step, oracle)
                            s.mc.close()
                            s.mc = s._open("r+")
                            s.committed()
                        tags.add("reopen")
                    elif k == "merge":
                        for s in sides:
                            if s.drv == "ih5":
                                rec = s.mc.__wrapped__
                                rec.commit_patch()
                                s.gen += 1
                                newname = "m%d-ih5" % s.gen
                                rec.merge_files(os.path.join(top, newname))
                                s.mc.close()
                                s.name = newname
                                s.mc = s._open("r+")
                            s.committed(flatten=True)
                        tags.add("merge")
                    elif k in ("copy", "move"):
                        a, b = op[1], op[2]
                        for s in sides:
                            moved = s.tree.under(a)
                            if not moved and a not in s.mc:
                                continue  # node absent on this side (marker file on IH5)
                            if s.tree.occupied(b) or _below(a, b):
                                continue  # not a valid step on this side (can only happen in a reduced history)
                            try:
                                getattr(s.mc, k)(a, b)
                            except Exception as e:  # noqa: BLE001
                                oracle.append(dict(kind="history-step-fails", driver=s.drv, step=step, op=op, exc=type(e).__name__, msg=str(e)[:100]))
                                continue
                            if op[3] and moved:
                                sp = s.tree.spans(a)
                                tags.add("%s-group-depth=%d" % (k, min(a.count("/") + 1, 3)))
                                if any("/" in p[len(a) + 1:] for p in moved):
                                    tags.add(k + "-group-with-subgroups")
                                if len(sp) >= 2:
                                    tags.add(k + "-group-files-of-several-containers")
                                    if s.tree.now in sp:
                                        tags.add(k + "-group-files-of-older-containers-and-open-patch")
                            getattr(s.tree, k)(a, b)
                            if moved and b in seen:
                                tags.add("path-reused")
                            seen.update(b + p[len(a):] for p in moved)
                        tags.add(k + ("-group" if op[3] else "-dataset"))
                    elif k == "del":
                        for s in sides:
                            gone = s.tree.under(op[1])
                            if not gone and op[1] not in s.mc:
                                continue
                            try:
                                del s.mc[op[1]]
                            except Exception as e:  # noqa: BLE001
                                oracle.append(dict(kind="history-step-fails", driver=s.drv, step=step, op=op, exc=type(e).__name__, msg=str(e)[:100]))
                                continue
                            s.tree.remove(op[1])
                            tags.add("delete-dataset" if op[1] in gone else "delete-group")
                    elif k == "read":
                        # read one embedded file fully (the only reads of a sparse history besides reopen / end)
                        for s in sides:
                            if op[1] in s.expect:
                                try:
                                    n = s.mc[op[1]]
                                except Exception as e:  # noqa: BLE001 - the embedded file is not there
                                    oracle.append(dict(kind="read-fails", driver=s.drv, step=step, path=op[1], exc=type(e).__name__,
                                                       content=s.expect[op[1]].hex()))
                                    continue
                                s.check_node(step, oracle, op[1], n, s.expect[op[1]])
                        tags.add("read-one")
                    else:
                        raise ValueError("unknown step %r" % (op,))
                    if not sparse or step == len(case["ops"]) - 1:
                        for s in sides:
                            s.check(step, oracle)
                    common = set(sides[0].expect) & set(sides[1].expect)
                    if len(common) >= 2:
                        tags.add("several-files")
                except Exception as e:  # noqa: BLE001 - a step of a valid history must not fail
                    oracle.append(dict(kind="history-step-fails", step=step, op=op, exc=type(e).__name__, msg=str(e)[:100]))
                    break
        finally:
            for s in sides:
                s.close()
        return dict(out=None, oracle=oracle, tags=sorted(tags))
    finally:
        shutil.rmtree(top, ignore_errors=True)


def _impl_bytes(case, top):
    import os

    import h5py
    from metador_core.ih5 import overlay
    from metador_core.ih5.container import IH5Record
    from metador_core.packer import utils as pu
    from metador_core.util import hashsums as hs

    out, oracle, tags = [], [], set()
    full = case.get("full", True)
    raw_h5 = h5py.File(os.path.join(top, "raw.h5"), "w")
    raw_ih5 = IH5Record(os.path.join(top, "raw-ih5"), "w")
    sides = [_Side("h5", top), _Side("ih5", top)] if full else []
    src = os.path.join(top, "src.bin")
    try:
        for i, h in enumerate(case["data"]):
            bs = bytes.fromhex(h)
            w = pu._h5_wrap_bytes(bs)
            out.append(_render(w))
            out.append("T" if overlay._is_del_mark(w) else "F")
            # HDF5 round trip of the wrapped value, through both raw drivers
            res = []
            if i % 32 == 31:
                # IH5 group operations are linear in the number of children: start a fresh record
                raw_ih5.close()
                raw_ih5 = IH5Record(os.path.join(top, "raw-ih5-%d" % i), "w")
            for raw in (raw_h5, raw_ih5):
                try:
                    raw.create_dataset("r%d" % i, data=w)
                    back = raw["r%d" % i][()]
                    res.append("ok " + _render(back))
                    if _unwrap(back) != bs:
                        oracle.append(dict(kind="bytes-differ", driver="raw", content=h, got=_render(back)))
                except Exception as e:  # noqa: BLE001
                    res.append(_exc(e))
                    if "r%d" % i in raw:
                        oracle.append(dict(kind="rejected-but-stored", content=h))
            out.append(res[0])
            if bs == b"\x7f":
                if res[1] != "err ValueError":
                    oracle.append(dict(kind="deletion-marker-stored-silently", driver="ih5-raw", content=h, got=res[1]))
                tags.add("marker")
            elif res[1] != res[0]:
                oracle.append(dict(kind="drivers-differ", content=h, h5=res[0], ih5=res[1]))
            # the two naive encodings, to keep the HDF5 model honest (diagnostic for the model only)
            for kind in ("str", "fixed"):
                try:
                    raw_h5.create_dataset("n%s%d" % (kind, i), data=_mkval(kind, bs))
                    out.append("ok " + _render(raw_h5["n%s%d" % (kind, i)][()]))
                except Exception as e:  # noqa: BLE001
                    out.append(_exc(e))
            # read loop
            rec = _Rec(bs)
            dg = hs.hashsum(rec, "sha256")
            out.append(" ".join(["c"] + [str(n) for n in rec.log if n]))
            if dg != hashlib.sha256(bs).hexdigest():
                oracle.append(dict(kind="sha256-differs", driver="hashsum", content=h, got=dg))
            if full:
                with open(src, "wb") as f:
                    f.write(bs)
                for s in sides:
                    t = "d/f%d" % i
                    out.append(_pack(s, src, t, bs, oracle, i))
                    try:
                        if t in s.expect:
                            n = s.mc[t]
                            m = n.meta.get("core.file")
                            got = _unwrap(n[()])
                            got = hx(got) if got is not None else "?"
                            out.append("some %s %d %s" % (got, m.contentSize, m.sha256) if m else "some %s nometa" % got)
                        else:
                            out.append("some ?" if t in s.mc else "none")
                    except Exception as e:  # noqa: BLE001
                        out.append(_exc(e))
                if i % 16 == 15 or i == len(case["data"]) - 1:
                    for s in sides:
                        s.check(i, oracle)
            n = len(bs)
            tags.add("len=%s" % (n if n in (0, 1, 2) else "63-65" if 63 <= n <= 65 else "127-129" if 127 <= n <= 129 else "4095-4097" if 4095 <= n <= 4097 else "other"))
            if bs.endswith(b"\0"):
                tags.add("trailing-nul")
            if bs[:1] == b"\x7f" and bs != b"\x7f":
                tags.add("marker-like")
    finally:
        for s in sides:
            s.close()
        raw_h5.close()
        raw_ih5.close()
    return dict(out=out, oracle=oracle, tags=sorted(tags))


class _Rec:
    def __init__(self, data):
        self.data, self.pos, self.log = data, 0, []

    def read(self, n=-1):
        if n is None or n < 0:
            n = len(self.data) - self.pos
        c = self.data[self.pos:self.pos + n]
        self.pos += len(c)
        self.log.append(len(c))
        return c


# ----------------------------------------------------------------------------- model lines
def lines(case):
    if case["kind"] != "bytes":
        return []
    L = []
    full = case.get("full", True)
    for i, h in enumerate(case["data"]):
        bs = bytes.fromhex(h)
        hh = h or "-"
        L.append("wrap " + hh)
        L.append("isdel %s %s" % (("void", hh) if bs else ("empty", "-")))
        L.append("rt %s %s" % (("void", hh) if bs else ("empty", "-")))
        L.append("rt str " + hh)
        L.append("rt fixed " + hh)
        L.append("chunks 64 " + hh)
        if full:
            dg = hashlib.sha256(bs).hexdigest()
            p = hx("d/f%d" % i)
            L += ["pack h5 %s %s %s" % (p, hh, dg), "read " + p]
            # the model keeps one store per case: use a second path for the IH5 side
            q = hx("i/f%d" % i)
            L += ["pack ih5 %s %s %s" % (q, hh, dg), "read " + q]
    return L


# ----------------------------------------------------------------------------- generators
def catalogue(rng):
    """boundary byte strings named by the property"""
    C = [b"", b"\0", b"a", b"\x7f", b"\x7f\0", b"\0\x7f", b"\x7f\x7f", b"\x80", b"\xff", b"\xff\xfe\x00\x00",
         bytes(range(256)), bytes(range(255, -1, -1)), b"\0" * 64, b"a" + b"\0" * 7, b"\0\0\0a", b"a\0b\0\0",
         b"line\r\nline\rline\n", b"\r\n", b"\x1a", b"\x89PNG\r\n\x1a\n" + b"\0" * 5, "ünïcödé ☃".encode(), b"\xc3\x28", b" \t\n", b"%PDF-1.4\n"]
    for n in (63, 64, 65, 127, 128, 129, 4095, 4096, 4097):
        C.append(bytes(rng.randrange(256) for _ in range(n)))
        C.append(bytes(rng.randrange(256) for _ in range(n - 1)) + b"\0")
        C.append(b"\0" * n)
    return C


def rand_bytes(rng):
    n = rng.choice([0, 1, 1, 2, 2, 3, 7, 16, 63, 64, 65, 100, 127, 128, 129, 300, 1000])
    r = rng.random()
    if r < 0.2:
        return bytes(rng.choice([0, 0, 0x7f, 0xff, 0x0d, 0x0a, 0x41]) for _ in range(n))
    b = bytes(rng.randrange(256) for _ in range(n))
    if r < 0.4 and n:
        b = b[:-1] + b"\0"
    if r > 0.9 and n:
        b = b"\x7f" + b[1:]
    return b


def gen_hist(rng, cat):
    files = [rng.choice(cat) for _ in range(2)] + [rand_bytes(rng) for _ in range(rng.randrange(1, 4))]
    if rng.random() < 0.5:
        files.append(b"\x7f")
    rng.shuffle(files)
    st = dict(tree=_Tree(), snap=None)  # layout as expected on the h5 side (content = file index); layout at the last commit
    ever = set()                        # every path that held an embedded file at some time of the history
    ops = []
    cnt = [0]
    sparse = rng.random() < 0.3

    def ds():
        return st["tree"].ds

    def fresh(prefix=""):
        cnt[0] += 1
        return "%sn%d" % (prefix, cnt[0])

    def freed():
        """paths that held a file earlier (deleted, moved away, discarded) and can hold a node again"""
        return [p for p in sorted(ever) if not st["tree"].occupied(p)]

    def other(i):
        """a file with other content than file i, if there is one"""
        c = [j for j in range(len(files)) if files[j] != files[i]]
        return rng.choice(c) if c else i

    def pack(t=None, i=None):
        if t is None:
            fr = freed()
            if fr and rng.random() < 0.5:
                t = rng.choice(fr)
            else:
                t = fresh(rng.choice(["", "", "g/", "g/h/", "data.dir/"])) + rng.choice(["", ".bin", "_x~.dat"])
        if i is None:
            i = rng.randrange(len(files))
        ops.append(["pack", i, t, rng.random() < 0.2])
        st["tree"].put(t, i)
        ever.add(t)
        if sparse and rng.random() < 0.6:
            ops.append(["read", t])

    def commit(k):
        ops.append([k])
        st["tree"].commit(k == "merge")
        st["snap"] = st["tree"].clone()

    for _ in range(rng.randrange(2, 5)):
        pack()
    for _ in range(rng.randrange(5, 14)):
        r = rng.random()
        if sparse and ds() and rng.random() < 0.25:
            ops.append(["read", rng.choice(sorted(ds()))])
        if r < 0.16:
            commit("boundary")
        elif r < 0.26:
            commit("reopen")
        elif r < 0.33:
            commit("merge")
        elif r < 0.40:
            if st["snap"] is None:
                commit("boundary")
            else:
                # throw the open patch away; often the same paths are then filled differently
                dropped = sorted(set(ds()) - set(st["snap"].ds))
                was = dict(ds())
                ops.append(["discard"])
                st["tree"] = st["snap"].clone()
                for p in dropped:
                    if rng.random() < 0.6 and not st["tree"].occupied(p):
                        pack(p, other(was[p]))
        elif r < 0.51:
            pack()
        elif r < 0.56 and ds():
            # packing onto an existing path must be refused
            ops.append(["pack", rng.randrange(len(files)), rng.choice(sorted(ds())), False])
        elif r < 0.80 and ds():
            k = rng.choice(["copy", "move"])
            gs = sorted(st["tree"].grps)
            if gs and rng.random() < 0.35:
                a, isg = _pick_group(rng, st["tree"]), True
            else:
                a, isg = rng.choice(sorted(ds())), False
            fr = [p for p in freed() if not _below(a, p)]
            if fr and rng.random() < 0.3:
                b = rng.choice(fr)
            else:
                b = fresh(rng.choice(["", "", "k/", "g/"]))
            if st["tree"].occupied(b) or _below(a, b):
                continue
            ops.append([k, a, b, isg])
            getattr(st["tree"], k)(a, b)
            ever.update(st["tree"].under(b))
        elif r < 0.89 and ds():
            # replace an embedded file: remove it (or the group it is in), embed another file at the same path
            p = rng.choice(sorted(ds()))
            i = ds()[p]
            gs = [g for g in _prefixes(p)]
            ops.append(["del", rng.choice(gs) if gs and rng.random() < 0.25 else p])
            st["tree"].remove(ops[-1][1])
            if rng.random() < 0.3:
                commit("boundary")
            pack(p, other(i))
        elif ds():
            gs = sorted(st["tree"].grps)
            p = rng.choice(gs) if gs and rng.random() < 0.3 else rng.choice(sorted(ds()))
            ops.append(["del", p])
            st["tree"].remove(p)
    commit("boundary")
    commit("reopen")
    case = dict(kind="hist", files=[f.hex() for f in files], ops=ops)
    if sparse:
        case["sparse"] = True
    return case


def _pick_group(rng, tree):
    """a group of the layout; preferably one whose embedded files were written in several containers
    (and of those, one that also got a file in the generation being written)"""
    gs = sorted(tree.grps)
    several = [g for g in gs if len(tree.spans(g)) >= 2]
    open_too = [g for g in several if tree.now in tree.spans(g)]
    r = rng.random()
    if open_too and r < 0.5:
        return rng.choice(open_too)
    if several and r < 0.7:
        return rng.choice(several)
    return rng.choice(gs)


def gen_layered(rng, cat):
    """histories about GROUPS that hold embedded files of several containers: a skeleton of nested groups is
    filled in 2-4 layers separated by container boundaries (patch boundary, reopen, sometimes merge); in the
    last, still open layer some of the groups get further files (or lose / replace one), and then groups of
    every depth (leaf group, inner group, top group, with files of older containers only, of the open patch
    only, or of both) are copied and moved -- to the top level, into another group of the skeleton, into a
    new group, back onto the name they had -- possibly several times, with further files embedded into the
    group under its new name, followed by boundary / reopen / merge. Every embedded file is re-read under
    its new path after every step (sparse: at explicit reads, at reopen and at the end)."""
    files = [rng.choice(cat) for _ in range(2)] + [rand_bytes(rng) for _ in range(rng.randrange(1, 3))]
    files = [f for f in files if f != b"\x7f"] or [b""]
    tree, ever, ops, cnt = _Tree(), set(), [], [0]
    sparse = rng.random() < 0.5
    nm = lambda: rng.choice(["d", "e", "data", "runs.2", "g-h", "x"])  # noqa: E731
    # skeleton: a chain of 1-3 nested groups, side branches off it, and a separate top group
    top = nm()
    skel = [top]
    for _ in range(rng.randrange(0, 3)):
        skel.append(skel[-1] + "/" + nm())
    for _ in range(rng.randrange(0, 3)):
        g = rng.choice(skel) + "/" + nm() + "2"
        if g not in skel:
            skel.append(g)
    skel.append("o" + nm())

    def fresh(pre=""):
        cnt[0] += 1
        return "%sm%d" % (pre, cnt[0])

    def pack(g=None):
        if g is None:
            live = [x for x in skel if x in tree.grps]
            # mostly into groups that already hold files (of older containers)
            g = rng.choice(live) if live and rng.random() < 0.7 else rng.choice(skel)
        if g in tree.ds or any(q in tree.ds for q in _prefixes(g + "/x")):
            return
        t = g + "/" + fresh() + rng.choice(["", ".bin"])
        ops.append(["pack", rng.randrange(len(files)), t, rng.random() < 0.1])
        tree.put(t, ops[-1][1])
        ever.add(t)
        if sparse and rng.random() < 0.4:
            ops.append(["read", t])

    def commit(k=None):
        k = k or rng.choice(["boundary", "boundary", "reopen", "reopen", "merge"])
        ops.append([k])
        tree.commit(k == "merge")

    layers = rng.randrange(2, 5)
    for layer in range(layers):
        for _ in range(rng.randrange(1, 3 if layer else 4)):
            pack()
        if layer < layers - 1:
            if layer and tree.ds and rng.random() < 0.2:
                ops.append(["del", rng.choice(sorted(tree.ds))])
                tree.remove(ops[-1][1])
            commit()
    # the open layer: copy / move groups
    names = {}  # group -> a name it had earlier
    for _ in range(rng.randrange(1, 5)):
        gs = sorted(g for g in tree.grps if tree.under(g))
        if not gs:
            break
        a = _pick_group(rng, tree) if rng.random() < 0.8 else rng.choice(gs)
        if not tree.under(a):
            continue
        k = rng.choice(["move", "move", "copy"])
        r = rng.random()
        back = [p for p in sorted(ever | set(names.values())) if not tree.occupied(p) and not _below(a, p)
                and all(q in tree.grps for q in _prefixes(p))]
        others = [g for g in sorted(tree.grps) if not _below(a, g) and g != a]
        if r < 0.35:
            b = fresh("")                                   # top level
        elif r < 0.55 and others:
            b = rng.choice(others) + "/" + fresh("")        # into an existing group
        elif r < 0.70:
            b = fresh("new") + "/" + fresh("")              # into a group that does not exist yet
        elif r < 0.85 and "/" in a:
            b = a.rsplit("/", 1)[0] + "/" + fresh("")       # renamed in place
        elif back:
            b = rng.choice(back)                            # onto a path that was in use earlier
        else:
            b = fresh("")
        if tree.occupied(b) or _below(a, b):
            continue
        ops.append([k, a, b, True])
        getattr(tree, k)(a, b)
        names[b] = a
        ever.update(tree.under(b))
        r = rng.random()
        if r < 0.3:
            pack(b)                                          # one more file into the group under its new name
        elif r < 0.4 and k == "move" and not tree.occupied(a) and all(q in tree.grps for q in _prefixes(a)):
            ops.append(["move", b, a, True])                 # and back
            tree.move(b, a)
        elif r < 0.5:
            commit("boundary")
        if sparse and tree.ds and rng.random() < 0.5:
            ops.append(["read", rng.choice(sorted(tree.ds))])
    commit(rng.choice(["boundary", "reopen"]))
    if rng.random() < 0.5:
        commit("merge")
    commit("reopen")
    case = dict(kind="hist", files=[f.hex() for f in files], ops=ops)
    if sparse:
        case["sparse"] = True
    return case


def gen_cases(ctx, scale=1.0):
    rng = ctx.rng
    cat = catalogue(rng)
    cases = []
    # every catalogue entry through wrap / round trip / pack_file on both drivers
    for i in range(0, len(cat), 10):
        cases.append(dict(kind="bytes", full=True, data=[b.hex() for b in cat[i:i + 10]]))
    # all byte strings of length <= 1 (full), random ones
    one = [b""] + [bytes([i]) for i in range(256)]
    step = 32 if ctx.quick else 16
    for i in range(0, len(one), step):
        cases.append(dict(kind="bytes", full=not ctx.quick or i == 96, data=[b.hex() for b in one[i:i + step]]))
    for _ in range(int((4 if ctx.quick else 60) * scale)):
        cases.append(dict(kind="bytes", full=True, data=[rand_bytes(rng).hex() for _ in range(8)]))
    for _ in range(int((40 if ctx.quick else 600) * scale)):
        cases.append(gen_hist(rng, cat))
    for _ in range(int((20 if ctx.quick else 400) * scale)):
        cases.append(gen_layered(rng, cat))
    return cases


def exhaustive_cases():
    """all byte strings of length 2: wrap / marker test / HDF5 round trip through both raw drivers;
    pack_file for those beginning with 00, 7f, ff (32 per case: IH5 gets slow in large groups)"""
    cases = []
    for a in range(256):
        cases.append(dict(kind="bytes", full=False, data=[bytes([a, b]).hex() for b in range(256)]))
    for a in (0, 0x7f, 0xff):
        for b0 in range(0, 256, 32):
            cases.append(dict(kind="bytes", full=True, data=[bytes([a, b]).hex() for b in range(b0, b0 + 32)]))
    return cases


def run(ctx):
    ctx.rule = ("cases: (bytes) byte strings -> _h5_wrap_bytes, _is_del_mark, HDF5 round trip through raw h5py.File and raw IH5Record, read-loop chunk "
                "lengths, pack_file + read through MetadorContainer on both drivers; (hist) 3-6 source files (boundary catalogue: lengths 0,1,63-65,127-129,"
                "4095-4097, NUL-rich, trailing NULs, high bytes, all 256 values, 7f/7f00/007f, CR/LF) packed into both drivers, then 5-13 random steps "
                "(patch boundary, reopen r and r+, merge_files, copy/move of datasets and groups also onto paths that held a file before, further packs at fresh "
                "paths and at paths freed in the same session, pack onto existing path, delete dataset / group, replace = delete + embed another file at the same path, "
                "discard the open IH5 patch [plain HDF5: back to the file copy of the last boundary] and fill the dropped paths differently); "
                "(hist, layered) a skeleton of nested groups (depth 1-4, side branches) filled in 2-4 layers separated by patch boundary / reopen / merge, "
                "further files embedded into (or removed from) the same groups in the open patch, then 1-4 copy/move steps of groups of every depth "
                "(files of older containers only / of the open patch only / of both; chosen with preference for both) to the top level, into another group, "
                "into a new group, renamed in place, onto a path used earlier, and back, with further embeds under the new name, then boundary/reopen/merge; "
                "all embedded files are re-read and compared after every step, or (30 %, sparse) only at explicit read steps, at reopen and at the end. Non-trivial = tagged (length class, trailing NUL, marker, step kinds).")
    ctx.trusted.append("harness/translate_c17.py (Python ast -> Lean) + value dictionary Model/BytesPy.lean for _h5_wrap_bytes, _is_del_mark, _node_is_del_mark, "
                       "_guard_value, hashsum, qualified_hashsum, file_hashsum; bridge theorems Bridge/BytesFns.lean re-checked on every run")
    ctx.assumptions += [
        "hashlib: update(a); update(b) == update(a+b) (hypothesis `Streaming` of chunked_digest / file_meta_exact)",
        "HDF5/h5py stores and returns np.void / Empty scalars unchanged (model `h5Store`, compared with h5py on every run)",
        "bytes_survive through overlay histories is the instance V := H5Val of the C01/C05 theorems (value-parametric); here it is covered by the oracle on random histories",
        "consumers read embedded files with node[()].tolist() (np.void); an empty file comes back as h5py.Empty and is taken as b''",
    ]
    cases = core.load_corpus(ID) + gen_cases(ctx)
    if not ctx.quick:
        cases += exhaustive_cases()
        ctx.exhaustive_spaces.append("all byte strings of length <= 2: wrap, marker test, HDF5 round trip through raw h5py.File and raw IH5Record (pack_file for all of length <= 1 and for 00xx, 7fxx, ffxx)")
    else:
        ctx.exhaustive_spaces.append("all byte strings of length <= 1: wrap, marker test, HDF5 round trip through both raw drivers")
    ctx.correspond("bytes-model", MOD, cases, lines, "drv_byt", timeout=180)


_shrunk = {}


def signature(case, detail):
    k = detail.get("kind") if isinstance(detail, dict) else str(detail)[:40]
    return "%s:%s" % (ID, k)


def _oracle(case, timeout=180):
    from .. import pool
    r = pool.run_one(MOD, "impl", case, timeout=timeout)
    return r["ok"]["oracle"] if "ok" in r else []


def shrink(ctx, case, detail):
    want = detail.get("kind") if isinstance(detail, dict) else None
    if want in _shrunk:
        return _shrunk[want]
    best = (case, detail)
    if case.get("kind") == "bytes" and isinstance(detail, dict) and "content" in detail:
        c = dict(kind="bytes", full=True, data=[detail["content"]])
        ds = [d for d in _oracle(c) if d.get("kind") == want]
        if ds:
            best = (c, ds[0])
    elif case.get("kind") == "hist":
        def fails(ops):
            return any(d.get("kind") == want for d in _oracle(dict(case, ops=ops)))
        ops = core.ddmin(case["ops"], fails, max_tests=40)
        c = dict(case, ops=ops)
        # drop the files no step uses any more; then try short distinct contents
        used = sorted({op[1] for op in ops if op[0] == "pack"})
        c2 = dict(c, files=[case["files"][i] for i in used],
                  ops=[[op[0], used.index(op[1])] + op[2:] if op[0] == "pack" else op for op in ops])
        if used and any(d.get("kind") == want for d in _oracle(c2)):
            c = c2
            for i in range(len(c["files"])):
                short = bytes([0x61 + i % 26, 0x30 + i % 10]).hex()
                if len(c["files"][i]) > len(short):
                    c3 = dict(c, files=c["files"][:i] + [short] + c["files"][i + 1:])
                    if any(d.get("kind") == want for d in _oracle(c3)):
                        c = c3
        ds = [d for d in _oracle(c) if d.get("kind") == want]
        if ds:
            best = (c, ds[0])
    _shrunk[want] = best
    return best


def search(ctx):
    from .. import pool
    for s in range(1, 4):
        sub = core.Ctx(ID, "quick", ctx.seed + 7919 * s)
        cases = gen_cases(sub, scale=2.0)
        res = pool.run(MOD, "impl", cases, timeout=180)
        ctx.search_log.append("seed %d: %d cases, oracle only" % (sub.seed, len(cases)))
        for c, r in zip(cases, res):
            if "ok" in r and r["ok"]["oracle"]:
                return shrink(ctx, c, r["ok"]["oracle"][0])
    return None


def replay(ctx, rep):
    from .. import pool
    case = rep.get("case")
    if not case:
        print(core.canon(rep)[:2000])
        return 0
    r = pool.run_one(MOD, "impl", case, timeout=180)
    print("implementation:", core.canon(r)[:3000])
    if case.get("kind") == "bytes":
        print("model:", lean.run_driver("drv_byt", [lines(case)])[0])
    return 1 if ("ok" in r and r["ok"]["oracle"]) else 0
