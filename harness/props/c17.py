"""C17 — Embedded file bytes and their file metadata are exact.

Lean: Model/Bytes.lean, Proofs/Bytes.lean, Props/C17.lean; driver `drv_byt`.

Real side: `pack_file` through `MetadorContainer` over both drivers (`h5py.File`, `IH5Record`)
on boundary byte strings, followed by container histories that keep the nodes (IH5 patch
boundaries, close/reopen read-only and writable, copy and move of datasets and groups,
`merge_files`, packing further files, deleting other nodes).

Oracle (needs no model): after every step, at every node that holds an embedded file, on both
drivers: bytes of `node[()]` == source bytes, `core.file` `contentSize == len(bytes)` and
`sha256 == hashlib.sha256(bytes)`, the set of datasets is the expected one; the content
`b"\\x7f"` (IH5 deletion marker once wrapped) raises on IH5 and leaves nothing behind, and is
stored and read back unaltered on plain HDF5; every other content is accepted.

Correspondence: `_h5_wrap_bytes`, `_is_del_mark`, the HDF5 round trip of void/str/fixed values,
the read-loop chunking and `pack_file` + read (both drivers) vs. the Lean model.
"""
import hashlib

from .. import core, lean

ID = "C17"
MOD = "harness.props.c17"
T = "MetadorModel.C17."
LEAN = dict(
    modules=["MetadorModel.Props.C17"],
    theorems=[T + n for n in [
        "unwrap_wrap", "wrap_injective", "store_wrap", "store_roundtrip", "naive_wrapping_not_exact",
        "chunks_flatten", "chunks_bounded", "chunks_zero", "chunked_digest", "file_meta_exact",
        "del_marker_iff", "isDelMark_wrap_iff", "isDelMark_iff", "del_marker_rejected", "guard_passes",
        "pack_read_exact", "drivers_agree", "plain_h5_keeps_marker"]],
    drivers=["drv_byt"],
)


def hx(b):
    if isinstance(b, str):
        b = b.encode()
    return bytes(b).hex() or "-"


# ----------------------------------------------------------------------------- real code
def _render(v):
    import h5py
    import numpy as np

    if isinstance(v, np.void):
        return "void " + hx(v.tobytes())
    if isinstance(v, h5py.Empty):
        return "empty"
    if isinstance(v, np.bytes_):
        return "fixed " + hx(bytes(v))
    if isinstance(v, bytes):
        return "str " + hx(v)
    return "other " + type(v).__name__


def _unwrap(v):
    """how consumers get bytes out of `node[()]` (widget/server code: `.tolist()` of np.void);
    None when the value is no byte string at all"""
    import h5py
    import numpy as np

    if isinstance(v, np.void):
        r = v.tolist()
        return r if isinstance(r, bytes) else None
    if isinstance(v, h5py.Empty):
        return b""
    if isinstance(v, (bytes, np.bytes_)):
        return bytes(v)
    return None


def _mkval(kind, bs):
    import h5py
    import numpy as np

    return dict(void=lambda: np.void(bs), empty=lambda: h5py.Empty("b"), str=lambda: bs, fixed=lambda: np.bytes_(bs))[kind]()


def _exc(e):
    return "err " + type(e).__name__


class _Side:
    """one container (one driver) + what it is expected to hold"""

    def __init__(self, drv, top):
        self.drv, self.top, self.gen = drv, top, 0
        self.expect = {}  # dataset path -> bytes
        self.name = "c-%s" % drv
        self.mc = self._open("w")

    def _path(self):
        import os
        return os.path.join(self.top, self.name)

    def _open(self, mode):
        import h5py
        from metador_core.container import MetadorContainer
        from metador_core.ih5.container import IH5Record

        raw = h5py.File(self._path() + ".h5", mode) if self.drv == "h5" else IH5Record(self._path(), mode)
        return MetadorContainer(raw)

    def datasets(self):
        from metador_core.container import MetadorDataset

        found = {}

        def walk(g, pre):
            for k in g.keys():
                n = g[k]
                if isinstance(n, MetadorDataset):
                    found[pre + k] = n
                else:
                    walk(n, pre + k + "/")
        walk(self.mc, "")
        return found

    def check(self, step, oracle):
        found = self.datasets()
        if set(found) != set(self.expect):
            oracle.append(dict(kind="dataset-set-differs", driver=self.drv, step=step,
                               unexpected=sorted(set(found) - set(self.expect))[:3], missing=sorted(set(self.expect) - set(found))[:3]))
        for p, bs in self.expect.items():
            if p not in found:
                continue
            n = found[p]
            try:
                got = _unwrap(n[()])
                m = n.meta.get("core.file")
            except Exception as e:  # noqa: BLE001
                oracle.append(dict(kind="read-fails", driver=self.drv, step=step, path=p, exc=type(e).__name__, content=bs.hex()))
                continue
            if got != bs:
                oracle.append(dict(kind="bytes-differ", driver=self.drv, step=step, path=p, content=bs.hex(),
                                   got=got.hex() if isinstance(got, bytes) else "not a byte string"))
            if m is None:
                oracle.append(dict(kind="file-metadata-missing", driver=self.drv, step=step, path=p, content=bs.hex()))
                continue
            if m.contentSize != len(bs):
                oracle.append(dict(kind="contentSize-differs", driver=self.drv, step=step, path=p, content=bs.hex(), got=int(m.contentSize)))
            if str(m.sha256).lower() != hashlib.sha256(bs).hexdigest():
                oracle.append(dict(kind="sha256-differs", driver=self.drv, step=step, path=p, content=bs.hex(), got=str(m.sha256)))

    def close(self):
        try:
            self.mc.close()
        except Exception:  # noqa: BLE001
            pass


def _pack(side, src, target, bs, oracle, step, out=None):
    """pack_file on one side; maintains the expectation; returns outcome string"""
    from metador_core.packer.utils import pack_file

    exists = target in side.expect or any(p.startswith(target + "/") for p in side.expect) or any(target.startswith(p + "/") for p in side.expect)
    try:
        pack_file(side.mc, src, target=target)
        res = "ok"
    except Exception as e:  # noqa: BLE001
        res = _exc(e)
    marker = bs == b"\x7f" and side.drv == "ih5"
    if exists:
        if res == "ok":
            oracle.append(dict(kind="existing-target-overwritten", driver=side.drv, step=step, path=target))
    elif marker:
        if res == "ok":
            oracle.append(dict(kind="deletion-marker-stored-silently", driver=side.drv, step=step, path=target, content=bs.hex()))
            side.expect[target] = bs
    else:
        if res != "ok":
            oracle.append(dict(kind="valid-content-rejected", driver=side.drv, step=step, path=target, content=bs.hex(), exc=res))
        else:
            side.expect[target] = bs
    return res


def impl(case):
    import os
    import shutil
    import tempfile

    out, oracle, tags = [], [], set()
    top = tempfile.mkdtemp(prefix="vtc17-")
    try:
        if case["kind"] == "bytes":
            return _impl_bytes(case, top)
        files = [bytes.fromhex(h) for h in case["files"]]
        sides = [_Side("h5", top), _Side("ih5", top)]
        src = os.path.join(top, "src file.bin")
        link = os.path.join(top, "src-link")
        os.symlink("src file.bin", link)
        try:
            for step, op in enumerate(case["ops"]):
                try:
                    k = op[0]
                    if k == "pack":
                        bs = files[op[1]]
                        with open(src, "wb") as f:
                            f.write(bs)
                        for s in sides:
                            _pack(s, link if op[3] else src, op[2], bs, oracle, step)
                        n = len(bs)
                        tags.add("len=%s" % (n if n in (0, 1) else "63-65" if 63 <= n <= 65 else "127-129" if 127 <= n <= 129 else "4095-4097" if 4095 <= n <= 4097 else "other"))
                        if bs.endswith(b"\0"):
                            tags.add("trailing-nul")
                        if bs == b"\x7f":
                            tags.add("marker")
                        elif b"\x7f" in bs[:2]:
                            tags.add("marker-like")
                        if op[3]:
                            tags.add("source-via-symlink")
                    elif k == "boundary":
                        for s in sides:
                            if s.drv == "ih5":
                                s.mc.__wrapped__.commit_patch()
                                s.mc.__wrapped__.create_patch()
                            else:
                                s.mc.flush()
                        tags.add("patch-boundary")
                    elif k == "reopen":
                        for s in sides:
                            s.mc.close()
                            s.mc = s._open("r")
                            s.check("%d:read-only" % step, oracle)
                            s.mc.close()
                            s.mc = s._open("r+")
                        tags.add("reopen")
                    elif k == "merge":
                        for s in sides:
                            if s.drv != "ih5":
                                continue
                            rec = s.mc.__wrapped__
                            rec.commit_patch()
                            s.gen += 1
                            newname = "m%d-ih5" % s.gen
                            rec.merge_files(os.path.join(top, newname))
                            s.mc.close()
                            s.name = newname
                            s.mc = s._open("r+")
                        tags.add("merge")
                    elif k in ("copy", "move"):
                        a, b = op[1], op[2]
                        for s in sides:
                            moved = {p: v for p, v in s.expect.items() if p == a or p.startswith(a + "/")}
                            if not moved and a not in s.mc:
                                continue  # node absent on this side (marker file on IH5)
                            try:
                                getattr(s.mc, k)(a, b)
                            except Exception as e:  # noqa: BLE001
                                oracle.append(dict(kind="history-step-fails", driver=s.drv, step=step, op=op, exc=type(e).__name__, msg=str(e)[:100]))
                                continue
                            for p, v in moved.items():
                                s.expect[b + p[len(a):]] = v
                                if k == "move":
                                    del s.expect[p]
                        tags.add(k + ("-group" if op[3] else "-dataset"))
                    elif k == "del":
                        for s in sides:
                            gone = [p for p in s.expect if p == op[1] or p.startswith(op[1] + "/")]
                            if not gone and op[1] not in s.mc:
                                continue
                            try:
                                del s.mc[op[1]]
                            except Exception as e:  # noqa: BLE001
                                oracle.append(dict(kind="history-step-fails", driver=s.drv, step=step, op=op, exc=type(e).__name__, msg=str(e)[:100]))
                                continue
                            for p in gone:
                                del s.expect[p]
                        tags.add("delete-other")
                    for s in sides:
                        s.check(step, oracle)
                    common = set(sides[0].expect) & set(sides[1].expect)
                    if len(common) >= 2:
                        tags.add("several-files")
                except Exception as e:  # noqa: BLE001 - a step of a valid history must not fail
                    oracle.append(dict(kind="history-step-fails", step=step, op=op, exc=type(e).__name__, msg=str(e)[:100]))
                    break
        finally:
            for s in sides:
                s.close()
        return dict(out=None, oracle=oracle, tags=sorted(tags))
    finally:
        shutil.rmtree(top, ignore_errors=True)


def _impl_bytes(case, top):
    import os

    import h5py
    from metador_core.ih5 import overlay
    from metador_core.ih5.container import IH5Record
    from metador_core.packer import utils as pu
    from metador_core.util import hashsums as hs

    out, oracle, tags = [], [], set()
    full = case.get("full", True)
    raw_h5 = h5py.File(os.path.join(top, "raw.h5"), "w")
    raw_ih5 = IH5Record(os.path.join(top, "raw-ih5"), "w")
    sides = [_Side("h5", top), _Side("ih5", top)] if full else []
    src = os.path.join(top, "src.bin")
    try:
        for i, h in enumerate(case["data"]):
            bs = bytes.fromhex(h)
            w = pu._h5_wrap_bytes(bs)
            out.append(_render(w))
            out.append("T" if overlay._is_del_mark(w) else "F")
            # HDF5 round trip of the wrapped value, through both raw drivers
            res = []
            if i % 32 == 31:
                # IH5 group operations are linear in the number of children: start a fresh record
                raw_ih5.close()
                raw_ih5 = IH5Record(os.path.join(top, "raw-ih5-%d" % i), "w")
            for raw in (raw_h5, raw_ih5):
                try:
                    raw.create_dataset("r%d" % i, data=w)
                    back = raw["r%d" % i][()]
                    res.append("ok " + _render(back))
                    if _unwrap(back) != bs:
                        oracle.append(dict(kind="bytes-differ", driver="raw", content=h, got=_render(back)))
                except Exception as e:  # noqa: BLE001
                    res.append(_exc(e))
                    if "r%d" % i in raw:
                        oracle.append(dict(kind="rejected-but-stored", content=h))
            out.append(res[0])
            if bs == b"\x7f":
                if res[1] != "err ValueError":
                    oracle.append(dict(kind="deletion-marker-stored-silently", driver="ih5-raw", content=h, got=res[1]))
                tags.add("marker")
            elif res[1] != res[0]:
                oracle.append(dict(kind="drivers-differ", content=h, h5=res[0], ih5=res[1]))
            # the two naive encodings, to keep the HDF5 model honest (diagnostic for the model only)
            for kind in ("str", "fixed"):
                try:
                    raw_h5.create_dataset("n%s%d" % (kind, i), data=_mkval(kind, bs))
                    out.append("ok " + _render(raw_h5["n%s%d" % (kind, i)][()]))
                except Exception as e:  # noqa: BLE001
                    out.append(_exc(e))
            # read loop
            rec = _Rec(bs)
            dg = hs.hashsum(rec, "sha256")
            out.append(" ".join(["c"] + [str(n) for n in rec.log if n]))
            if dg != hashlib.sha256(bs).hexdigest():
                oracle.append(dict(kind="sha256-differs", driver="hashsum", content=h, got=dg))
            if full:
                with open(src, "wb") as f:
                    f.write(bs)
                for s in sides:
                    t = "d/f%d" % i
                    out.append(_pack(s, src, t, bs, oracle, i))
                    try:
                        if t in s.expect:
                            n = s.mc[t]
                            m = n.meta.get("core.file")
                            got = _unwrap(n[()])
                            got = hx(got) if got is not None else "?"
                            out.append("some %s %d %s" % (got, m.contentSize, m.sha256) if m else "some %s nometa" % got)
                        else:
                            out.append("some ?" if t in s.mc else "none")
                    except Exception as e:  # noqa: BLE001
                        out.append(_exc(e))
                if i % 16 == 15 or i == len(case["data"]) - 1:
                    for s in sides:
                        s.check(i, oracle)
            n = len(bs)
            tags.add("len=%s" % (n if n in (0, 1, 2) else "63-65" if 63 <= n <= 65 else "127-129" if 127 <= n <= 129 else "4095-4097" if 4095 <= n <= 4097 else "other"))
            if bs.endswith(b"\0"):
                tags.add("trailing-nul")
            if bs[:1] == b"\x7f" and bs != b"\x7f":
                tags.add("marker-like")
    finally:
        for s in sides:
            s.close()
        raw_h5.close()
        raw_ih5.close()
    return dict(out=out, oracle=oracle, tags=sorted(tags))


class _Rec:
    def __init__(self, data):
        self.data, self.pos, self.log = data, 0, []

    def read(self, n=-1):
        if n is None or n < 0:
            n = len(self.data) - self.pos
        c = self.data[self.pos:self.pos + n]
        self.pos += len(c)
        self.log.append(len(c))
        return c


# ----------------------------------------------------------------------------- model lines
def lines(case):
    if case["kind"] != "bytes":
        return []
    L = []
    full = case.get("full", True)
    for i, h in enumerate(case["data"]):
        bs = bytes.fromhex(h)
        hh = h or "-"
        L.append("wrap " + hh)
        L.append("isdel %s %s" % (("void", hh) if bs else ("empty", "-")))
        L.append("rt %s %s" % (("void", hh) if bs else ("empty", "-")))
        L.append("rt str " + hh)
        L.append("rt fixed " + hh)
        L.append("chunks 64 " + hh)
        if full:
            dg = hashlib.sha256(bs).hexdigest()
            p = hx("d/f%d" % i)
            L += ["pack h5 %s %s %s" % (p, hh, dg), "read " + p]
            # the model keeps one store per case: use a second path for the IH5 side
            q = hx("i/f%d" % i)
            L += ["pack ih5 %s %s %s" % (q, hh, dg), "read " + q]
    return L


# ----------------------------------------------------------------------------- generators
def catalogue(rng):
    """boundary byte strings named by the property"""
    C = [b"", b"\0", b"a", b"\x7f", b"\x7f\0", b"\0\x7f", b"\x7f\x7f", b"\x80", b"\xff", b"\xff\xfe\x00\x00",
         bytes(range(256)), bytes(range(255, -1, -1)), b"\0" * 64, b"a" + b"\0" * 7, b"\0\0\0a", b"a\0b\0\0",
         b"line\r\nline\rline\n", b"\r\n", b"\x1a", b"\x89PNG\r\n\x1a\n" + b"\0" * 5, "ünïcödé ☃".encode(), b"\xc3\x28", b" \t\n", b"%PDF-1.4\n"]
    for n in (63, 64, 65, 127, 128, 129, 4095, 4096, 4097):
        C.append(bytes(rng.randrange(256) for _ in range(n)))
        C.append(bytes(rng.randrange(256) for _ in range(n - 1)) + b"\0")
        C.append(b"\0" * n)
    return C


def rand_bytes(rng):
    n = rng.choice([0, 1, 1, 2, 2, 3, 7, 16, 63, 64, 65, 100, 127, 128, 129, 300, 1000])
    r = rng.random()
    if r < 0.2:
        return bytes(rng.choice([0, 0, 0x7f, 0xff, 0x0d, 0x0a, 0x41]) for _ in range(n))
    b = bytes(rng.randrange(256) for _ in range(n))
    if r < 0.4 and n:
        b = b[:-1] + b"\0"
    if r > 0.9 and n:
        b = b"\x7f" + b[1:]
    return b


def gen_hist(rng, cat):
    files = [rng.choice(cat) for _ in range(2)] + [rand_bytes(rng) for _ in range(rng.randrange(1, 4))]
    if rng.random() < 0.5:
        files.append(b"\x7f")
    rng.shuffle(files)
    ds = {}      # path -> file idx (as expected on the h5 side)
    ops = []
    cnt = [0]

    def fresh(prefix=""):
        cnt[0] += 1
        return "%sn%d" % (prefix, cnt[0])

    def groups():
        g = set()
        for p in ds:
            parts = p.split("/")
            for i in range(1, len(parts)):
                g.add("/".join(parts[:i]))
        return sorted(g)

    def pack():
        i = rng.randrange(len(files))
        g = rng.choice(["", "", "g/", "g/h/", "data.dir/"])
        t = fresh(g) + rng.choice(["", ".bin", "_x~.dat"])
        ops.append(["pack", i, t, rng.random() < 0.2])
        ds[t] = i

    for _ in range(rng.randrange(2, 5)):
        pack()
    for _ in range(rng.randrange(4, 12)):
        r = rng.random()
        if r < 0.2:
            ops.append(["boundary"])
        elif r < 0.32:
            ops.append(["reopen"])
        elif r < 0.42:
            ops.append(["merge"])
        elif r < 0.55:
            pack()
        elif r < 0.62 and ds:
            # packing onto an existing path must be refused
            ops.append(["pack", rng.randrange(len(files)), rng.choice(sorted(ds)), False])
        elif r < 0.9 and ds:
            k = rng.choice(["copy", "move"])
            gs = groups()
            if gs and rng.random() < 0.35:
                a, isg = rng.choice(gs), True
            else:
                a, isg = rng.choice(sorted(ds)), False
            b = fresh(rng.choice(["", "", "k/", "g/"]))
            if any(p == b or p.startswith(b + "/") for p in ds) or b.startswith(a + "/"):
                continue
            ops.append([k, a, b, isg])
            for p in [p for p in ds if p == a or p.startswith(a + "/")]:
                ds[b + p[len(a):]] = ds[p]
                if k == "move":
                    del ds[p]
        elif len(ds) > 1:
            p = rng.choice(sorted(ds))
            ops.append(["del", p])
            del ds[p]
    ops.append(["boundary"])
    ops.append(["reopen"])
    return dict(kind="hist", files=[f.hex() for f in files], ops=ops)


def gen_cases(ctx, scale=1.0):
    rng = ctx.rng
    cat = catalogue(rng)
    cases = []
    # every catalogue entry through wrap / round trip / pack_file on both drivers
    for i in range(0, len(cat), 10):
        cases.append(dict(kind="bytes", full=True, data=[b.hex() for b in cat[i:i + 10]]))
    # all byte strings of length <= 1 (full), random ones
    one = [b""] + [bytes([i]) for i in range(256)]
    step = 32 if ctx.quick else 16
    for i in range(0, len(one), step):
        cases.append(dict(kind="bytes", full=not ctx.quick or i == 96, data=[b.hex() for b in one[i:i + step]]))
    for _ in range(int((4 if ctx.quick else 60) * scale)):
        cases.append(dict(kind="bytes", full=True, data=[rand_bytes(rng).hex() for _ in range(8)]))
    for _ in range(int((40 if ctx.quick else 800) * scale)):
        cases.append(gen_hist(rng, cat))
    return cases


def exhaustive_cases():
    """all byte strings of length 2: wrap / marker test / HDF5 round trip through both raw drivers;
    pack_file for those beginning with 00, 7f, ff (32 per case: IH5 gets slow in large groups)"""
    cases = []
    for a in range(256):
        cases.append(dict(kind="bytes", full=False, data=[bytes([a, b]).hex() for b in range(256)]))
    for a in (0, 0x7f, 0xff):
        for b0 in range(0, 256, 32):
            cases.append(dict(kind="bytes", full=True, data=[bytes([a, b]).hex() for b in range(b0, b0 + 32)]))
    return cases


def run(ctx):
    ctx.rule = ("cases: (bytes) byte strings -> _h5_wrap_bytes, _is_del_mark, HDF5 round trip through raw h5py.File and raw IH5Record, read-loop chunk "
                "lengths, pack_file + read through MetadorContainer on both drivers; (hist) 3-6 source files (boundary catalogue: lengths 0,1,63-65,127-129,"
                "4095-4097, NUL-rich, trailing NULs, high bytes, all 256 values, 7f/7f00/007f, CR/LF) packed into both drivers, then 4-12 random steps "
                "(patch boundary, reopen r and r+, merge_files, copy/move of datasets and groups, further packs, pack onto existing path, delete other node); "
                "all embedded files are re-read and compared after every step. Non-trivial = tagged (length class, trailing NUL, marker, step kinds).")
    ctx.assumptions += [
        "hashlib: update(a); update(b) == update(a+b) (hypothesis `Streaming` of chunked_digest / file_meta_exact)",
        "HDF5/h5py stores and returns np.void / Empty scalars unchanged (model `h5Store`, compared with h5py on every run)",
        "bytes_survive through overlay histories is the instance V := H5Val of the C01/C05 theorems (value-parametric); here it is covered by the oracle on random histories",
        "consumers read embedded files with node[()].tolist() (np.void); an empty file comes back as h5py.Empty and is taken as b''",
    ]
    cases = core.load_corpus(ID) + gen_cases(ctx)
    if not ctx.quick:
        cases += exhaustive_cases()
        ctx.exhaustive_spaces.append("all byte strings of length <= 2: wrap, marker test, HDF5 round trip through raw h5py.File and raw IH5Record (pack_file for all of length <= 1 and for 00xx, 7fxx, ffxx)")
    else:
        ctx.exhaustive_spaces.append("all byte strings of length <= 1: wrap, marker test, HDF5 round trip through both raw drivers")
    ctx.correspond("bytes-model", MOD, cases, lines, "drv_byt", timeout=180)


_shrunk = {}


def signature(case, detail):
    k = detail.get("kind") if isinstance(detail, dict) else str(detail)[:40]
    return "%s:%s" % (ID, k)


def _oracle(case, timeout=180):
    from .. import pool
    r = pool.run_one(MOD, "impl", case, timeout=timeout)
    return r["ok"]["oracle"] if "ok" in r else []


def shrink(ctx, case, detail):
    want = detail.get("kind") if isinstance(detail, dict) else None
    if want in _shrunk:
        return _shrunk[want]
    best = (case, detail)
    if case.get("kind") == "bytes" and isinstance(detail, dict) and "content" in detail:
        c = dict(kind="bytes", full=True, data=[detail["content"]])
        ds = [d for d in _oracle(c) if d.get("kind") == want]
        if ds:
            best = (c, ds[0])
    elif case.get("kind") == "hist":
        def fails(ops):
            return any(d.get("kind") == want for d in _oracle(dict(case, ops=ops)))
        ops = core.ddmin(case["ops"], fails, max_tests=40)
        c = dict(case, ops=ops)
        ds = [d for d in _oracle(c) if d.get("kind") == want]
        if ds:
            best = (c, ds[0])
    _shrunk[want] = best
    return best


def search(ctx):
    from .. import pool
    for s in range(1, 4):
        sub = core.Ctx(ID, "quick", ctx.seed + 7919 * s)
        cases = gen_cases(sub, scale=2.0)
        res = pool.run(MOD, "impl", cases, timeout=180)
        ctx.search_log.append("seed %d: %d cases, oracle only" % (sub.seed, len(cases)))
        for c, r in zip(cases, res):
            if "ok" in r and r["ok"]["oracle"]:
                return shrink(ctx, c, r["ok"]["oracle"][0])
    return None


def replay(ctx, rep):
    from .. import pool
    case = rep.get("case")
    if not case:
        print(core.canon(rep)[:2000])
        return 0
    r = pool.run_one(MOD, "impl", case, timeout=180)
    print("implementation:", core.canon(r)[:3000])
    if case.get("kind") == "bytes":
        print("model:", lean.run_driver("drv_byt", [lines(case)])[0])
    return 1 if ("ok" in r and r["ok"]["oracle"]) else 0
