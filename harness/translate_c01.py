"""Python-AST -> Lean translator for the child resolution of the IH5 overlay (property C01).

Regenerates `lean/MetadorModel/Gen/OverlayScan.lean` from the current source on every `./check C01`
run (`write(lean)`, called by `translate(ctx)` in `harness/props/c01.py`). The bridge theorems in
`lean/MetadorModel/Bridge/OverlayScan.lean` are re-checked by `lake build` on every run, so the C01
theorems (and those of C05, C10, C17 that rest on the same model), which are about
`Model/Overlay.lean`, transfer to what the source says now:

  gen_node_is_virtual   _node_is_virtual (ofNode f p n)  = .ok n.kind.isVirtual      (RKind.isVirtual)
  gen_node_is_del_mark  _node_is_del_mark (ofNode f p n) = .ok n.kind.isDel          (RKind.isDel)
  gen_children          (_children <group node (g, c) of record r>)[k] = (child r (g ++ [k]) c).1
                        -- the loop over the container files, newest first, with the two dicts as
                        -- association-list state, is a fold; per key it is `Overlay.scan`
  gen_find              _find "/a/b/…"  =  look r [a, b, …]   (found c ↦ c, part ↦ None,
                        insideValue ↦ ValueError); gen_node_seq_loop: the loop of `_node_seq` is `lookFrom`

Translated (src/metador_core/ih5/overlay.py; functions are found by name, line numbers of the pinned tree)
  SUBST_KEY                                  l. 55
  _node_is_del_mark                          l. 46-49  (decision structure; `_is_del_mark` itself is C17's)
  _node_is_virtual                           l. 58-60
  IH5Node.__bool__                           l. 104-105
  IH5Node._guard_open                        l. 117-120
  IH5InnerNode._get_child_raw                l. 234-239
  IH5InnerNode._get_child                    l. 241-250
  IH5InnerNode._children                     l. 252-290 (both loops, the `is_virtual[k]` update, the final
                                                         sorted/filtered dict comprehension)
  IH5InnerNode._node_seq                     l. 299-328 (loop with early return and the ValueError)
  IH5InnerNode._find                         l. 330-343
  defaults of IH5Group.__init__(record, gpath="/", creation_idx=None)   l. 497 (used for `IH5Group(self._record)`)

Value dictionary: fixed, hand-written, `lean/MetadorModel/Model/OverlayPy.lean` (table in its header).
In short: int ↦ Int (indices too; `-1` and negative list indices keep their Python meaning);
`self._files` ↦ list of containers oldest first; `files[i]` ↦ pyListGet (IndexError); `p in f`, `f[p]` on
an h5py file ↦ pyFileIn / pyFileGet (KeyError) giving `PyObj.ofNode` of the raw node (vgroup/sgroup ↦
h5py.Group without/with SUBST attribute, data v / del ↦ h5py.Dataset with content v / DEL_VALUE);
`x.attrs`, `SUBST_KEY in a`, `a[k]`, `x.keys()`, `d[()]` ↦ pyGetAttrs / pyIn / pyAttrsGet / pyKeys /
pyGetItemUnit (AttributeError / TypeError / KeyError where Python raises them); `_is_del_mark` ↦
pyIsDelMark; isinstance ↦ pyIsInstance / pyNodeIsInstance; dicts ↦ association lists (pyDictIn, pyDictGet
(KeyError), pyDictSet, pyDictGetD, pyDictGetOpt, pySortedItems, pyFilterM); `for` ↦ pyFor / pyForRet over
the translated iterable with the loop-carried names as state tuple (ordered by type, then first
binding), `continue` ↦ the state so far, `return` in a loop ↦ PyStep.ret; `self` ↦ PySelf; a child or
attribute name ↦ Key; `self._gpath` ↦ Path; a path argument ↦ PyPath (`path[0] == "/"`, `path == "/"`,
`path == "."`, `path.strip("/").split("/")` are dictionary idioms, not translated character-wise);
`self._abs_path(x)` ↦ pyAbsKey / pyAbsPath; `IH5Group(..)`, `IH5Dataset(..)` ↦ pyMkGroup / pyMkDataset;
a node in a variable ↦ PyNode, methods on it go through pyAsInner (AttributeError); `x and y`, `x or y`
on booleans short-circuit (the right operand is evaluated only when needed); `a if c else b`,
`if/elif/else`, early `return`, `raise E(..)` ↦ `.error .e`, `assert c` ↦ AssertionError when false;
truth values: bool ↦ itself, `bool(list)` ↦ non-empty, `not self` ↦ the translated `__bool__`.
Every translated function returns `Except PyErr τ`.

Anything else (other statements, calls, attributes, types that do not fit) raises TranslateError with a
message naming what was not understood; a stub without definitions is then written, the bridge module
cannot build, and the check records the undischarged obligations `translate:C01` and the bridge theorems.

NOT translated, tied by the correspondence run / oracle only: the write paths (`create_group`,
`_create_virtual`, `create_dataset`, `__delitem__`, attribute writes, `copy`/`move`, `h5_copy_from_to`),
`_latest_idx`, `_get_children`, `__getitem__`/`get`/`__contains__`, `_guard_key`, the path string
functions `_abs_path`/`_rel_path`/`_parent_path` (the model has segment lists, no strings), the
constructors of `IH5Group`/`IH5Dataset` (`__init__`, `__post_init__`: dictionary `pyMkGroup/pyMkDataset`),
`_is_del_mark` (byte-level test: translated for C17, `Bridge/BytesFnsDel.lean`), h5py itself (what a
container file holds is the model's `Cont`; `WF` = what every HDF5 file satisfies is a hypothesis of the
bridge theorems and part of the proved record invariant `Inv`), `_children` of an attribute manager is
translated (same code) but bridged only for group nodes (`Overlay.attrFind` is tied by correspondence).

Mutation tests (METADOR_REPO=<scratch copy> ./check C01 --tier quick; details in the builder's report)
  behaviour-changing edits, all exit 1 with the broken bridge module named and (except where the translator
  already refuses the text) a failing history from the oracle: `is_virtual[k]` update dropped (= the pinned
  F1 algorithm), lower bound `self._cidx + 1`, `SUBST_KEY in node.attrs`, deletion-marker filter dropped,
  ValueError also on the last segment, loop oldest-first, sentinel `-1` -> `0`, `elif not is_virtual[k]`,
  `_find` without the path comparison, seeded change C01-s3 (`_node_is_del_mark` by dtype/shape: not in the
  dictionary -> `translate:C01` undischarged). The other seeded changes (s1, s2, s4) touch write paths only.
  behaviour-preserving edits that stay green: renamed locals / loop variables, comments and docstrings,
  swapped `children = {}` / `is_virtual = {}`, swapped independent assignments, `a if c else b` <->
  if-statement (assigning the name in both branches, or returning), `elif` <-> nested `else: if`,
  `isinstance(x, (A, B))` <-> `isinstance(x, A) or isinstance(x, B)`, `x and y` <-> early `return False`,
  `a not in b` <-> `not (a in b)`, dropped annotations on non-dict locals, `range(n)` <-> `range(0, n)`,
  tuple assignment <-> two assignments, `nxt_cidx == -1` <-> `nxt_cidx < 0`.
  Known to break the tie although harmless (TranslateError): a new helper function or module constant,
  `while` instead of `for`, iterating `obj` instead of `obj.keys()`, an empty dict without a
  `Dict[str, int|bool]` annotation, `dict.setdefault` / `dict.update`.

Concurrency: `Gen/OverlayScan.lean` is one file in the shared lake project. Two `./check C01` runs with
different `METADOR_REPO` at the same time overwrite each other's generated text between translation and
build (as for every translated property), and share `Audit_C01.lean`; run them one after the other.
"""
import ast
import os

from . import envshim  # noqa: F401
from .translate import TranslateError, find_class, find_func, strip_doc

OVERLAY = "src/metador_core/ih5/overlay.py"

HEADER = """import MetadorModel.Model.OverlayPy
/-! GENERATED on every run by harness/translate_c01.py from
    src/metador_core/ih5/overlay.py. Do not edit. Value dictionary: Model/OverlayPy.lean. -/
set_option linter.unusedVariables false
namespace MetadorModel.Gen.OverlayScan
open MetadorModel.Tree MetadorModel.Overlay MetadorModel.OverlayPy

variable {V : Type}
"""
FOOTER = "\nend MetadorModel.Gen.OverlayScan\n"

LEAN_TY = {
    "obj": "PyObj V", "bool": "Bool", "int": "Int", "key": "Key", "path": "Path", "pypath": "PyPath",
    "file": "Cont V", "files": "List (Cont V)", "dict_int": "List (Key × Int)", "dict_bool": "List (Key × Bool)",
    "keys": "List Key", "ints": "List Int", "self": "PySelf V", "node": "PyNode V", "nodes": "List (PyNode V)",
    "optint": "Option Int", "unit": "Unit", "none": "Option Int",
}
# order of loop-carried names in a state tuple: by type, then by first binding in the function
TY_RANK = ["node", "self", "obj", "int", "bool", "key", "path", "pypath", "nodes", "keys", "ints", "dict_int",
           "dict_bool", "optint", "file", "files"]
ELEM = {"files": "file", "keys": "key", "ints": "int", "nodes": "node"}
LEAN_KEYWORDS = {"at", "from", "fun", "end", "do", "then", "else", "if", "let", "have", "show", "match", "with", "in",
                 "open", "def", "theorem", "by", "where", "instance", "structure", "class", "namespace", "section",
                 "import", "return", "for", "mut", "try", "catch", "finally", "unless", "type", "st", "kv", "pure",
                 "some", "none", "min", "max", "V"}
EXC = {"KeyError": ".keyError", "IndexError": ".indexError", "ValueError": ".valueError",
       "AssertionError": ".assertionError", "AttributeError": ".attributeError", "TypeError": ".typeError"}
H5_CLASSES = {"Group": ".Group", "Dataset": ".Dataset", "AttributeManager": ".AttributeManager"}
NODE_CLASSES = {"IH5Group": ".IH5Group", "IH5Dataset": ".IH5Dataset", "IH5AttributeManager": ".IH5AttributeManager"}

# python name -> (class or None, parameter types (without self), result type)
FUNCS = {
    "_node_is_del_mark": (None, ["obj"], "bool"),
    "_node_is_virtual": (None, ["obj"], "bool"),
    "__bool__": ("IH5Node", [], "bool"),
    "_guard_open": ("IH5Node", [], "unit"),
    "_get_child_raw": ("IH5InnerNode", ["key", "int"], "obj"),
    "_get_child": ("IH5InnerNode", ["key", "int"], "node"),
    "_children": ("IH5InnerNode", [], "dict_int"),
    "_node_seq": ("IH5InnerNode", ["pypath"], "nodes"),
    "_find": ("IH5InnerNode", ["pypath"], "optint"),
}
ORDER = ["_node_is_del_mark", "_node_is_virtual", "__bool__", "_guard_open", "_get_child_raw", "_get_child",
         "_children", "_node_seq", "_find"]
SELF_ATTRS = {"_files": ("files", "files"), "_gpath": ("gpath", "path"), "_cidx": ("cidx", "int"),
              "_is_attrs": ("isAttrs", "bool"), "_record": ("files", "record")}
COERCE = {("self", "node"): "(PyNode.inner %s)", ("obj", "node"): "(PyNode.raw %s)", ("int", "optint"): "(some %s)",
          ("none", "optint"): "%s", ("pypath", "key"): "(pyPathStr %s)"}


def _d(e):
    try:
        return ast.unparse(e)[:100]
    except Exception:  # noqa: BLE001
        return ast.dump(e)[:100]


def lean_string(s):
    out = []
    for ch in s:
        o = ord(ch)
        if ch in ('"', "\\"):
            out.append("\\" + ch)
        elif 32 <= o < 127:
            out.append(ch)
        elif o < 256:
            out.append("\\x%02x" % o)
        else:
            raise TranslateError("string constant %r outside Latin-1" % s)
    return '"' + "".join(out) + '"'


def indent(lines, n):
    return [" " * n + l for l in lines]


def exits(body):
    """may a statement list leave by return / continue / raise (anywhere inside, not in nested loops' continue)"""
    for s in body:
        for n in ast.walk(s):
            if isinstance(n, (ast.Return, ast.Continue, ast.Raise, ast.Break)):
                return True
    return False


def has_return(body):
    return any(isinstance(n, ast.Return) for s in body for n in ast.walk(s))


def assigned(body):
    """names (re)bound or mutated by a statement list, in order of first occurrence"""
    out = []

    def add(n):
        if n not in out:
            out.append(n)

    def tgt(t):
        if isinstance(t, ast.Name):
            add(t.id)
        elif isinstance(t, ast.Tuple):
            for x in t.elts:
                tgt(x)
        elif isinstance(t, ast.Subscript) and isinstance(t.value, ast.Name):
            add(t.value.id)

    def walk(ss):
        for s in ss:
            if isinstance(s, ast.Assign):
                for t in s.targets:
                    tgt(t)
            elif isinstance(s, ast.AnnAssign) and s.value is not None:
                tgt(s.target)
            elif isinstance(s, ast.AugAssign):
                tgt(s.target)
            elif isinstance(s, ast.Expr) and isinstance(s.value, ast.Call) and isinstance(s.value.func, ast.Attribute) \
                    and isinstance(s.value.func.value, ast.Name) and s.value.func.attr in ("append", "pop", "clear", "update",
                                                                                           "setdefault", "extend"):
                add(s.value.func.value.id)
            elif isinstance(s, ast.If):
                walk(s.body)
                walk(s.orelse)
            elif isinstance(s, ast.For):
                tgt(s.target)
                walk(s.body)
                walk(s.orelse)
            elif isinstance(s, (ast.While, ast.With, ast.Try)):
                raise TranslateError("unsupported statement %s" % type(s).__name__)
    walk(body)
    return out


def names_read(nodes):
    """names loaded by the given nodes (names bound by a comprehension or lambda inside them are local to it)"""
    out = []

    def visit(n, bound):
        if isinstance(n, ast.Name):
            if isinstance(n.ctx, ast.Load) and n.id not in bound and n.id not in out:
                out.append(n.id)
            return
        if isinstance(n, (ast.DictComp, ast.ListComp, ast.SetComp, ast.GeneratorExp)):
            b = set(bound)
            for g in n.generators:
                visit(g.iter, b)
                b |= {x.id for x in ast.walk(g.target) if isinstance(x, ast.Name)}
                for c in g.ifs:
                    visit(c, b)
            for part in ([n.key, n.value] if isinstance(n, ast.DictComp) else [n.elt]):
                visit(part, b)
            return
        if isinstance(n, ast.Lambda):
            visit(n.body, set(bound) | {a.arg for a in n.args.args})
            return
        for c in ast.iter_child_nodes(n):
            visit(c, bound)
    for s in nodes:
        visit(s, set())
    return out


class Var:
    def __init__(self, lean, ty):
        self.lean, self.ty = lean, ty


class Fn:
    """translator of one function; produces the Lean text of the function and of its auxiliary definitions"""

    def __init__(self, name, fdef, consts, group_defaults):
        self.name, self.fdef, self.consts, self.group_defaults = name, fdef, consts, group_defaults
        self.cls, self.ptys, self.rty = FUNCS[name]
        self.aux = []
        self.nloop = 0
        self.nfilter = 0
        self.ntmp = 0
        self.order = []  # names in order of first binding (parameters first)
        self.pynames = {n.id for n in ast.walk(fdef) if isinstance(n, ast.Name)} | {a.arg for a in fdef.args.args}

    # ---------------------------------------------------------------- names
    def lname(self, py):
        n = py
        if n in LEAN_KEYWORDS or (n[0] == "t" and n[1:].isdigit()):
            n = n + "_"
        return n

    def tmp(self):
        self.ntmp += 1
        return "t%d" % self.ntmp

    def note(self, py):
        if py not in self.order:
            self.order.append(py)

    # ---------------------------------------------------------------- types
    def coerce(self, lean, ty, want, what):
        if ty == want or (ty == "none" and want == "optint"):
            return lean
        if ty == "dict_empty" and want in ("dict_int", "dict_bool"):
            return lean
        if (ty, want) in COERCE:
            return COERCE[(ty, want)] % lean
        raise TranslateError("%s: a %s where a %s is expected" % (what, ty, want))

    def unify(self, a, b, what):
        """common type of two branches -> type"""
        if a == b:
            return a
        for t in ("node", "optint"):
            if all(x == t or (x, t) in COERCE for x in (a, b)):
                return t
        raise TranslateError("%s: branches have types %s and %s" % (what, a, b))

    # ---------------------------------------------------------------- expressions
    # every method returns (lean atom / pure term, type) and appends the binds it needs to `out`
    def bind(self, out, rhs):
        t = self.tmp()
        out.append("let %s ← %s" % (t, rhs))
        return t

    def truth(self, e, env, out):
        lean, ty = self.expr(e, env, out)
        if ty == "bool":
            return lean
        if ty in ("files", "keys", "ints", "nodes"):
            return "(pyTruthyList %s)" % lean
        if ty in ("dict_int", "dict_bool"):
            return "(!(%s).isEmpty)" % lean
        if ty == "int":
            return "(%s != 0)" % lean
        if ty == "self":
            return self.bind(out, "__bool__ %s" % lean)
        raise TranslateError("truth value of a %s (`%s`) is not in the dictionary" % (ty, _d(e)))

    def pure_or_block(self, e, env, want_bool=True):
        """translate a boolean expression in a fresh block -> (lines ending in `pure x`, atom or None if it needed binds)"""
        sub = []
        lean = self.truth(e, env, sub)
        return sub, lean

    def boolop(self, e, env, out):
        is_and = isinstance(e.op, ast.And)
        first = self.truth(e.values[0], env, out)
        rest = e.values[1:]
        if not rest:
            return first, "bool"
        rest_e = rest[0] if len(rest) == 1 else ast.BoolOp(op=e.op, values=rest)
        sub, lean = self.pure_or_block(rest_e, env)
        if not sub:
            return "(%s %s %s)" % (first, "&&" if is_and else "||", lean), "bool"
        # the right operand has effects: evaluate it only when Python does
        t = self.tmp()
        blk = indent(sub + ["pure %s" % lean], 4)
        if is_and:
            out.append("let %s ← (if %s then do" % (t, first))
            out.extend(blk)
            out.append("  else pure false)")
        else:
            out.append("let %s ← (if %s then pure true else do" % (t, first))
            out.extend(blk)
            out[-1] += ")"
        return t, "bool"

    def ifexp(self, e, env, out):
        c = self.truth(e.test, env, out)
        sa, sb = [], []
        a, at = self.expr(e.body, env, sa)
        b, bt = self.expr(e.orelse, env, sb)
        ty = self.unify(at, bt, "`%s`" % _d(e))
        a, b = self.coerce(a, at, ty, _d(e.body)), self.coerce(b, bt, ty, _d(e.orelse))
        if not sa and not sb:
            return "(if %s then %s else %s)" % (c, a, b), ty
        t = self.tmp()
        out.append("let %s ← (if %s then do" % (t, c))
        out.extend(indent(sa + ["pure %s" % a], 4))
        out.append("  else do")
        out.extend(indent(sb + ["pure %s" % b], 4))
        out[-1] += ")"
        return t, ty

    def isinstance_(self, e, env, out):
        if len(e.args) != 2 or e.keywords:
            raise TranslateError("isinstance with %d arguments" % len(e.args))
        x, ty = self.expr(e.args[0], env, out)
        cs = e.args[1].elts if isinstance(e.args[1], ast.Tuple) else [e.args[1]]
        parts = []
        for c in cs:
            if ty == "obj" and isinstance(c, ast.Attribute) and isinstance(c.value, ast.Name) and c.value.id == "h5py" and c.attr in H5_CLASSES:
                parts.append("pyIsInstance %s %s" % (x, H5_CLASSES[c.attr]))
            elif ty == "node" and isinstance(c, ast.Name) and c.id in NODE_CLASSES:
                parts.append("pyNodeIsInstance %s %s" % (x, NODE_CLASSES[c.id]))
            else:
                raise TranslateError("isinstance(<%s>, %s) is not in the dictionary" % (ty, _d(c)))
        if len(parts) == 1:
            return "(%s)" % parts[0], "bool"
        return "(" + " || ".join(parts) + ")", "bool"

    def compare(self, e, env, out):
        if len(e.ops) != 1:
            raise TranslateError("chained comparison `%s`" % _d(e))
        op, l, r = e.ops[0], e.left, e.comparators[0]
        # idioms on path strings
        if isinstance(op, (ast.Eq, ast.NotEq)):
            neg = "!" if isinstance(op, ast.NotEq) else ""
            if isinstance(l, ast.Subscript) and isinstance(l.slice, ast.Constant) and l.slice.value == 0 \
                    and isinstance(r, ast.Constant) and r.value == "/":
                p, pt = self.expr(l.value, env, out)
                if pt == "pypath":
                    t = self.bind(out, "pyPathIsAbs %s" % p)
                    return ("(!%s)" % t if neg else t), "bool"
            if isinstance(r, ast.Constant) and isinstance(r.value, str):
                p, pt = self.expr(l, env, out)
                if pt == "pypath" and r.value in ("/", "."):
                    return "(%s%s %s)" % (neg, {"/": "pyPathIsRoot", ".": "pyPathIsDot"}[r.value], p), "bool"
                raise TranslateError("comparison of a %s with the string %r is not in the dictionary" % (pt, r.value))
        if isinstance(op, (ast.In, ast.NotIn)):
            neg = isinstance(op, ast.NotIn)
            a, at = self.expr(l, env, out)
            b, bt = self.expr(r, env, out)
            if at == "key" and bt in ("dict_int", "dict_bool"):
                res = "pyDictIn %s %s" % (a, b)
            elif at == "path" and bt == "file":
                res = "pyFileIn %s %s" % (a, b)
            elif at == "key" and bt == "obj":
                res = self.bind(out, "pyIn %s %s" % (a, b))
                return ("(!%s)" % res if neg else res), "bool"
            else:
                raise TranslateError("`%s`: membership of a %s in a %s is not in the dictionary" % (_d(e), at, bt))
            return ("(!(%s))" % res if neg else "(%s)" % res), "bool"
        if isinstance(op, (ast.Is, ast.IsNot)):
            a, at = self.expr(l, env, out)
            if isinstance(r, ast.Constant) and r.value is None and at in ("optint", "none"):
                return "(%s(%s).isNone)" % ("!" if isinstance(op, ast.IsNot) else "", a), "bool"
            raise TranslateError("`%s`: object identity is not in the dictionary" % _d(e))
        a, at = self.expr(l, env, out)
        b, bt = self.expr(r, env, out)
        if at != bt:
            raise TranslateError("`%s`: comparison of a %s with a %s" % (_d(e), at, bt))
        if isinstance(op, (ast.Eq, ast.NotEq)) and at in ("int", "key", "path", "bool", "pypath", "optint"):
            return "(%s %s %s)" % (a, "==" if isinstance(op, ast.Eq) else "!=", b), "bool"
        sym = {ast.Lt: "<", ast.LtE: "≤", ast.Gt: ">", ast.GtE: "≥"}.get(type(op))
        if sym and at == "int":
            return "(decide (%s %s %s))" % (a, sym, b), "bool"
        raise TranslateError("`%s`: comparison %s on %s" % (_d(e), type(op).__name__, at))

    def subscript(self, e, env, out):
        base, bt = self.expr(e.value, env, out)
        sl = e.slice
        if bt in ELEM:
            i, it = self.expr(sl, env, out)
            if it != "int":
                raise TranslateError("`%s`: list index of type %s" % (_d(e), it))
            return self.bind(out, "pyListGet %s %s" % (base, i)), ELEM[bt]
        if bt == "file":
            p, pt = self.expr(sl, env, out)
            if pt != "path":
                raise TranslateError("`%s`: an h5py file is indexed by a %s" % (_d(e), pt))
            return self.bind(out, "pyFileGet %s %s" % (base, p)), "obj"
        if bt == "obj":
            if isinstance(sl, ast.Tuple) and not sl.elts:
                return self.bind(out, "pyGetItemUnit %s" % base), "obj"
            k, kt = self.expr(sl, env, out)
            if kt == "key":
                return self.bind(out, "pyAttrsGet %s %s" % (base, k)), "obj"
            raise TranslateError("`%s`: an h5py object is indexed by a %s" % (_d(e), kt))
        if bt in ("dict_int", "dict_bool"):
            k, kt = self.expr(sl, env, out)
            if kt != "key":
                raise TranslateError("`%s`: dict key of type %s" % (_d(e), kt))
            return self.bind(out, "pyDictGet %s %s" % (base, k)), ("int" if bt == "dict_int" else "bool")
        raise TranslateError("`%s`: subscript of a %s is not in the dictionary" % (_d(e), bt))

    def attribute(self, e, env, out):
        base, bt = self.expr(e.value, env, out)
        if bt == "self" and e.attr in SELF_ATTRS:
            f, ty = SELF_ATTRS[e.attr]
            return "%s.%s" % (base, f), ty
        if bt == "obj" and e.attr == "attrs":
            return self.bind(out, "pyGetAttrs %s" % base), "obj"
        if bt == "node" and e.attr == "_cidx":
            return self.bind(out, "pyNodeCidx %s" % base), "int"
        if bt == "node" and e.attr == "_gpath":
            return self.bind(out, "pyNodeGpath %s" % base), "path"
        raise TranslateError("attribute `%s` of a %s is not in the dictionary" % (e.attr, bt))

    def call_known(self, fname, recv, args, env, out, what):
        cls, ptys, rty = FUNCS[fname]
        if len(args) != len(ptys):
            raise TranslateError("%s: %d arguments for %s" % (what, len(args), fname))
        largs = []
        for a, want in zip(args, ptys):
            x, t = self.expr(a, env, out)
            largs.append(self.coerce(x, t, want, "argument `%s` of %s" % (_d(a), fname)))
        if cls is not None:
            if recv is None:
                raise TranslateError("%s: method %s called without receiver" % (what, fname))
            r, rt = recv
            if rt == "node":
                r = self.bind(out, "pyAsInner %s" % r)
            elif rt != "self":
                raise TranslateError("%s: method %s called on a %s" % (what, fname, rt))
            largs = [r] + largs
        return self.bind(out, " ".join([self.lname(fname)] + largs)), rty

    def call(self, e, env, out):
        f = e.func
        what = "`%s`" % _d(e)
        if isinstance(f, ast.Name):
            if f.id == "isinstance":
                return self.isinstance_(e, env, out)
            if e.keywords and f.id != "sorted":
                raise TranslateError("keyword arguments in %s" % what)
            if f.id == "len" and len(e.args) == 1:
                x, t = self.expr(e.args[0], env, out)
                if t in ELEM or t in ("dict_int", "dict_bool"):
                    return "((%s).length : Int)" % x, "int"
                raise TranslateError("len of a %s" % t)
            if f.id == "range" and len(e.args) in (1, 2):
                xs = [self.expr(a, env, out) for a in e.args]
                if any(t != "int" for _, t in xs):
                    raise TranslateError("%s: range over non-int" % what)
                lo, hi = ("0", xs[0][0]) if len(xs) == 1 else (xs[0][0], xs[1][0])
                return "(pyRange %s %s)" % (lo, hi), "ints"
            if f.id == "reversed" and len(e.args) == 1:
                x, t = self.expr(e.args[0], env, out)
                if t in ELEM:
                    return "(pyReversed %s)" % x, t
                raise TranslateError("reversed of a %s" % t)
            if f.id == "min" and len(e.args) == 2:
                a, at = self.expr(e.args[0], env, out)
                b, bt = self.expr(e.args[1], env, out)
                if at == bt == "int":
                    return "(min %s %s)" % (a, b), "int"
                raise TranslateError("%s: min of %s, %s" % (what, at, bt))
            if f.id == "bool" and len(e.args) == 1:
                return self.truth(e.args[0], env, out), "bool"
            if f.id == "all" and len(e.args) == 1:
                m = e.args[0]
                if isinstance(m, ast.Call) and isinstance(m.func, ast.Name) and m.func.id == "map" and len(m.args) == 2 \
                        and isinstance(m.args[0], ast.Name) and m.args[0].id == "bool":
                    x, t = self.expr(m.args[1], env, out)
                    if t == "files":
                        return "((%s).all pyFileOpen)" % x, "bool"
                raise TranslateError("%s: only all(map(bool, <files>)) is in the dictionary" % what)
            if f.id == "_is_del_mark" and len(e.args) == 1:
                x, t = self.expr(e.args[0], env, out)
                if t == "obj":
                    return "(pyIsDelMark %s)" % x, "bool"
                raise TranslateError("%s: _is_del_mark of a %s" % (what, t))
            if f.id in FUNCS and FUNCS[f.id][0] is None:
                return self.call_known(f.id, None, e.args, env, out, what)
            if f.id in ("IH5Group", "IH5Dataset"):
                return self.construct(f.id, e, env, out)
            raise TranslateError("call of %s is not in the dictionary" % f.id)
        if isinstance(f, ast.Attribute):
            if e.keywords:
                raise TranslateError("keyword arguments in %s" % what)
            # idiom: <path>.strip("/").split("/")
            if f.attr == "split" and len(e.args) == 1 and isinstance(e.args[0], ast.Constant) and e.args[0].value == "/" \
                    and isinstance(f.value, ast.Call) and isinstance(f.value.func, ast.Attribute) and f.value.func.attr == "strip" \
                    and len(f.value.args) == 1 and isinstance(f.value.args[0], ast.Constant) and f.value.args[0].value == "/":
                p, pt = self.expr(f.value.func.value, env, out)
                if pt == "pypath":
                    return "(pyPathSegs %s)" % p, "keys"
                raise TranslateError("%s: strip/split of a %s" % (what, pt))
            recv, rt = self.expr(f.value, env, out)
            if f.attr in FUNCS and FUNCS[f.attr][0] is not None and rt in ("self", "node"):
                return self.call_known(f.attr, (recv, rt), e.args, env, out, what)
            if f.attr == "_abs_path" and rt == "self" and len(e.args) == 1:
                x, t = self.expr(e.args[0], env, out)
                if t == "key":
                    return "(pyAbsKey %s %s)" % (recv, x), "path"
                if t == "pypath":
                    return "(pyAbsPath %s %s)" % (recv, x), "path"
                raise TranslateError("%s: _abs_path of a %s" % (what, t))
            if f.attr == "keys" and rt == "obj" and not e.args:
                return self.bind(out, "pyKeys %s" % recv), "keys"
            if f.attr == "get" and rt in ("dict_int", "dict_bool") and len(e.args) == 2:
                k, kt = self.expr(e.args[0], env, out)
                k = self.coerce(k, kt, "key", "key of %s" % what)
                dflt = e.args[1]
                if isinstance(dflt, ast.Constant) and dflt.value is None and rt == "dict_int":
                    return "(pyDictGetOpt %s %s)" % (recv, k), "optint"
                dv, dt = self.expr(dflt, env, out)
                if (rt, dt) in (("dict_int", "int"), ("dict_bool", "bool")):
                    return "(pyDictGetD %s %s %s)" % (recv, k, dv), dt
                raise TranslateError("%s: default of type %s" % (what, dt))
            raise TranslateError("method `%s` of a %s is not in the dictionary" % (f.attr, rt))
        raise TranslateError("unsupported call %s" % what)

    def construct(self, cname, e, env, out):
        what = "`%s`" % _d(e)
        if e.keywords or not e.args:
            raise TranslateError("%s: constructor arguments" % what)
        rec, rt = self.expr(e.args[0], env, out)
        if rt != "record":
            raise TranslateError("%s: first argument is a %s, expected the record" % (what, rt))
        rest = e.args[1:]
        if cname == "IH5Group":
            if len(rest) == 0:
                gp, ci = self.group_defaults
            elif len(rest) == 2:
                p, pt = self.expr(rest[0], env, out)
                c, ct = self.expr(rest[1], env, out)
                if (pt, ct) != ("path", "int"):
                    raise TranslateError("%s: IH5Group(record, <%s>, <%s>)" % (what, pt, ct))
                gp, ci = p, "(some %s)" % c
            else:
                raise TranslateError("%s: IH5Group with %d arguments" % (what, len(e.args)))
            return self.bind(out, "pyMkGroup %s %s %s" % (rec, gp, ci)), "node"
        if len(rest) != 2:
            raise TranslateError("%s: IH5Dataset with %d arguments" % (what, len(e.args)))
        p, pt = self.expr(rest[0], env, out)
        c, ct = self.expr(rest[1], env, out)
        if (pt, ct) != ("path", "int"):
            raise TranslateError("%s: IH5Dataset(record, <%s>, <%s>)" % (what, pt, ct))
        return self.bind(out, "pyMkDataset %s %s %s" % (rec, p, c)), "node"

    def dictcomp(self, e, env, out):
        what = "`%s`" % _d(e)
        if len(e.generators) != 1 or e.generators[0].is_async:
            raise TranslateError("%s: comprehension with several generators" % what)
        g = e.generators[0]
        if not (isinstance(g.target, ast.Tuple) and len(g.target.elts) == 2 and all(isinstance(x, ast.Name) for x in g.target.elts)
                and isinstance(e.key, ast.Name) and isinstance(e.value, ast.Name)
                and [e.key.id, e.value.id] == [x.id for x in g.target.elts]):
            raise TranslateError("%s: only `{k: v for k, v in <items> if <cond>}` is in the dictionary" % what)
        kn, vn = e.key.id, e.value.id
        it = g.iter
        srt = False
        if isinstance(it, ast.Call) and isinstance(it.func, ast.Name) and it.func.id == "sorted" and len(it.args) == 1:
            kw = it.keywords
            ok = len(kw) == 1 and kw[0].arg == "key" and isinstance(kw[0].value, ast.Lambda) and len(kw[0].value.args.args) == 1 \
                and isinstance(kw[0].value.body, ast.Subscript) and isinstance(kw[0].value.body.value, ast.Name) \
                and kw[0].value.body.value.id == kw[0].value.args.args[0].arg \
                and isinstance(kw[0].value.body.slice, ast.Constant) and kw[0].value.body.slice.value == 0
            if not ok:
                raise TranslateError("%s: only sorted(<items>, key=lambda x: x[0]) is in the dictionary" % what)
            srt, it = True, it.args[0]
        if not (isinstance(it, ast.Call) and isinstance(it.func, ast.Attribute) and it.func.attr == "items" and not it.args):
            raise TranslateError("%s: iteration over `%s`" % (what, _d(it)))
        d, dt = self.expr(it.func.value, env, out)
        if dt not in ("dict_int", "dict_bool"):
            raise TranslateError("%s: items() of a %s" % (what, dt))
        vt = "int" if dt == "dict_int" else "bool"
        items = "(pySortedItems %s)" % d if srt else d
        if not g.ifs:
            return items, dt
        cond = g.ifs[0] if len(g.ifs) == 1 else ast.BoolOp(op=ast.And(), values=list(g.ifs))
        # auxiliary definition for the condition
        self.nfilter += 1
        aname = "%s.filter%d" % (self.lname(self.name), self.nfilter)
        free = [n for n in names_read([cond]) if n in env and n not in (kn, vn)]
        free = self.sort_closure(free, env)
        benv = {n: env[n] for n in free}
        benv[kn] = Var(self.lname(kn), "key")
        benv[vn] = Var(self.lname(vn), vt)
        saved = self.ntmp
        self.ntmp = 0
        body = []
        c = self.truth(cond, benv, body)
        body.append("pure %s" % c)
        self.ntmp = saved
        params = " ".join("(%s : %s)" % (env[n].lean, LEAN_TY[env[n].ty]) for n in free)
        txt = ["/-- `%s`: the condition of the comprehension in l. %d -/" % (self.name, e.lineno),
               "def %s %s (kv : Key × %s) : Except PyErr Bool :=" % (aname, params, LEAN_TY[vt]),
               "  match kv with", "  | (%s, %s) => do" % (benv[kn].lean, benv[vn].lean)] + indent(body, 4)
        self.aux.append("\n".join(txt))
        t = self.bind(out, "pyFilterM (%s) %s" % (" ".join([aname] + [env[n].lean for n in free]), items))
        return t, dt

    def expr(self, e, env, out):
        if isinstance(e, ast.Name):
            if e.id in env:
                return env[e.id].lean, env[e.id].ty
            if e.id in self.consts:
                return e.id, "key"
            raise TranslateError("unknown name %s" % e.id)
        if isinstance(e, ast.Constant):
            v = e.value
            if isinstance(v, bool):
                return ("true" if v else "false"), "bool"
            if v is None:
                return "none", "none"
            if isinstance(v, int):
                return ("%d" % v if v >= 0 else "(%d)" % v), "int"
            raise TranslateError("constant %r is not in the dictionary" % (v,))
        if isinstance(e, ast.UnaryOp):
            if isinstance(e.op, ast.Not):
                return "(!%s)" % self.truth(e.operand, env, out), "bool"
            if isinstance(e.op, ast.USub):
                x, t = self.expr(e.operand, env, out)
                if t == "int":
                    return "(-%s)" % x, "int"
            raise TranslateError("unsupported unary operator in `%s`" % _d(e))
        if isinstance(e, ast.BinOp) and isinstance(e.op, (ast.Add, ast.Sub)):
            a, at = self.expr(e.left, env, out)
            b, bt = self.expr(e.right, env, out)
            if at == bt == "int":
                return "(%s %s %s)" % (a, "+" if isinstance(e.op, ast.Add) else "-", b), "int"
            raise TranslateError("`%s`: arithmetic on %s, %s" % (_d(e), at, bt))
        if isinstance(e, ast.BoolOp):
            return self.boolop(e, env, out)
        if isinstance(e, ast.IfExp):
            return self.ifexp(e, env, out)
        if isinstance(e, ast.Compare):
            return self.compare(e, env, out)
        if isinstance(e, ast.Subscript):
            return self.subscript(e, env, out)
        if isinstance(e, ast.Attribute):
            return self.attribute(e, env, out)
        if isinstance(e, ast.Call):
            return self.call(e, env, out)
        if isinstance(e, ast.DictComp):
            return self.dictcomp(e, env, out)
        if isinstance(e, ast.Dict) and not e.keys:
            return "[]", "dict_empty"
        if isinstance(e, ast.List):
            xs = [self.expr(x, env, out) for x in e.elts]
            tys = {t for _, t in xs}
            if xs and tys <= {"node", "self", "obj"}:
                return "[" + ", ".join(self.coerce(x, t, "node", _d(e)) for x, t in xs) + "]", "nodes"
            raise TranslateError("list literal `%s` is not in the dictionary" % _d(e))
        raise TranslateError("unsupported expression `%s`" % _d(e))

    # ---------------------------------------------------------------- statements
    def sort_closure(self, names, env):
        def key(n):
            return (0 if env[n].ty == "self" else 1, self.order.index(n) if n in self.order else 10 ** 6)
        return sorted(names, key=key)

    def sort_state(self, names, env):
        def key(n):
            return (TY_RANK.index(env[n].ty) if env[n].ty in TY_RANK else 99, self.order.index(n) if n in self.order else 10 ** 6)
        return sorted(names, key=key)

    def ann_type(self, ann):
        if ann is None:
            return None
        s = _d(ann).replace(" ", "")
        return {"Dict[str,int]": "dict_int", "Dict[str,bool]": "dict_bool", "dict[str,int]": "dict_int",
                "dict[str,bool]": "dict_bool"}.get(s)

    def assign_name(self, name, lean, ty, env, out, ann=None):
        want = self.ann_type(ann)
        if ty == "dict_empty":
            if want is None:
                raise TranslateError("empty dict bound to `%s` without a Dict[str, int|bool] annotation" % name)
            ty = want
            lean = "([] : %s)" % LEAN_TY[ty]
        if ty in ("none", "record"):
            raise TranslateError("`%s` is bound to a %s" % (name, ty))
        self.note(name)
        ln = self.lname(name)
        out.append("let %s : %s := %s" % (ln, LEAN_TY[ty], lean))
        env[name] = Var(ln, ty)

    def simple(self, s, env, out):
        """a statement without control flow; extends env and out"""
        if isinstance(s, ast.Expr):
            v = s.value
            if isinstance(v, ast.Constant):
                return
            if isinstance(v, ast.Call) and isinstance(v.func, ast.Attribute) and isinstance(v.func.value, ast.Name) \
                    and v.func.attr == "append" and len(v.args) == 1 and v.func.value.id in env and env[v.func.value.id].ty in ELEM:
                n = v.func.value.id
                x, t = self.expr(v.args[0], env, out)
                x = self.coerce(x, t, ELEM[env[n].ty], "`%s`" % _d(v))
                out.append("let %s := %s ++ [%s]" % (env[n].lean, env[n].lean, x))
                return
            if isinstance(v, ast.Call):
                x, t = self.expr(v, env, out)
                return
            raise TranslateError("unsupported expression statement `%s`" % _d(s))
        if isinstance(s, ast.AnnAssign):
            if s.value is None:
                return
            targets, value, ann = [s.target], s.value, s.annotation
        elif isinstance(s, ast.Assign):
            targets, value, ann = s.targets, s.value, None
        else:
            raise TranslateError("unsupported statement `%s`" % _d(s))
        if len(targets) != 1:
            raise TranslateError("chained assignment `%s`" % _d(s))
        t = targets[0]
        if isinstance(t, ast.Name):
            x, ty = self.expr(value, env, out)
            self.assign_name(t.id, x, ty, env, out, ann)
            return
        if isinstance(t, ast.Tuple) and isinstance(value, ast.Tuple) and len(t.elts) == len(value.elts) \
                and all(isinstance(x, ast.Name) for x in t.elts):
            vals = []
            for v in value.elts:  # all right-hand sides first
                x, ty = self.expr(v, env, out)
                tmp = self.tmp()
                out.append("let %s : %s := %s" % (tmp, LEAN_TY[ty], x))
                vals.append((tmp, ty))
            for n, (x, ty) in zip(t.elts, vals):
                self.assign_name(n.id, x, ty, env, out)
            return
        if isinstance(t, ast.Subscript) and isinstance(t.value, ast.Name) and t.value.id in env \
                and env[t.value.id].ty in ("dict_int", "dict_bool"):
            d = env[t.value.id]
            k, kt = self.expr(t.slice, env, out)
            v, vt = self.expr(value, env, out)
            if kt != "key" or vt != ("int" if d.ty == "dict_int" else "bool"):
                raise TranslateError("`%s`: %s[%s] = %s" % (_d(s), d.ty, kt, vt))
            out.append("let %s := pyDictSet %s %s %s" % (d.lean, d.lean, k, v))
            return
        raise TranslateError("unsupported assignment `%s`" % _d(s))

    def block(self, body, env, ctl, fall):
        """statement list -> lines of a `do` block (ending in its result). `ctl`: what return / continue mean here;
        `fall(env)`: the lines for leaving the block through its end."""
        out = []
        env = dict(env)
        body = strip_doc(list(body))
        for idx, s in enumerate(body):
            rest = body[idx + 1:]
            if isinstance(s, ast.Return):
                if ctl.get("noreturn"):
                    raise TranslateError("`return` inside a joined branch")
                if s.value is None:
                    if ctl["rty"] != "unit":
                        raise TranslateError("bare return in a function returning %s" % ctl["rty"])
                    val = "()"
                else:
                    x, t = self.expr(s.value, env, out)
                    val = self.coerce(x, t, ctl["rty"], "`%s`" % _d(s))
                out.append(ctl["ret"] % val)
                return out
            if isinstance(s, ast.Continue):
                if "cont" not in ctl or ctl.get("noreturn"):
                    raise TranslateError("`continue` outside a translated loop")
                out.extend(ctl["cont"](env))
                return out
            if isinstance(s, ast.Raise):
                exc = s.exc
                name = exc.func.id if isinstance(exc, ast.Call) and isinstance(exc.func, ast.Name) else (exc.id if isinstance(exc, ast.Name) else None)
                if name not in EXC:
                    raise TranslateError("`%s`: exception is not in the dictionary" % _d(s))
                out.append(".error %s" % EXC[name])
                return out
            if isinstance(s, ast.Assert):
                c = self.truth(s.test, env, out)
                out.append("if !%s then .error .assertionError" % c)
                out.append("else do")
                out.extend(indent(self.block(rest, env, ctl, fall), 2))
                return out
            if isinstance(s, ast.If):
                c = self.truth(s.test, env, out)
                if exits(s.body) or exits(s.orelse):
                    # a branch may leave: the rest of the block continues inside the branches
                    def cont_fall(e2, rest=rest):
                        return self.block(rest, e2, ctl, fall)
                    a = self.block(s.body, env, ctl, cont_fall)
                    b = self.block(s.orelse, env, ctl, cont_fall)
                    out.append("if %s then do" % c)
                    out.extend(indent(a, 2))
                    out.append("else do")
                    out.extend(indent(b, 2))
                    return out
                # no branch leaves: join the names both branches may have changed
                ab, bb = assigned(s.body), assigned(s.orelse)
                join = [n for n in dict.fromkeys(ab + bb) if n in env or (n in ab and n in bb)]
                local = [n for n in dict.fromkeys(ab + bb) if n not in join]
                for n in local:
                    if n in names_read(rest):
                        raise TranslateError("`%s` is bound in one branch only and used afterwards" % n)
                envs = []

                def join_fall(e2, join=join, envs=envs):
                    envs.append(e2)
                    return ["pure (%s)" % ", ".join(e2[n].lean for n in join)] if join else ["pure ()"]
                jctl = dict(ctl, noreturn=True)
                a = self.block(s.body, env, jctl, join_fall)
                b = self.block(s.orelse, env, jctl, join_fall)
                for n in join:
                    tys = {e2[n].ty for e2 in envs}
                    if len(tys) != 1:
                        raise TranslateError("`%s` has types %s after the branches" % (n, sorted(tys)))
                    self.note(n)
                    env[n] = Var(self.lname(n), tys.pop())
                pat = "(%s)" % ", ".join(env[n].lean for n in join) if len(join) != 1 else env[join[0]].lean
                out.append("let %s ← (if %s then do" % (pat if join else "_", c))
                out.extend(indent(a, 4))
                out.append("  else do")
                out.extend(indent(b, 4))
                out[-1] += ")"
                continue
            if isinstance(s, ast.For):
                self.for_(s, env, out, ctl, rest, fall)
                return out
            self.simple(s, env, out)
        out.extend(fall(env))
        return out

    def for_(self, s, env, out, ctl, rest, fall):
        if s.orelse:
            raise TranslateError("for/else")
        if not isinstance(s.target, ast.Name):
            raise TranslateError("loop target `%s`" % _d(s.target))
        it, itt = self.expr(s.iter, env, out)
        if itt not in ELEM:
            raise TranslateError("iteration over a %s (`%s`)" % (itt, _d(s.iter)))
        lv = s.target.id
        mut = assigned(s.body)
        state = self.sort_state([n for n in mut if n in env and n != lv], env)
        for n in mut:
            if n not in env and n != lv and n in names_read(rest):
                raise TranslateError("`%s` is first bound inside the loop and used after it" % n)
        if lv in names_read(rest) and lv not in env:
            raise TranslateError("loop variable `%s` is used after the loop" % lv)
        free = [n for n in names_read(s.body) if n in env and n not in state and n != lv]
        free = self.sort_closure(free, env)
        with_ret = has_return(s.body)
        self.nloop += 1
        aname = "%s.loop%d" % (self.lname(self.name), self.nloop)
        sty = " × ".join(LEAN_TY[env[n].ty] for n in state) if state else "Unit"

        def pat(e2):
            return "(%s)" % ", ".join(e2[n].lean for n in state) if state else "()"
        benv = {n: env[n] for n in free + state}
        self.note(lv)
        benv[lv] = Var(self.lname(lv), ELEM[itt])
        if with_ret:
            rty_l = LEAN_TY[ctl["rty"]]
            res_ty = "PyStep (%s) (%s)" % (rty_l, sty)
            bctl = dict(rty=ctl["rty"], ret="pure (.ret %s)", cont=lambda e2: ["pure (.next %s)" % pat(e2)])
        else:
            res_ty = sty
            bctl = dict(rty=ctl["rty"], ret=None, cont=lambda e2: ["pure %s" % pat(e2)], noreturn_loop=True)
        saved = self.ntmp
        self.ntmp = 0
        body = self.block(s.body, benv, bctl, bctl["cont"])
        self.ntmp = saved
        params = " ".join("(%s : %s)" % (env[n].lean, LEAN_TY[env[n].ty]) for n in free)
        txt = ["/-- `%s`: body of the loop `for %s in %s` (l. %d); state = %s -/" % (self.name, lv, _d(s.iter), s.lineno, pat(env)),
               "def %s %s (st : %s) (%s : %s) :" % (aname, params, sty, benv[lv].lean, LEAN_TY[ELEM[itt]]),
               "    Except PyErr (%s) :=" % res_ty,
               "  match st with", "  | %s => do" % pat(env)] + indent(body, 4)
        self.aux.append("\n".join(txt))
        callee = "(%s)" % " ".join([aname] + [env[n].lean for n in free])
        if with_ret:
            t = self.bind(out, "pyForRet %s %s %s" % (it, pat(env), callee))
            out.append("match %s with" % t)
            out.append("| .ret v => %s" % (ctl["ret"] % "v"))
            out.append("| .next %s => do" % pat(env))
            out.extend(indent(self.block(rest, env, ctl, fall), 2))
        else:
            out.append("let %s ← pyFor %s %s %s" % (pat(env), it, pat(env), callee))
            out.extend(self.block(rest, env, ctl, fall))

    # ---------------------------------------------------------------- the function
    def translate(self):
        args = [a.arg for a in self.fdef.args.args]
        if self.fdef.args.vararg or self.fdef.args.kwarg or self.fdef.args.kwonlyargs or self.fdef.args.defaults:
            raise TranslateError("%s: unsupported parameter list" % self.name)
        ptys = (["self"] if self.cls else []) + self.ptys
        if len(args) != len(ptys):
            raise TranslateError("%s: %d parameters, expected %d" % (self.name, len(args), len(ptys)))
        env = {}
        for a, t in zip(args, ptys):
            self.note(a)
            env[a] = Var(self.lname(a), t)

        def fall(e2):
            if self.rty == "unit":
                return ["pure ()"]
            raise TranslateError("%s may fall off its end (returns None)" % self.name)
        body = self.block(self.fdef.body, env, dict(rty=self.rty, ret="pure %s"), fall)
        params = " ".join("(%s : %s)" % (env[a].lean, LEAN_TY[env[a].ty]) for a in args)
        where = ("%s.%s" % (self.cls, self.name)) if self.cls else self.name
        txt = ["/-- `%s` (%s l. %d-%d) -/" % (where, OVERLAY, self.fdef.lineno, self.fdef.end_lineno),
               "def %s %s : Except PyErr (%s) := do" % (self.lname(self.name), params, LEAN_TY[self.rty])] + indent(body, 2)
        return "\n\n".join(self.aux + ["\n".join(txt)])


def _src():
    path = os.path.join(envshim.REPO, OVERLAY)
    try:
        return ast.parse(open(path).read(), filename=path)
    except (OSError, SyntaxError) as e:
        raise TranslateError("cannot parse %s: %s" % (OVERLAY, e))


def module_consts(tree):
    """module-level string constants: only SUBST_KEY is used"""
    out = {}
    for n in tree.body:
        tgt = val = None
        if isinstance(n, ast.Assign) and len(n.targets) == 1 and isinstance(n.targets[0], ast.Name):
            tgt, val = n.targets[0].id, n.value
        elif isinstance(n, ast.AnnAssign) and isinstance(n.target, ast.Name) and n.value is not None:
            tgt, val = n.target.id, n.value
        if tgt == "SUBST_KEY":
            if not (isinstance(val, ast.Constant) and isinstance(val.value, str)):
                raise TranslateError("SUBST_KEY is not a string literal")
            out[tgt] = (val.value, n.lineno)
    if "SUBST_KEY" not in out:
        raise TranslateError("module constant SUBST_KEY not found")
    return out


def group_defaults(tree):
    """defaults of IH5Group.__init__(self, record, gpath=.., creation_idx=..) as Lean terms"""
    init = find_func(find_class(tree, "IH5Group"), "__init__")
    a = init.args
    names = [x.arg for x in a.args]
    if names[:2] != ["self", "record"] or len(names) != 4 or len(a.defaults) != 2 or a.vararg or a.kwarg or a.kwonlyargs:
        raise TranslateError("IH5Group.__init__: expected (self, record, gpath=.., creation_idx=..)")
    gp, ci = a.defaults
    if not (isinstance(gp, ast.Constant) and gp.value == "/"):
        raise TranslateError("IH5Group.__init__: default of %s is not \"/\"" % names[2])
    if isinstance(ci, ast.Constant) and ci.value is None:
        cil = "none"
    elif isinstance(ci, ast.Constant) and isinstance(ci.value, int) and not isinstance(ci.value, bool):
        cil = "(some %s)" % ("%d" % ci.value if ci.value >= 0 else "(%d)" % ci.value)
    else:
        raise TranslateError("IH5Group.__init__: default of %s" % names[3])
    return "([] : Path)", cil


def gen_overlayscan():
    tree = _src()
    consts = module_consts(tree)
    gd = group_defaults(tree)
    parts = [HEADER]
    sk, ln = consts["SUBST_KEY"]
    parts.append("/-- `SUBST_KEY` (%s l. %d) -/\ndef SUBST_KEY : Key := %s" % (OVERLAY, ln, lean_string(sk)))
    for name in ORDER:
        cls = FUNCS[name][0]
        scope = find_class(tree, cls) if cls else tree
        fdef = find_func(scope, name)
        try:
            parts.append(Fn(name, fdef, consts, gd).translate())
        except TranslateError as e:
            raise TranslateError("%s (l. %d): %s" % (name, fdef.lineno, e))
    return "\n\n".join(parts) + "\n" + FOOTER


def _path(lean_mod):
    return os.path.join(lean_mod.LEAN, "MetadorModel", "Gen", "OverlayScan.lean")


def write(lean_mod):
    """regenerate Gen/OverlayScan.lean; returns an info string"""
    text = gen_overlayscan()
    changed = lean_mod.write_if_changed(_path(lean_mod), text)
    return "Gen/OverlayScan.lean %s (%d lines, %d functions)" % ("rewritten" if changed else "unchanged", text.count("\n"), len(ORDER))


def write_stub(lean_mod, why):
    """what is written when the source is not understood: no definitions, so that the bridge cannot build"""
    text = HEADER + "\n/-! NOT TRANSLATED: %s -/\n" % why.replace("-/", "- /") + FOOTER
    lean_mod.write_if_changed(_path(lean_mod), text)


if __name__ == "__main__":
    print(gen_overlayscan())
