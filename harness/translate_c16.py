"""Python-AST -> Lean translator for the plugin-group functions of C16 (extends the translated part
`gen_pluginref` / `gen_metaclass` of harness/translate.py, which is unchanged).

Regenerates `lean/MetadorModel/Gen/PluginGroupFns.lean` from the current source of `envshim.REPO`
(honours METADOR_REPO) on every `./check C16` run (`write(lean)`, called by `translate(ctx)` in
`harness/props/c16.py`). The bridge theorems of `lean/MetadorModel/Bridge/PluginGroupFns*.lean`
(`Gen.PluginGroupFns.f … = Plugin.f …`) are re-checked by `lake build` on every run, so the C16
theorems, which are about `Model/Plugin.lean`, transfer to what the source says now.

Translated (line numbers of the pinned tree; everything is found by name, not by line number)
  src/metador_core/plugin/types.py
      the `str` constants `DIGIT`, `SEMVER_STR_REGEX`, `LETTER`, `ALNUM`, `LETSEP`, `NSSEP`, `NAME`,
      `QUAL_NAME`, `EP_NAME_VER_SEP`, `EP_NAME_REGEX` (l. 13-14, 31-46): the f-strings are assembled at
      translation time, every constant that a `FullMatch` pattern is built from is parsed on its own
      with Python's `re._parser` and mapped node by node to a `Re`
      `class SemVerStr(FullMatch, pattern=…)`, `class EPName(FullMatch, pattern=…)` (l. 17, 50)
      `to_semver_str` (l. 21-22), `from_semver_str` (l. 25-26), `to_ep_name` (l. 54-56),
      `from_ep_name` (l. 59-62), `ep_name_has_namespace` (l. 65-68)
  src/metador_core/plugin/interface.py  class PluginGroup
      `_add_ep` (l. 114-139), `versions` (l. 175-183), `resolve` (l. 185-191), `__contains__`
      (l. 240-247), `__getitem__` (l. 249-252), `keys` (l. 254-257), `_get_unsafe` (l. 269-283),
      `get` (l. 296-314; the two `@overload` stubs are ignored)
  src/metador_core/plugin/util.py
      `register_in_group` and its inner `manual_register` (l. 58-95)
  src/metador_core/schema/plugins.py  class PluginRef: only *which* rich comparisons it defines (the
      methods themselves are `Gen/PluginRef.lean`, harness/translate.py): `list.sort()` / `in` are
      translated through `Gen.PluginRef.ge` / `Gen.PluginRef.eq`, `supports` through
      `Gen.PluginRef.supports`

Value dictionary (fixed; Lean side: `lean/MetadorModel/Py/PluginPy.lean`, table in its header)
  str that is matched / split / built ↦ Str (List Char); str stored in a reference or used as key of
      `_VERSIONS` ↦ String (`String.ofList` where a Str is stored); non-negative int ↦ Nat
  `SemVerTuple` ↦ Plugin.Ver; `Optional[SemVerTuple]` ↦ Option Ver; iterating a SemVerTuple ↦ pyVerIter
  `x is None` / `x is not None` / truth value of an Optional variable as an `if` test ↦ `match` on the
      Option that narrows the variable in both branches (None is falsy; a version 3-tuple, a reference
      and a class are truthy; an `Optional[List]` is truthy if it is `some` non-empty list)
  `if x := e:` ↦ the same with a `let`; `a and b` / `a or b` as an `if` test whose operands call
      something that can raise, or narrow ↦ nested `if`s in Python's short-circuit order; elsewhere
      `and`/`or`/`not` on truth values ↦ `&&`/`||`/`!`;  `a if c else b` at statement level ↦ `if`
  `AnyPluginRef(group=g, name=n, version=v)`, `self.PluginRef(name=n, version=v)` (group-bound
      subclass: `group` is the group's name) ↦ Ref.mk;  `self.name` ↦ grp;  `r.name` ↦ r.name
  `type(self) is [not] PluginGroup` ↦ the Bool parameter isBase
  `self._VERSIONS` ↦ the current Table: `.get(k)` ↦ pyDictGet, `.get(k, l)` ↦ (pyDictGet ..).getD l, `k in d` ↦ pyDictHas, `d[k]` ↦
      pyDictGetItem (KeyError), `d[k] = l` ↦ pyDictSet, `d[k].append(x)` ↦ pyDictSet t k (l ++ [x]),
      `d[k].sort()` ↦ pyDictSet t k (pySort Gen.PluginRef.ge l), `.values()` ↦ pyDictValues
  `x or []` (x Optional[List]) ↦ pyOrList; `list(l)` ↦ l; `l[-1]` ↦ pyLast (IndexError);
      `[x for x in l if c]` ↦ l.filter; `x in l` ↦ pyIn Gen.PluginRef.eq x l
  `a.supports(b)` ↦ truthy (Gen.PluginRef.supports a b)
  a generator function ↦ the list of what it yields: `for x in e: body` ↦ e.flatMap (fun x => body),
      `yield from l` ↦ l, `yield x` ↦ [x], consecutive statements ↦ ++
  `C(s)`, C a `FullMatch` class ↦ pyFullMatch C_pattern s (TypeError); patterns ↦ Re, see PluginPy.lean
  `s.split(sep)` / `s.split(sep, n)` (sep a non-empty constant) ↦ pySplit / pySplitMax; `a, b = l` ↦
      `match l with | [a, b] => … | _ => ValueError`; `sep.join(l)` ↦ pyJoin; f-string of str parts, `a + b` on str ↦ ++
  `map(str, ver)` ↦ (pyVerIter ver).map pyStrNat; `map(int, l)` ↦ pyMapM pyInt l; `tuple(..)` returned
      as `SemVerTuple` ↦ pyVerOfTuple; `len(l)` ↦ l.length; `<`,`<=`,`>`,`>=`,`==`,`!=` on int ↦ decide
  `key` of `__contains__`/`__getitem__`/`get` ↦ PyKey; `plugin_args(key)` ↦ (key.name, key.version);
      `plugin_args(key, version)` ↦ pyPluginArgs; `isinstance(key, str)` ↦ key.isStr
  a plugin class ↦ its reference: `self._LOADED_PLUGINS[ref]` ↦ ref, `UndefVersion._mark_class(c)` ↦ c,
      `cast(T, c)` ↦ c; the class handed to `register_in_group` ↦ (Plugin.name, Plugin.version) : Str × Ver
  `is_notebook()` / `is_pluginlike(plugin, check_group=False)` ↦ Bool parameters notebook / pluginlike
  `raise E(..)` ↦ .error .e (message dropped); `try: x = f(..) / except E: h` ↦ `match f .. with
      | .error .e => h | .error e => .error e | .ok x => …`; a function that updates `_VERSIONS` returns
      the new Table (its own return value is dropped); `return manual_register` (the decorator form) ↦
      the Table unchanged
  statements after an `if`/`try` are translated once per branch (the translation is a tree of cases)

NOT translated (tied by the correspondence run / oracle only)
  `plugin_args`, `PluginGroup.__init__/__post_init__/provider/values/items/_ensure_is_loaded/
  _load_plugin/check_plugin`, `UndefVersion`, phantom's `FullMatch` machinery, `re` itself (the language
  semantics `Re.Matches` is the dictionary's account of `fullmatch`), `int`/`str` on ints.
  Statements that do not touch the version table are left out (a comment in the generated text names
  each): stores into / `pop` from `_ENTRY_POINTS` and `_LOADED_PLUGINS`, `eprint(..)`,
  `self._ensure_is_loaded(..)`, `pgroup._load_plugin(..)` (assumed not to raise for registered
  references), assignments to locals that are only used by such statements or in exception messages,
  and `if`s that contain nothing else.
  Anything else (other statements, calls, regex operators, decorators, parameters) raises
  TranslateError naming what was not understood -> obligation `translate:C16` undischarged, the function
  is left out of Gen/ and the bridge module about it does not build.

Bridge modules (theorems in namespace MetadorModel.Bridge.PluginGroupFns; split so that a broken
obligation is attributed)
  Bridge/PluginGroupFnsDict.lean   lemmas about the dictionary alone (imports nothing generated):
                                   Re.test_iff, pySplit/pyStrNat/pyInt/pyDict* vs. the model's functions
  Bridge/PluginGroupFnsCmp.lean    `supports` / `in` / `sort` through Gen/PluginRef.lean (imports nothing of this translator)
  Bridge/PluginGroupFnsRe.lean     gen_SEMVER_STR_REGEX, gen_NAME, gen_QUAL_NAME, gen_EP_NAME_REGEX
  Bridge/PluginGroupFnsEp.lean     gen_to_semver_str, gen_from_semver_str, gen_to_ep_name,
                                   gen_from_ep_name, gen_ep_name_has_namespace
  Bridge/PluginGroupFns.lean       gen_versions, gen_resolve, gen_contains, gen_keys, gen_get_unsafe,
                                   gen_get, gen_getitem
  Bridge/PluginGroupFnsReg.lean    gen_add_ep, gen_manual_register, gen_register_in_group,
                                   gen_registration_is_register (both paths = the model's `register`)

Model: `Model/Plugin.lean` got `hasNamespace`, `addEp`, `registerManual` (the two registration paths from
the strings they are given, with their failure cases); the version-table part of both is `register`.

Mutation tests (METADOR_REPO=<scratch worktree> ./check C16 --tier quick)
  behaviour-changing edits, each exit 1 with the broken bridge module named first and failing inputs from the
  oracle / the correspondence run: `.sort()` dropped in `register_in_group` (gen_manual_register; = pinned F9),
  `requested.supports(ref)` for `ref.supports(requested)` in `versions` (gen_versions), `if ep_name not in
  self._VERSIONS` in `_add_ep` (gen_add_ep; = pinned F8), `"-".join` in `to_semver_str` (gen_to_semver_str),
  `return False` for `return True` in `__contains__` (gen_contains), `LETSEP = r"[_.-]"` (gen_NAME … ;
  no failing input in the quick tier, the obligation alone fails the check).
  Seeded changes: C16-s2 (`_add_version` helper sorting by version string), C16-s3 (`p_name.replace`),
  C16-t1 (`ref.version[:2]` preference in `resolve`), C16-t3 (`_COMPATIBLE` memo): TranslateError naming the
  construct -> translate:C16 + the bridge module of the function undischarged, exit 1, failing inputs found.
  C16-s1/s4/t2 touch `PluginRef.__ge__` / the metaclass loop / `__hash__`: harness/translate.py's part.
  behaviour-preserving edits that stay green (applied together, exit 0): renamed locals and loop variables,
  comments and docstrings, reordered independent statements (`_ENTRY_POINTS` / `_LOADED_PLUGINS` stores, `pg_ref`
  before `ep_name`), `if x := e` <-> `x = e; if x`, `return a if c else b` <-> if-statement (`resolve`,
  `__contains__`), `if c: A; B` <-> `if not c: B else: A` (`versions`, `__getitem__`, `_get_unsafe`, `get`),
  `yield from l` <-> `for x in l: yield x`, `not version` <-> `version is None`, `not plugin` <-> `plugin is None`,
  `a and b` test <-> nested ifs, `name not in d` <-> `not (name in d)`, intermediate locals, `d.get(k) or []` <->
  `d.get(k, [])`, f-string <-> `+`, `(…)` <-> `(?:…)` in a pattern.
  Known to break the tie although harmless: `setdefault`, `sorted(..)` for `list(..)`, a generator expression or
  comprehension for `map`, `rsplit`, `[0123456789]` for `[0-9]` (the proofs are about the class as written), helper
  methods / new constants / new attributes the translator does not know, `assert`, logging calls.
"""
import ast
import os

from . import envshim  # noqa: F401
from .translate import TranslateError, find_class, strip_doc

TYPES = "src/metador_core/plugin/types.py"
IFACE = "src/metador_core/plugin/interface.py"
UTIL = "src/metador_core/plugin/util.py"
PLUGINS = "src/metador_core/schema/plugins.py"
GEN_REL = ("MetadorModel", "Gen", "PluginGroupFns.lean")

HEADER = """import MetadorModel.Py.PluginPy
import MetadorModel.Gen.PluginRef
/-! GENERATED on every run by harness/translate_c16.py from
    src/metador_core/plugin/types.py, plugin/interface.py (class PluginGroup) and plugin/util.py.
    Do not edit. Value dictionary: Py/PluginPy.lean. -/
set_option linter.unusedVariables false
namespace MetadorModel.Gen.PluginGroupFns
open MetadorModel.Plugin MetadorModel.PluginPy
"""

EXC = {"ValueError": ".valueError", "TypeError": ".typeError", "KeyError": ".keyError",
       "IndexError": ".indexError", "RuntimeError": ".runtimeError"}

LEAN_TY = {"chars": "Str", "string": "String", "nat": "Nat", "bool": "Bool", "ver": "Ver", "optver": "Option Ver",
           "ref": "Ref", "optref": "Option Ref", "reflist": "List Ref", "table": "Table", "key": "PyKey",
           "pair:chars,ver": "(Str × Ver)", "plugin": "(Str × Ver)", "optplugin": "Option (Str × Ver)"}
OPT_OF = {"optver": "ver", "optref": "ref", "optreflist": "reflist", "optplugin": "plugin"}
GROUP_ARGS = "grp isBase"

# python name -> lean name, positional parameter types (after self / the group), keyword-only parameter
# types, extra Lean parameters, result type, may raise, where it lives
FUNCS = {
    "to_semver_str": dict(lean="to_semver_str", params=["ver"], ret="chars", raises=False, where="types"),
    "from_semver_str": dict(lean="from_semver_str", params=["chars"], ret="ver", raises=True, where="types"),
    "to_ep_name": dict(lean="to_ep_name", params=["chars", "ver"], ret="chars", raises=True, where="types"),
    "from_ep_name": dict(lean="from_ep_name", params=["chars"], ret="pair:chars,ver", raises=True, where="types"),
    "ep_name_has_namespace": dict(lean="ep_name_has_namespace", params=["chars"], ret="bool", raises=True, where="types"),
    "versions": dict(lean="versions", params=["string", "optver"], ret="reflist", raises=False, where="group"),
    "resolve": dict(lean="resolve", params=["string", "optver"], ret="optref", raises=True, where="group"),
    "__contains__": dict(lean="contains", params=["key"], ret="bool", raises=False, where="group"),
    "keys": dict(lean="keys", params=[], ret="reflist", raises=False, where="group", generator=True),
    "_get_unsafe": dict(lean="get_unsafe", params=["string", "optver"], ret="ref", raises=True, where="group"),
    "get": dict(lean="get", params=["key", "optver"], ret="optref", raises=True, where="group"),
    "__getitem__": dict(lean="getitem", params=["key"], ret="optref", raises=True, where="group"),
    "_add_ep": dict(lean="add_ep", params=["chars", "opaque"], ret="table", raises=True, where="group"),
    "manual_register": dict(lean="manual_register", params=["plugin"], ret="table", raises=True, where="util-inner",
                            outer=["violently"]),
    "register_in_group": dict(lean="register_in_group", params=["group", "optplugin"], kwonly=["bool"], ret="table",
                              raises=True, where="util", extra=[("notebook", "Bool"), ("pluginlike", "Bool")]),
}
ORDER = ["to_semver_str", "from_semver_str", "to_ep_name", "from_ep_name", "ep_name_has_namespace",
         "versions", "resolve", "__contains__", "keys", "_get_unsafe", "get", "__getitem__", "_add_ep",
         "manual_register", "register_in_group"]
OTHER_DICTS = ("_ENTRY_POINTS", "_LOADED_PLUGINS")
LOADING_METHODS = ("_ensure_is_loaded", "_load_plugin")


def _src(rel):
    path = os.path.join(envshim.REPO, rel)
    try:
        return ast.parse(open(path).read(), filename=path)
    except (OSError, SyntaxError) as e:
        raise TranslateError("cannot parse %s: %s" % (rel, e))


def _d(e):
    try:
        return " ".join(ast.unparse(e).split())[:110]
    except Exception:  # noqa: BLE001
        return ast.dump(e)[:110]


def lean_char(cp):
    if cp in (0x27, 0x5C):
        return "'\\%s'" % chr(cp)
    if 32 <= cp < 127:
        return "'%s'" % chr(cp)
    if cp == 10:
        return "'\\n'"
    if cp == 9:
        return "'\\t'"
    return "(Char.ofNat %d)" % cp


def lean_str(s):
    if s == "":
        return "([] : Str)"
    return "[" + ", ".join(lean_char(ord(c)) for c in s) + "]"


# --------------------------------------------------------------------------- module constants, patterns
def module_str_constants(tree):
    """name -> (text, [names pasted into it]) for the module-level `X = "…"` / `X: T = f"…{Y}…"`"""
    out = {}
    for n in tree.body:
        tgt = val = None
        if isinstance(n, ast.Assign) and len(n.targets) == 1 and isinstance(n.targets[0], ast.Name):
            tgt, val = n.targets[0].id, n.value
        elif isinstance(n, ast.AnnAssign) and isinstance(n.target, ast.Name) and n.value is not None:
            tgt, val = n.target.id, n.value
        if tgt is None:
            continue
        text, deps = None, []
        if isinstance(val, ast.Constant) and isinstance(val.value, str):
            text = val.value
        elif isinstance(val, ast.JoinedStr):
            text = ""
            for x in val.values:
                if isinstance(x, ast.Constant) and isinstance(x.value, str):
                    text += x.value
                elif (isinstance(x, ast.FormattedValue) and x.conversion == -1 and x.format_spec is None
                      and isinstance(x.value, ast.Name) and x.value.id in out):
                    text += out[x.value.id][0]
                    deps.append(x.value.id)
                else:
                    text = None
                    break
        if text is None:
            out.pop(tgt, None)
            continue
        if tgt in out:
            raise TranslateError("module constant %s is assigned twice" % tgt)
        out[tgt] = (text, deps)
    return out


def _re_parser():
    try:
        import re._parser as p  # Python >= 3.11
        import re._constants as c
    except ImportError:  # pragma: no cover
        import sre_parse as p
        import sre_constants as c
    return p, c


def regex_to_lean(text, what):
    """pattern text -> Lean text of a `Re` (node by node from Python's own parse tree)"""
    p, c = _re_parser()
    try:
        tree = p.parse(text, 0)
    except Exception as e:  # noqa: BLE001  (re.error)
        raise TranslateError("%s: Python cannot parse the pattern %r: %s" % (what, text, e))
    if tree.state.flags & ~c.SRE_FLAG_UNICODE:
        raise TranslateError("%s: inline flags in the pattern" % what)

    def cls(av):
        neg, items = False, []
        for j, (op, a) in enumerate(av):
            if op is c.NEGATE and j == 0:
                neg = True
            elif op is c.LITERAL:
                items.append(".chr %s" % lean_char(a))
            elif op is c.RANGE:
                items.append(".range %s %s" % (lean_char(a[0]), lean_char(a[1])))
            else:
                raise TranslateError("%s: unsupported element %s in a character class" % (what, op))
        return ".atom (.cls %s [%s])" % ("true" if neg else "false", ", ".join(items))

    def seq(items):
        xs = [item(op, av) for op, av in items]
        if not xs:
            return ".eps"
        if len(xs) == 1:
            return xs[0]
        return "Re.seqOf [%s]" % ", ".join(par(x) for x in xs)

    def par(x):
        return x if x.startswith(".eps") or x.startswith("(") else x if " " not in x else "(%s)" % x

    def item(op, av):
        if op is c.LITERAL:
            return ".atom (.chr %s)" % lean_char(av)
        if op is c.NOT_LITERAL:
            return ".atom (.cls true [.chr %s])" % lean_char(av)
        if op is c.IN:
            return cls(av)
        if op is c.ANY:
            return ".atom .dot"
        if op is c.SUBPATTERN:
            _group, add_flags, del_flags, sub = av
            if add_flags or del_flags:
                raise TranslateError("%s: a group with flags" % what)
            return seq(sub)
        if op is c.BRANCH:
            alts = [seq(a) for a in av[1]]
            out = alts[-1]
            for a in reversed(alts[:-1]):
                out = ".alt %s %s" % (par(a), par(out))
            return out
        if op is c.MAX_REPEAT:
            lo, hi, sub = av
            q = {(1, c.MAXREPEAT): ".plus", (0, c.MAXREPEAT): ".star", (0, 1): ".opt"}.get((lo, hi))
            if q is None:
                raise TranslateError("%s: unsupported quantifier {%s,%s}" % (what, lo, hi))
            return "%s %s" % (q, par(seq(sub)))
        raise TranslateError("%s: unsupported regular expression operator %s" % (what, op))

    return seq(tree)


def fullmatch_classes(tree, consts):
    """class name -> (pattern constant name or None, pattern text) for `class C(FullMatch, pattern=…)`"""
    imported = False
    for n in tree.body:
        if isinstance(n, ast.ImportFrom) and n.module == "phantom.re" and any(x.name == "FullMatch" and x.asname is None for x in n.names):
            imported = True
    out = {}
    for n in tree.body:
        if not isinstance(n, ast.ClassDef):
            continue
        if not (len(n.bases) == 1 and isinstance(n.bases[0], ast.Name) and n.bases[0].id == "FullMatch"):
            continue
        if not imported:
            raise TranslateError("FullMatch is not `from phantom.re import FullMatch`")
        if n.decorator_list or len(n.keywords) != 1 or n.keywords[0].arg != "pattern":
            raise TranslateError("class %s: expected `class %s(FullMatch, pattern=…)`" % (n.name, n.name))
        for b in strip_doc(list(n.body)):
            if not isinstance(b, ast.Pass) and not (isinstance(b, ast.Expr) and isinstance(b.value, ast.Constant)):
                raise TranslateError("class %s has a body (%s); only a docstring is understood" % (n.name, _d(b)))
        v = n.keywords[0].value
        if isinstance(v, ast.Name) and v.id in consts:
            out[n.name] = (v.id, consts[v.id][0])
        elif isinstance(v, ast.Constant) and isinstance(v.value, str):
            out[n.name] = (None, v.value)
        else:
            out[n.name] = (None, None)   # e.g. an f-string in place: only an error if the class is used
    return out


# --------------------------------------------------------------------------- values
class V:
    """a translated value: Lean text, dictionary type, the Python str it is known to be (constants)"""

    def __init__(self, lean, ty, const=None):
        self.lean, self.ty, self.const = lean, ty, const


class Group:
    """what the translator knows while it works on one source file"""

    def __init__(self, consts, fm_classes, available, defaults):
        self.consts, self.fm, self.available, self.defaults = consts, fm_classes, available, defaults
        self.used_str_consts = set()


class Fn:
    """translator of one function"""

    def __init__(self, pyname, spec, ctx):
        self.name, self.spec, self.ctx = pyname, spec, ctx
        self.hoists = []      # [(pattern, Lean text of an `Except PyErr _` value)]
        self.n = 0
        self.skip = set()     # ids of statements that do not touch the version table
        self.locals = set()

    def fresh(self, p="x"):
        self.n += 1
        return "%s%d" % (p, self.n)

    def err(self, msg):
        return TranslateError("%s: %s" % (self.name, msg))

    def hoist(self, lean, pat=None):
        t = pat or self.fresh()
        self.hoists.append((t, lean))
        return t

    def emit_hoists(self, lines, ind):
        if self.hoists and not self.spec["raises"]:
            raise self.err("a construct that may raise (%s) in a function the dictionary lists as not raising" % self.hoists[0][1])
        for t, txt in self.hoists:
            lines.append("%smatch %s with" % (ind, txt))
            lines.append("%s| .error e => .error e" % ind)
            lines.append("%s| .ok %s =>" % (ind, t))
        del self.hoists[:]

    # ---- which statements are outside the model
    def analyse_skips(self, fn):
        assigned = set()
        for n in ast.walk(fn):
            if isinstance(n, ast.Name) and isinstance(n.ctx, ast.Store):
                assigned.add(n.id)
        self.locals = set(assigned)
        dead = set(assigned)

        def simple(e):
            return not any(isinstance(x, (ast.Call, ast.NamedExpr, ast.Lambda, ast.Yield, ast.YieldFrom, ast.Await)) for x in ast.walk(e))

        def other_dict(e):
            return isinstance(e, ast.Attribute) and e.attr in OTHER_DICTS and isinstance(e.value, ast.Name)

        def skippable(s):
            if isinstance(s, ast.Expr) and isinstance(s.value, ast.Call):
                c = s.value
                if isinstance(c.func, ast.Name) and c.func.id == "eprint":
                    return all(simple(a) for a in c.args) and not c.keywords
                if isinstance(c.func, ast.Attribute) and c.func.attr == "pop" and other_dict(c.func.value):
                    return len(c.args) == 2 and all(simple(a) for a in c.args) and not c.keywords
                if isinstance(c.func, ast.Attribute) and c.func.attr in LOADING_METHODS and isinstance(c.func.value, ast.Name):
                    return all(simple(a) for a in c.args) and not c.keywords
                return False
            if isinstance(s, ast.Assign) and len(s.targets) == 1:
                t = s.targets[0]
                if isinstance(t, ast.Subscript) and other_dict(t.value):
                    return simple(t.slice) and simple(s.value)
                if isinstance(t, ast.Name) and t.id in dead:
                    return simple(s.value)
                return False
            if isinstance(s, ast.AnnAssign) and isinstance(s.target, ast.Name) and s.target.id in dead:
                return s.value is None or simple(s.value)
            if isinstance(s, ast.AugAssign) and isinstance(s.target, ast.Name) and s.target.id in dead:
                return simple(s.value)
            if isinstance(s, ast.If):
                return simple(s.test) and bool(s.body) and all(skippable(x) for x in list(s.body) + list(s.orelse))
            return False

        def stmts_of(node):
            for x in ast.walk(node):
                if isinstance(x, ast.stmt) and x is not fn:
                    yield x

        while True:
            covered = set()       # ids of Name loads that sit inside a left-out statement / an exception message
            for s in stmts_of(fn):
                if skippable(s) or isinstance(s, ast.Raise):
                    for x in ast.walk(s):
                        if isinstance(x, ast.Name):
                            covered.add(id(x))
            live = set()
            for x in ast.walk(fn):
                if isinstance(x, ast.Name) and isinstance(x.ctx, ast.Load) and x.id in dead and id(x) not in covered:
                    live.add(x.id)
            if not live:
                break
            dead -= live
        self.skip = {id(s) for s in stmts_of(fn) if skippable(s)}

    # ---- coercions
    def as_string(self, v):
        if v.ty == "string":
            return v.lean
        if v.ty == "chars":
            return "(String.ofList %s)" % v.lean
        raise self.err("a %s used as a name" % v.ty)

    def as_chars(self, v):
        if v.ty == "chars":
            return v.lean
        if v.ty == "string":
            return "(%s).toList" % v.lean
        raise self.err("a %s used as a string" % v.ty)

    def coerce(self, v, ty, what):
        if v.ty == ty:
            return v.lean
        if ty == "string" and v.ty == "chars":
            return self.as_string(v)
        if ty == "chars" and v.ty == "string":
            return self.as_chars(v)
        if ty in OPT_OF and v.ty == OPT_OF[ty]:
            return "(some %s)" % v.lean
        if ty in OPT_OF and v.ty == "none":
            return "none"
        if ty == "reflist" and v.ty == "emptylist":
            return "[]"
        if ty == "plugin" and v.ty == "plugin":
            return v.lean
        raise self.err("%s: a %s where the dictionary expects a %s" % (what, v.ty, ty))

    def truth(self, v):
        if v.ty == "bool":
            return v.lean
        if v.ty == "optbool":
            return "(truthy %s)" % v.lean
        if v.ty in ("reflist", "strs", "chars"):
            return "(!(%s).isEmpty)" % v.lean
        if v.ty == "emptylist":
            return "false"
        if v.ty == "optreflist":
            return "(match %s with | some l => !l.isEmpty | none => false)" % v.lean
        if v.ty in ("optver", "optref", "optplugin"):
            return "(%s).isSome" % v.lean
        if v.ty in ("ref", "ver", "plugin"):
            return "true"
        if v.ty == "none":
            return "false"
        if v.ty == "nat":
            return "(%s != 0)" % v.lean
        raise self.err("truth value of a %s is not in the dictionary" % v.ty)

    # ---- expressions
    def is_group(self, e, env):
        return isinstance(e, ast.Name) and e.id in env and env[e.id].ty == "group"

    def is_table(self, e, env):
        return isinstance(e, ast.Attribute) and e.attr == "_VERSIONS" and self.is_group(e.value, env)

    def expr(self, e, env, tv):
        if isinstance(e, ast.Name):
            if e.id in env:
                return env[e.id]
            if e.id in self.ctx.consts and e.id not in self.locals:
                self.ctx.used_str_consts.add(e.id)
                return V(e.id, "chars", const=self.ctx.consts[e.id][0])
            raise self.err("unknown name %s" % e.id)
        if isinstance(e, ast.Constant):
            if e.value is True or e.value is False:
                return V("true" if e.value else "false", "bool")
            if e.value is None:
                return V("none", "none")
            if isinstance(e.value, str):
                return V(lean_str(e.value), "chars", const=e.value)
            if isinstance(e.value, int) and e.value >= 0:
                return V("%d" % e.value, "nat")
            raise self.err("unsupported constant %r" % (e.value,))
        if isinstance(e, ast.List) and not e.elts:
            return V("[]", "emptylist")
        if isinstance(e, ast.Tuple) and len(e.elts) == 2:
            a, b = self.expr(e.elts[0], env, tv), self.expr(e.elts[1], env, tv)
            return V("(%s, %s)" % (a.lean, b.lean), "pair:%s,%s" % (a.ty, b.ty))
        if isinstance(e, ast.Attribute):
            return self.attribute(e, env, tv)
        if isinstance(e, ast.Subscript):
            return self.subscript(e, env, tv)
        if isinstance(e, ast.Call):
            return self.call(e, env, tv)
        if isinstance(e, ast.JoinedStr):
            parts = []
            for x in e.values:
                if isinstance(x, ast.Constant) and isinstance(x.value, str):
                    if x.value:
                        parts.append(lean_str(x.value))
                elif isinstance(x, ast.FormattedValue) and x.conversion == -1 and x.format_spec is None:
                    parts.append(self.as_chars(self.expr(x.value, env, tv)))
                else:
                    raise self.err("unsupported f-string part in %s" % _d(e))
            return V("(" + " ++ ".join(parts) + ")" if parts else "([] : Str)", "chars")
        if isinstance(e, ast.Compare):
            return self.compare(e, env, tv)
        if isinstance(e, ast.BoolOp):
            if isinstance(e.op, ast.Or) and len(e.values) == 2:
                n0 = len(self.hoists)
                a = self.expr(e.values[0], env, tv)
                if a.ty == "optreflist":
                    b = self.expr(e.values[1], env, tv)
                    if len(self.hoists) != n0:
                        raise self.err("a call that may raise in an operand of %s" % _d(e))
                    return V("(pyOrList %s %s)" % (a.lean, self.coerce(b, "reflist", _d(e))), "reflist")
                del self.hoists[n0:]
            vs = []
            for i, x in enumerate(e.values):
                n0 = len(self.hoists)
                vs.append(self.truth(self.expr(x, env, tv)))
                if i > 0 and len(self.hoists) != n0:
                    raise self.err("a call that may raise in a short-circuited operand outside an `if` test: %s" % _d(e))
            return V("(" + (" && " if isinstance(e.op, ast.And) else " || ").join(vs) + ")", "bool")
        if isinstance(e, ast.UnaryOp) and isinstance(e.op, ast.Not):
            return V("(!%s)" % self.truth(self.expr(e.operand, env, tv)), "bool")
        if isinstance(e, ast.IfExp):
            c = self.truth(self.expr(e.test, env, tv))
            n0 = len(self.hoists)
            a, b = self.expr(e.body, env, tv), self.expr(e.orelse, env, tv)
            if len(self.hoists) != n0:
                raise self.err("a call that may raise in a branch of a conditional expression: %s" % _d(e))
            ty = a.ty if a.ty == b.ty else None
            if ty is None:
                for t, inner in OPT_OF.items():
                    if {a.ty, b.ty} <= {inner, "none", t}:
                        ty = t
            if ty is None:
                raise self.err("conditional expression of a %s and a %s" % (a.ty, b.ty))
            return V("(if %s then %s else %s)" % (c, self.coerce(a, ty, _d(e)), self.coerce(b, ty, _d(e))), ty)
        if isinstance(e, ast.ListComp):
            return self.listcomp(e, env, tv)
        if isinstance(e, ast.BinOp) and isinstance(e.op, ast.Add):
            a, b = self.expr(e.left, env, tv), self.expr(e.right, env, tv)
            if a.ty in ("chars", "string") and b.ty in ("chars", "string"):
                return V("(%s ++ %s)" % (self.as_chars(a), self.as_chars(b)), "chars")
            if a.ty == b.ty == "nat":
                return V("(%s + %s)" % (a.lean, b.lean), "nat")
            raise self.err("unsupported + on a %s and a %s" % (a.ty, b.ty))
        raise self.err("unsupported expression %s" % _d(e))

    def attribute(self, e, env, tv):
        if self.is_group(e.value, env):
            if e.attr == "name":
                return V("grp", "string")
            if e.attr == "_VERSIONS":
                return V(tv, "table")
            raise self.err("unsupported attribute %s" % _d(e))
        v = self.expr(e.value, env, tv)
        if v.ty == "ref" and e.attr in ("name", "group"):
            return V("(%s).%s" % (v.lean, e.attr), "string")
        if v.ty == "ref" and e.attr == "version":
            return V("(%s).ver" % v.lean, "ver")
        if v.ty == "plugin" and e.attr == "Plugin":
            return V(v.lean, "plugininfo")
        if v.ty == "plugininfo" and e.attr == "name":
            return V("(%s).1" % v.lean, "chars")
        if v.ty == "plugininfo" and e.attr == "version":
            return V("(%s).2" % v.lean, "ver")
        raise self.err("unsupported attribute %s (of a %s)" % (_d(e), v.ty))

    @staticmethod
    def int_literal(i):
        if isinstance(i, ast.Constant) and isinstance(i.value, int) and not isinstance(i.value, bool):
            return i.value
        if isinstance(i, ast.UnaryOp) and isinstance(i.op, ast.USub) and isinstance(i.operand, ast.Constant) and isinstance(i.operand.value, int):
            return -i.operand.value
        return None

    def subscript(self, e, env, tv):
        if isinstance(e.value, ast.Attribute) and e.value.attr == "_LOADED_PLUGINS" and self.is_group(e.value.value, env):
            k = self.expr(e.slice, env, tv)
            if k.ty != "ref":
                raise self.err("_LOADED_PLUGINS[<%s>]" % k.ty)
            return V(k.lean, "ref")    # a loaded class is identified by its reference
        v = self.expr(e.value, env, tv)
        if v.ty == "table":
            k = self.expr(e.slice, env, tv)
            return V(self.hoist("pyDictGetItem %s %s" % (v.lean, self.as_string(k))), "reflist")
        k = self.int_literal(e.slice)
        if v.ty == "reflist" and k == -1:
            return V(self.hoist("pyLast %s" % v.lean), "ref")
        raise self.err("unsupported subscript %s (of a %s)" % (_d(e), v.ty))

    def make_ref(self, e, env, tv, group):
        if e.args:
            raise self.err("positional arguments in %s" % _d(e))
        kw = {}
        for k in e.keywords:
            if k.arg is None or k.arg in kw:
                raise self.err("unsupported call %s" % _d(e))
            kw[k.arg] = self.expr(k.value, env, tv)
        want = {"name", "version"} | (set() if group else {"group"})
        if set(kw) != want:
            raise self.err("%s: expected exactly the keywords %s" % (_d(e), sorted(want)))
        g = group or self.as_string(kw["group"])
        if kw["version"].ty != "ver":
            raise self.err("%s: the version is a %s (it may be None here)" % (_d(e), kw["version"].ty))
        return V("(Ref.mk %s %s %s)" % (g, self.as_string(kw["name"]), kw["version"].lean), "ref")

    def call_fn(self, pyname, args, kwargs, env, tv, e):
        spec = FUNCS[pyname]
        if pyname not in self.ctx.available:
            raise self.err("calls %s, which could not be translated" % pyname)
        ptys = list(spec["params"])
        if "group" in ptys:
            raise self.err("unsupported call %s" % _d(e))
        defaults = self.ctx.defaults.get(pyname, {})
        vals = list(args)
        if len(vals) > len(ptys) or (kwargs and not spec.get("kwonly")):
            raise self.err("unsupported call %s" % _d(e))
        for i in range(len(vals), len(ptys)):
            if i not in defaults:
                raise self.err("%s: argument %d is missing and has no default" % (_d(e), i + 1))
            vals.append(defaults[i])
        largs = [self.coerce(v, t, _d(e)) for v, t in zip(vals, ptys) if t != "opaque"]
        for j, t in enumerate(spec.get("kwonly", [])):
            name = self.ctx.kwonly_names[pyname][j]
            v = kwargs.get(name, defaults.get(name))
            if v is None:
                raise self.err("%s: keyword %s is missing" % (_d(e), name))
            largs.append(self.coerce(v, t, _d(e)))
        for o in spec.get("outer", []):
            if o not in env:
                raise self.err("%s: the enclosing function has no %s" % (_d(e), o))
            largs.insert(0, env[o].lean)
        pre = [] if spec["where"] == "types" else [GROUP_ARGS, tv]
        for name, _ in spec.get("extra", []):
            largs.append(name)
        txt = " ".join([spec["lean"]] + pre + largs)
        if spec["raises"]:
            return V(self.hoist(txt), spec["ret"])
        return V("(%s)" % txt, spec["ret"])

    def call(self, e, env, tv):
        f = e.func
        args = e.args
        if any(isinstance(a, ast.Starred) for a in args) or any(k.arg is None for k in e.keywords):
            raise self.err("unsupported call %s" % _d(e))
        # ---- plain names
        if isinstance(f, ast.Name) and f.id not in env:
            name = f.id
            if name in ("AnyPluginRef", "PluginRef"):
                return self.make_ref(e, env, tv, None)
            if name in self.ctx.fm and name not in self.locals:
                cname, text = self.ctx.fm[name]
                if text is None:
                    raise self.err("the pattern of class %s is not a module constant" % name)
                if len(args) != 1 or e.keywords:
                    raise self.err("unsupported call %s" % _d(e))
                v = self.expr(args[0], env, tv)
                self.ctx.used_patterns.add(name)
                return V(self.hoist("pyFullMatch %s_pattern %s" % (name, self.as_chars(v))), "chars")
            if name in FUNCS and FUNCS[name]["where"] in ("types", "util-inner"):
                vals = [self.expr(a, env, tv) for a in args]
                if e.keywords:
                    raise self.err("unsupported call %s" % _d(e))
                return self.call_fn(name, vals, {}, env, tv, e)
            if name == "list" and len(args) == 1 and not e.keywords:
                v = self.expr(args[0], env, tv)
                if v.ty in ("reflist", "emptylist"):
                    return V(self.coerce(v, "reflist", _d(e)), "reflist")
                raise self.err("list(..) of a %s" % v.ty)
            if name == "len" and len(args) == 1 and not e.keywords:
                v = self.expr(args[0], env, tv)
                if v.ty in ("strs", "reflist", "chars"):
                    return V("(%s).length" % v.lean, "nat")
                raise self.err("len(..) of a %s" % v.ty)
            if name == "map" and len(args) == 2 and not e.keywords and isinstance(args[0], ast.Name) and args[0].id not in env:
                v = self.expr(args[1], env, tv)
                if args[0].id == "str" and v.ty == "ver":
                    return V("((pyVerIter %s).map pyStrNat)" % v.lean, "strs")
                if args[0].id == "int" and v.ty == "strs":
                    return V(self.hoist("pyMapM pyInt %s" % v.lean), "nats")
                raise self.err("unsupported call %s (map of %s over a %s)" % (_d(e), args[0].id, v.ty))
            if name == "tuple" and len(args) == 1 and not e.keywords:
                v = self.expr(args[0], env, tv)
                if v.ty == "nats":
                    return V(v.lean, "nattuple")
                raise self.err("tuple(..) of a %s" % v.ty)
            if name == "plugin_args" and 1 <= len(args) <= 2 and not e.keywords:
                k = self.expr(args[0], env, tv)
                if k.ty != "key":
                    raise self.err("plugin_args of a %s" % k.ty)
                if len(args) == 1:
                    return V("((%s).name, (%s).version)" % (k.lean, k.lean), "pair:string,optver")
                ver = self.expr(args[1], env, tv)
                return V("(pyPluginArgs %s %s)" % (k.lean, self.coerce(ver, "optver", _d(e))), "pair:string,optver")
            if name == "isinstance" and len(args) == 2 and isinstance(args[1], ast.Name) and args[1].id == "str" and not e.keywords:
                k = self.expr(args[0], env, tv)
                if k.ty == "key":
                    return V("(%s).isStr" % k.lean, "bool")
                raise self.err("isinstance(<%s>, str)" % k.ty)
            if name == "cast" and len(args) == 2 and not e.keywords:
                return self.expr(args[1], env, tv)
            if name == "is_notebook" and not args and not e.keywords and "notebook" in env:
                return env["notebook"]
            if name == "is_pluginlike" and len(args) == 1 and "pluginlike" in env:
                kws = {k.arg: k.value for k in e.keywords}
                v = self.expr(args[0], env, tv)
                if v.ty == "plugin" and set(kws) == {"check_group"} and isinstance(kws["check_group"], ast.Constant) and kws["check_group"].value is False:
                    return env["pluginlike"]
            raise self.err("unsupported call %s" % _d(e))
        # ---- methods
        if isinstance(f, ast.Attribute) and not any(k.arg is None for k in e.keywords):
            if self.is_group(f.value, env):
                if f.attr == "PluginRef":
                    return self.make_ref(e, env, tv, "grp")
                if f.attr in FUNCS and FUNCS[f.attr]["where"] == "group":
                    vals = [self.expr(a, env, tv) for a in args]
                    if e.keywords:
                        raise self.err("unsupported call %s" % _d(e))
                    return self.call_fn(f.attr, vals, {}, env, tv, e)
                raise self.err("unsupported call %s" % _d(e))
            if isinstance(f.value, ast.Name) and f.value.id == "UndefVersion" and f.attr == "_mark_class" and len(args) == 1 and not e.keywords:
                v = self.expr(args[0], env, tv)
                if v.ty != "ref":
                    raise self.err("_mark_class of a %s" % v.ty)
                return v
            if e.keywords:
                raise self.err("unsupported call %s" % _d(e))
            recv = self.expr(f.value, env, tv)
            if recv.ty == "table" and f.attr == "get" and len(args) == 1:
                return V("(pyDictGet %s %s)" % (recv.lean, self.as_string(self.expr(args[0], env, tv))), "optreflist")
            if recv.ty == "table" and f.attr == "get" and len(args) == 2:
                dflt = self.coerce(self.expr(args[1], env, tv), "reflist", _d(e))
                return V("((pyDictGet %s %s).getD %s)" % (recv.lean, self.as_string(self.expr(args[0], env, tv)), dflt), "reflist")
            if recv.ty == "table" and f.attr == "values" and not args:
                return V("(pyDictValues %s)" % recv.lean, "reflists")
            if recv.ty == "ref" and f.attr == "supports" and len(args) == 1:
                o = self.expr(args[0], env, tv)
                if o.ty != "ref":
                    raise self.err("supports(<%s>)" % o.ty)
                return V("(Gen.PluginRef.supports %s %s)" % (recv.lean, o.lean), "optbool")
            if recv.ty in ("chars", "string") and f.attr == "split" and 1 <= len(args) <= 2:
                sep = self.expr(args[0], env, tv)
                if sep.ty != "chars" or sep.const is None:
                    raise self.err("split on something that is not a string constant: %s" % _d(e))
                if sep.const == "":
                    raise self.err("split on the empty string raises ValueError: %s" % _d(e))
                if len(args) == 2:
                    k = self.int_literal(args[1])
                    if k is None or k < 0:
                        raise self.err("unsupported maxsplit in %s" % _d(e))
                    return V("(pySplitMax %s %s %d)" % (self.as_chars(recv), sep.lean, k), "strs")
                return V("(pySplit %s %s)" % (self.as_chars(recv), sep.lean), "strs")
            if recv.ty == "chars" and recv.const is not None and f.attr == "join" and len(args) == 1:
                l = self.expr(args[0], env, tv)
                if l.ty != "strs":
                    raise self.err("join of a %s" % l.ty)
                return V("(pyJoin %s %s)" % (recv.lean, l.lean), "chars")
        raise self.err("unsupported call %s" % _d(e))

    def compare(self, e, env, tv):
        if len(e.ops) != 1:
            raise self.err("chained comparison %s" % _d(e))
        op = e.ops[0]
        l, r = e.left, e.comparators[0]
        # type(self) is [not] PluginGroup
        if (isinstance(op, (ast.Is, ast.IsNot)) and isinstance(l, ast.Call) and isinstance(l.func, ast.Name) and l.func.id == "type"
                and len(l.args) == 1 and self.is_group(l.args[0], env) and isinstance(r, ast.Name) and r.id == "PluginGroup" and not l.keywords):
            return V("isBase" if isinstance(op, ast.Is) else "(!isBase)", "bool")
        if isinstance(op, (ast.In, ast.NotIn)):
            neg = isinstance(op, ast.NotIn)
            if self.is_group(r, env):
                k = self.expr(l, env, tv)
                v = self.call_fn("__contains__", [k], {}, env, tv, e)
            else:
                a, b = self.expr(l, env, tv), self.expr(r, env, tv)
                if b.ty == "table":
                    v = V("(pyDictHas %s %s)" % (b.lean, self.as_string(a)), "bool")
                elif b.ty == "reflist" and a.ty == "ref":
                    v = V("(pyIn Gen.PluginRef.eq %s %s)" % (a.lean, b.lean), "bool")
                else:
                    raise self.err("unsupported membership test %s (a %s in a %s)" % (_d(e), a.ty, b.ty))
            return V("(!%s)" % v.lean, "bool") if neg else v
        a, b = self.expr(l, env, tv), self.expr(r, env, tv)
        if isinstance(op, (ast.Is, ast.IsNot)):
            if b.ty != "none":
                raise self.err("`is` with something other than None: %s" % _d(e))
            pos = isinstance(op, ast.IsNot)
            if a.ty in OPT_OF or a.ty == "optreflist":
                return V("(%s).%s" % (a.lean, "isSome" if pos else "isNone"), "bool")
            if a.ty == "none":
                return V("false" if pos else "true", "bool")
            if a.ty in ("ver", "ref", "reflist", "plugin", "chars", "string"):
                return V("true" if pos else "false", "bool")
            raise self.err("`is None` on a %s" % a.ty)
        if a.ty == b.ty == "nat":
            sym = {ast.Lt: "<", ast.LtE: "≤", ast.Gt: ">", ast.GtE: "≥", ast.Eq: "=", ast.NotEq: "≠"}.get(type(op))
            if sym:
                return V("(decide (%s %s %s))" % (a.lean, sym, b.lean), "bool")
        if isinstance(op, (ast.Eq, ast.NotEq)) and a.ty in ("chars", "string") and b.ty in ("chars", "string"):
            return V("(%s %s %s)" % (self.as_chars(a), "==" if isinstance(op, ast.Eq) else "!=", self.as_chars(b)), "bool")
        raise self.err("unsupported comparison %s (a %s with a %s)" % (_d(e), a.ty, b.ty))

    def listcomp(self, e, env, tv):
        if len(e.generators) != 1:
            raise self.err("nested comprehension")
        g = e.generators[0]
        if g.is_async or not isinstance(g.target, ast.Name):
            raise self.err("unsupported comprehension target")
        it = self.expr(g.iter, env, tv)
        if it.ty != "reflist":
            raise self.err("comprehension over a %s" % it.ty)
        if not (isinstance(e.elt, ast.Name) and e.elt.id == g.target.id):
            raise self.err("a comprehension that maps its elements: %s" % _d(e))
        env2 = dict(env)
        x = "v_" + g.target.id
        env2[g.target.id] = V(x, "ref")
        n0 = len(self.hoists)
        conds = [self.truth(self.expr(c, env2, tv)) for c in g.ifs]
        if len(self.hoists) != n0:
            raise self.err("a call that may raise inside a comprehension")
        if not conds:
            return it
        return V("((%s).filter (fun %s => %s))" % (it.lean, x, " && ".join(conds)), "reflist")

    # ---- statements
    def exc_of(self, s):
        x = s.exc
        if isinstance(x, ast.Call):
            x = x.func
        if isinstance(x, ast.Name) and x.id in EXC and s.cause is None:
            if not self.spec["raises"]:
                raise self.err("a raise in a function the dictionary lists as not raising")
            return EXC[x.id]
        raise self.err("unsupported raise: %s" % _d(s))

    def bind(self, name, v, env, lines, ind):
        ln = "v_" + name
        if v.ty in ("none", "emptylist", "plugininfo", "table", "group", "nattuple", "nats", "strs", "reflists", "optbool", "optreflist") \
                or v.ty.startswith("pair:") or v.ty in LEAN_TY:
            if v.ty in ("none", "table", "group"):
                env[name] = v
                return
            if v.lean != ln:
                lines.append("%slet %s := %s" % (ind, ln, v.lean))
            env[name] = V(ln, v.ty)
            return
        raise self.err("a %s stored in %s" % (v.ty, name))

    @staticmethod
    def assign_parts(s):
        if isinstance(s, ast.Assign) and len(s.targets) == 1:
            return s.targets[0], s.value
        if isinstance(s, ast.AnnAssign) and s.value is not None and s.simple:
            return s.target, s.value
        return None

    def paren(self, lines, ind):
        """a block as one parenthesised term"""
        return ["%s(" % ind] + lines + ["%s)" % ind]

    def refine(self, name, v, body, orelse, rest, env, tv, ind, lines):
        """`if <name, holding the Optional v>:` body / else: orelse -- a match that narrows `name`"""
        inner = OPT_OF[v.ty]
        ln = "v_" + name
        e_none, e_some = dict(env), dict(env)
        e_none[name] = V("none", "none")
        e_some[name] = V(ln, inner)
        lines.append("%smatch %s with" % (ind, v.lean))
        lines.append("%s| none =>" % ind)
        lines += self.paren(self.block(list(orelse) + rest, e_none, tv, ind + "  "), ind + "  ")
        lines.append("%s| some %s =>" % (ind, ln))
        if v.ty == "optreflist":
            e_empty = dict(env)
            e_empty[name] = V(ln, "reflist")
            lines.append("%s  if !(%s).isEmpty then" % (ind, ln))
            lines += self.paren(self.block(list(body) + rest, e_some, tv, ind + "    "), ind + "    ")
            lines.append("%s  else" % ind)
            lines += self.paren(self.block(list(orelse) + rest, e_empty, tv, ind + "    "), ind + "    ")
        else:
            lines += self.paren(self.block(list(body) + rest, e_some, tv, ind + "  "), ind + "  ")
        return lines

    def if_stmt(self, test, body, orelse, rest, env, tv, ind):
        lines = []
        if isinstance(test, ast.UnaryOp) and isinstance(test.op, ast.Not):
            return self.if_stmt(test.operand, orelse, body, rest, env, tv, ind)
        # narrowing tests
        if isinstance(test, ast.Name) and test.id in env and (env[test.id].ty in OPT_OF):
            return self.refine(test.id, env[test.id], body, orelse, rest, env, tv, ind, lines)
        if (isinstance(test, ast.Compare) and len(test.ops) == 1 and isinstance(test.ops[0], (ast.Is, ast.IsNot))
                and isinstance(test.left, ast.Name) and test.left.id in env and env[test.left.id].ty in OPT_OF
                and env[test.left.id].ty != "optreflist"
                and isinstance(test.comparators[0], ast.Constant) and test.comparators[0].value is None):
            if isinstance(test.ops[0], ast.IsNot):
                return self.refine(test.left.id, env[test.left.id], body, orelse, rest, env, tv, ind, lines)
            return self.refine(test.left.id, env[test.left.id], orelse, body, rest, env, tv, ind, lines)
        if isinstance(test, ast.NamedExpr) and isinstance(test.target, ast.Name):
            v = self.expr(test.value, env, tv)
            self.emit_hoists(lines, ind)
            name = test.target.id
            if v.ty in OPT_OF:
                return self.refine(name, v, body, orelse, rest, env, tv, ind, lines)
            env = dict(env)
            self.bind(name, v, env, lines, ind)
            c = self.truth(env[name])
            return self.plain_if(c, body, orelse, rest, env, tv, ind, lines)
        if isinstance(test, ast.BoolOp):
            # try it as one Boolean first; operands that raise or narrow need nested ifs
            n0, saved = len(self.hoists), self.n
            simple = True
            for x in test.values:
                if any(isinstance(y, ast.NamedExpr) for y in ast.walk(x)):
                    simple = False
            if simple:
                try:
                    c = self.truth(self.expr(test, env, tv))
                    if len(self.hoists) != n0:
                        simple = False
                except TranslateError:
                    simple = False
            if simple:
                return self.plain_if(c, body, orelse, rest, env, tv, ind, lines)
            del self.hoists[n0:]
            self.n = saved
            if not any(isinstance(y, ast.NamedExpr) for y in ast.walk(test)):
                try:
                    m = self.monadic_bool(test, env, tv)
                except TranslateError:
                    m = None
                    del self.hoists[n0:]
                    self.n = saved
                if m is not None:
                    if not self.spec["raises"]:
                        raise self.err("a call that may raise in %s, in a function the dictionary lists as not raising" % _d(test))
                    c = self.fresh("c")
                    lines.append("%smatch (%s : Except PyErr Bool) with" % (ind, m))
                    lines.append("%s| .error e => .error e" % ind)
                    lines.append("%s| .ok %s =>" % (ind, c))
                    return self.plain_if(c, body, orelse, rest, env, tv, ind, lines)
            first, others = test.values[0], test.values[1:]
            tail = others[0] if len(others) == 1 else ast.BoolOp(op=test.op, values=others)
            if isinstance(test.op, ast.And):
                inner = ast.If(test=tail, body=list(body) or [ast.Pass()], orelse=list(orelse))
                return self.if_stmt(first, [inner], orelse, rest, env, tv, ind)
            inner = ast.If(test=tail, body=list(body) or [ast.Pass()], orelse=list(orelse))
            return self.if_stmt(first, body, [inner], rest, env, tv, ind)
        c = self.truth(self.expr(test, env, tv))
        self.emit_hoists(lines, ind)
        return self.plain_if(c, body, orelse, rest, env, tv, ind, lines)

    def monadic_bool(self, test, env, tv):
        """the truth value of an `and`/`or`/`not` test whose operands may raise, as Lean text of type
        `Except PyErr Bool`, operands evaluated in Python's short-circuit order"""
        kind, txt = self.mbool(test, env, tv)
        return "(.ok %s)" % txt if kind == "pure" else txt

    def mbool(self, test, env, tv):
        """("pure", Bool text) or ("m", `Except PyErr Bool` text)"""
        def m(x):
            return ".ok %s" % x[1] if x[0] == "pure" else x[1]
        if isinstance(test, ast.UnaryOp) and isinstance(test.op, ast.Not):
            inner = self.mbool(test.operand, env, tv)
            if inner[0] == "pure":
                return "pure", "(!%s)" % inner[1]
            return "m", "(match %s with | .error e => .error e | .ok b => .ok (!b))" % inner[1]
        if isinstance(test, ast.BoolOp):
            parts = [self.mbool(x, env, tv) for x in test.values]
            out = parts[-1]
            for p in reversed(parts[:-1]):
                conj = isinstance(test.op, ast.And)
                if p[0] == "pure" and out[0] == "pure":
                    out = ("pure", "(%s %s %s)" % (p[1], "&&" if conj else "||", out[1]))
                elif p[0] == "pure":
                    out = ("m", "(if %s then %s else %s)" % ((p[1], m(out), ".ok false") if conj else (p[1], ".ok true", m(out))))
                elif conj:
                    out = ("m", "(match %s with | .error e => .error e | .ok true => %s | .ok false => .ok false)" % (p[1], m(out)))
                else:
                    out = ("m", "(match %s with | .error e => .error e | .ok true => .ok true | .ok false => %s)" % (p[1], m(out)))
            return out
        n0 = len(self.hoists)
        c = self.truth(self.expr(test, env, tv))
        hs = self.hoists[n0:]
        del self.hoists[n0:]
        if not hs:
            return "pure", c
        if len(hs) == 1 and hs[0][0] == c:
            return "m", "(%s)" % hs[0][1]
        out = ".ok %s" % c
        for t, txt in reversed(hs):
            out = "(match %s with | .error e => .error e | .ok %s => %s)" % (txt, t, out)
        return "m", out

    def table_only(self, stmts, env, tv):
        """the table after running `stmts` if they are nothing but unconditional stores into the version
        table that cannot raise (and statements that are left out), else None"""
        for s in stmts:
            if id(s) in self.skip or isinstance(s, ast.Pass):
                continue
            ap = self.assign_parts(s)
            if not (ap and isinstance(ap[0], ast.Subscript) and self.is_table(ap[0].value, env)):
                return None
            n0, saved = len(self.hoists), self.n
            try:
                k = self.as_string(self.expr(ap[0].slice, env, tv))
                v = self.coerce(self.expr(ap[1], env, tv), "reflist", _d(s))
            except TranslateError:
                del self.hoists[n0:]
                self.n = saved
                return None
            if len(self.hoists) != n0:
                del self.hoists[n0:]
                self.n = saved
                return None
            tv = "(pyDictSet %s %s %s)" % (tv, k, v)
        return tv

    def plain_if(self, c, body, orelse, rest, env, tv, ind, lines):
        if self.spec["ret"] == "table" and rest:
            # both branches only store into the table and fall through: one `let`, the rest once
            ta, tb = self.table_only(body, env, tv), self.table_only(orelse, env, tv)
            if ta is not None and tb is not None:
                t2 = self.fresh("t")
                lines.append("%slet %s := if %s then %s else %s" % (ind, t2, c, ta, tb))
                return lines + self.block(rest, env, t2, ind)
        a = self.block(list(body) + rest, dict(env), tv, ind + "  ")
        b = self.block(list(orelse) + rest, dict(env), tv, ind + "  ")
        lines.append("%sif %s then" % (ind, c))
        lines += self.paren(a, ind + "  ")
        lines.append("%selse" % ind)
        lines += self.paren(b, ind + "  ")
        return lines

    def ret(self, value, env, tv, ind):
        lines = []
        rty, raises = self.spec["ret"], self.spec["raises"]
        if rty == "table":
            if value is not None and not isinstance(value, (ast.Name, ast.Constant)):
                raise self.err("returns %s; the dictionary drops the result of a function that updates the table" % _d(value))
            lines.append("%s.ok %s" % (ind, tv))
            return lines
        if value is None:
            value = ast.Constant(value=None)
        v = self.expr(value, env, tv)
        if rty == "ver" and v.ty == "nattuple":
            v = V(self.hoist("pyVerOfTuple %s" % v.lean), "ver")
        txt = self.coerce(v, rty, "return")
        if raises and self.hoists and self.hoists[-1][0] == txt:
            _, call = self.hoists.pop()
            self.emit_hoists(lines, ind)
            lines.append("%s%s" % (ind, call))
            return lines
        self.emit_hoists(lines, ind)
        lines.append("%s%s" % (ind, ".ok %s" % txt if raises else txt))
        return lines

    def block(self, stmts, env, tv, ind):
        """Lean lines (one term) for running `stmts` to the end of the function"""
        lines = []
        stmts = list(stmts)
        env = dict(env)
        while stmts:
            s = stmts.pop(0)
            if id(s) in self.skip:
                lines.append("%s-- not modelled (no effect on the version table): %s" % (ind, _d(s)))
                continue
            if isinstance(s, ast.Pass) or (isinstance(s, ast.Expr) and isinstance(s.value, ast.Constant)):
                continue
            if isinstance(s, ast.FunctionDef) and s.name in FUNCS and FUNCS[s.name]["where"] == "util-inner":
                continue    # translated on its own
            if isinstance(s, ast.Return):
                if isinstance(s.value, ast.IfExp):
                    x = s.value
                    stmts.insert(0, ast.If(test=x.test, body=[ast.Return(value=x.body)], orelse=[ast.Return(value=x.orelse)]))
                    continue
                return lines + self.ret(s.value, env, tv, ind)
            if isinstance(s, ast.Raise):
                lines.append("%s.error %s" % (ind, self.exc_of(s)))
                return lines
            if isinstance(s, ast.If):
                return lines + self.if_stmt(s.test, s.body, s.orelse, stmts, env, tv, ind)
            if isinstance(s, ast.Try):
                return lines + self.try_stmt(s, stmts, env, tv, ind)
            ap = self.assign_parts(s)
            if ap:
                tgt, val = ap
                if isinstance(val, ast.IfExp) and isinstance(tgt, ast.Name):
                    stmts.insert(0, ast.If(test=val.test, body=[ast.Assign(targets=[tgt], value=val.body)],
                                           orelse=[ast.Assign(targets=[tgt], value=val.orelse)]))
                    continue
                if isinstance(tgt, ast.Name):
                    v = self.expr(val, env, tv)
                    self.emit_hoists(lines, ind)
                    self.bind(tgt.id, v, env, lines, ind)
                    continue
                if isinstance(tgt, ast.Tuple) and all(isinstance(x, ast.Name) for x in tgt.elts):
                    names = [x.id for x in tgt.elts]
                    v = self.expr(val, env, tv)
                    self.emit_hoists(lines, ind)
                    if v.ty.startswith("pair:") and len(names) == 2:
                        t1, t2 = v.ty[5:].split(",")
                        p = self.fresh("p")
                        lines.append("%slet %s := %s" % (ind, p, v.lean))
                        self.bind(names[0], V("%s.1" % p, t1), env, lines, ind)
                        self.bind(names[1], V("%s.2" % p, t2), env, lines, ind)
                        continue
                    if v.ty == "strs":
                        if not self.spec["raises"]:
                            raise self.err("unpacking a list (may raise) in a function the dictionary lists as not raising")
                        for nm in names:
                            env[nm] = V("v_" + nm, "chars")
                        lines.append("%smatch %s with" % (ind, v.lean))
                        lines.append("%s| [%s] =>" % (ind, ", ".join("v_" + nm for nm in names)))
                        lines += self.paren(self.block(stmts, env, tv, ind + "  "), ind + "  ")
                        lines.append("%s| _ => .error .valueError" % ind)
                        return lines
                    raise self.err("unpacking a %s: %s" % (v.ty, _d(s)))
                if isinstance(tgt, ast.Subscript) and self.is_table(tgt.value, env):
                    if self.spec["ret"] != "table":
                        raise self.err("updates the version table: %s" % _d(s))
                    k = self.as_string(self.expr(tgt.slice, env, tv))
                    v = self.coerce(self.expr(val, env, tv), "reflist", _d(s))
                    self.emit_hoists(lines, ind)
                    t2 = self.fresh("t")
                    lines.append("%slet %s := pyDictSet %s %s %s" % (ind, t2, tv, k, v))
                    tv = t2
                    continue
                raise self.err("unsupported assignment %s" % _d(s))
            if isinstance(s, ast.Expr) and isinstance(s.value, ast.Call):
                c = s.value
                f = c.func
                # self._VERSIONS[k].append(x) / .sort()
                if (isinstance(f, ast.Attribute) and f.attr in ("append", "sort") and isinstance(f.value, ast.Subscript)
                        and self.is_table(f.value.value, env)):
                    if self.spec["ret"] != "table":
                        raise self.err("updates the version table: %s" % _d(s))
                    if c.keywords:
                        raise self.err("unsupported call %s" % _d(s))
                    k = self.as_string(self.expr(f.value.slice, env, tv))
                    l = self.hoist("pyDictGetItem %s %s" % (tv, k), self.fresh("l"))
                    if f.attr == "append":
                        if len(c.args) != 1:
                            raise self.err("unsupported call %s" % _d(s))
                        x = self.expr(c.args[0], env, tv)
                        if x.ty != "ref":
                            raise self.err("a %s is appended to a version list" % x.ty)
                        new = "(%s ++ [%s])" % (l, x.lean)
                    else:
                        if c.args:
                            raise self.err("unsupported call %s" % _d(s))
                        if not self.ctx.sort_by_ge:
                            raise self.err("list.sort(): PluginRef does not get `<` from total_ordering and __ge__ alone")
                        new = "(pySort Gen.PluginRef.ge %s)" % l
                    self.emit_hoists(lines, ind)
                    t2 = self.fresh("t")
                    lines.append("%slet %s := pyDictSet %s %s %s" % (ind, t2, tv, k, new))
                    tv = t2
                    continue
                # a call of a translated function that updates the table
                if isinstance(f, ast.Name) and f.id in FUNCS and FUNCS[f.id]["ret"] == "table" and f.id not in env:
                    v = self.call(c, env, tv)
                    if not stmts and self.hoists and self.hoists[-1][0] == v.lean:
                        # the last statement: the new table is the function's result
                        _, txt = self.hoists.pop()
                        self.emit_hoists(lines, ind)
                        lines.append("%s%s" % (ind, txt))
                        return lines
                    self.emit_hoists(lines, ind)
                    tv = v.lean
                    continue
                raise self.err("unsupported statement %s" % _d(s))
            raise self.err("unsupported statement %s" % _d(s))
        # control falls off the end: the function returns None
        rty = self.spec["ret"]
        if rty == "table":
            lines.append("%s%s" % (ind, ".ok %s" % tv))
        elif rty in OPT_OF:
            lines.append("%s%s" % (ind, ".ok none" if self.spec["raises"] else "none"))
        else:
            raise self.err("control can fall off the end of the function (returns None, the dictionary says %s)" % rty)
        return lines

    def try_stmt(self, s, rest, env, tv, ind):
        if s.orelse or s.finalbody or len(s.handlers) != 1 or len(s.body) != 1:
            raise self.err("unsupported try statement (one statement, one handler, no else/finally expected)")
        h = s.handlers[0]
        if not (isinstance(h.type, ast.Name) and h.type.id in EXC and h.name is None):
            raise self.err("unsupported except clause %s" % _d(h))
        ap = self.assign_parts(s.body[0])
        if not ap or not isinstance(ap[0], ast.Name):
            raise self.err("the body of the try statement is not `x = f(..)`: %s" % _d(s.body[0]))
        lines = []
        n0 = len(self.hoists)
        v = self.expr(ap[1], env, tv)
        new = self.hoists[n0:]
        if len(new) != 1 or new[0][0] != v.lean:
            raise self.err("the statement guarded by try is not a single call that may raise: %s" % _d(s.body[0]))
        del self.hoists[n0:]
        self.emit_hoists(lines, ind)
        call = new[0][1]
        lines.append("%smatch %s with" % (ind, call))
        lines.append("%s| .error %s =>" % (ind, EXC[h.type.id]))
        lines += self.paren(self.block(list(h.body) + rest, env, tv, ind + "  "), ind + "  ")
        lines.append("%s| .error e => .error e" % ind)
        lines.append("%s| .ok %s =>" % (ind, v.lean))
        env2 = dict(env)
        body_lines = []
        self.bind(ap[0].id, v, env2, body_lines, ind + "  ")
        body_lines += self.block(rest, env2, tv, ind + "  ")
        lines += self.paren(body_lines, ind + "  ")
        return lines

    # ---- generator functions
    def gen_block(self, stmts, env, tv):
        parts = []
        for s in stmts:
            if isinstance(s, ast.Pass) or (isinstance(s, ast.Expr) and isinstance(s.value, ast.Constant)):
                continue
            if isinstance(s, ast.Expr) and isinstance(s.value, ast.YieldFrom):
                v = self.expr(s.value.value, env, tv)
                if v.ty != "reflist":
                    raise self.err("yield from a %s" % v.ty)
                parts.append(v.lean)
                continue
            if isinstance(s, ast.Expr) and isinstance(s.value, ast.Yield) and s.value.value is not None:
                v = self.expr(s.value.value, env, tv)
                if v.ty != "ref":
                    raise self.err("yields a %s" % v.ty)
                parts.append("[%s]" % v.lean)
                continue
            if isinstance(s, ast.For) and isinstance(s.target, ast.Name) and not s.orelse:
                it = self.expr(s.iter, env, tv)
                elem = {"reflists": "reflist", "reflist": "ref"}.get(it.ty)
                if elem is None:
                    raise self.err("a loop over a %s" % it.ty)
                x = "v_" + s.target.id
                env2 = dict(env)
                env2[s.target.id] = V(x, elem)
                parts.append("((%s).flatMap (fun %s => %s))" % (it.lean, x, self.gen_block(s.body, env2, tv)))
                continue
            raise self.err("unsupported statement in a generator: %s" % _d(s))
        if self.hoists:
            raise self.err("a call that may raise inside a generator")
        if not parts:
            return "([] : List Ref)"
        return parts[0] if len(parts) == 1 else "(" + " ++ ".join(parts) + ")"


# --------------------------------------------------------------------------- functions
def _one_def(body, name, what):
    fns = [n for n in body if isinstance(n, (ast.FunctionDef, ast.AsyncFunctionDef)) and n.name == name]
    # typing.overload stubs are not definitions
    real = [n for n in fns if not any((isinstance(d, ast.Name) and d.id == "overload") or (isinstance(d, ast.Attribute) and d.attr == "overload")
                                      for d in n.decorator_list)]
    if len(real) != 1 or not isinstance(real[0], ast.FunctionDef):
        raise TranslateError("%d definitions of %s in %s" % (len(real), name, what))
    if real[0].decorator_list:
        raise TranslateError("%s is decorated" % name)
    if fns[-1] is not real[0]:
        raise TranslateError("%s: an @overload stub follows the definition" % name)
    return real[0]


def _const_default(e, fn):
    if isinstance(e, ast.Constant) and e.value is None:
        return V("none", "none")
    if isinstance(e, ast.Constant) and e.value in (True, False) and isinstance(e.value, bool):
        return V("true" if e.value else "false", "bool")
    raise TranslateError("%s: unsupported default %s" % (fn.name, _d(e)))


def gen_function(pyname, fn, ctx, outer_env=None):
    spec = FUNCS[pyname]
    a = fn.args
    if a.vararg or a.kwarg or a.posonlyargs:
        raise TranslateError("%s: unsupported parameter list" % pyname)
    names = [x.arg for x in a.args]
    ptys = list(spec["params"])
    if spec["where"] == "group":
        if not names:
            raise TranslateError("%s: no self parameter" % pyname)
        self_name, names = names[0], names[1:]
    if len(names) != len(ptys):
        raise TranslateError("%s: expected %d parameters, found %d" % (pyname, len(ptys), len(names)))
    kwonly = [x.arg for x in a.kwonlyargs]
    if len(kwonly) != len(spec.get("kwonly", [])):
        raise TranslateError("%s: expected %d keyword-only parameters, found %d" % (pyname, len(spec.get("kwonly", [])), len(kwonly)))
    # defaults (used at call sites inside the translated code)
    defaults = {}
    off = len(a.args) - len(a.defaults) - (1 if spec["where"] == "group" else 0)
    for i, dflt in enumerate(a.defaults):
        defaults[off + i] = _const_default(dflt, fn)
    for nm, dflt in zip(kwonly, a.kw_defaults):
        if dflt is not None:
            defaults[nm] = _const_default(dflt, fn)
    ctx.defaults[pyname] = defaults
    ctx.kwonly_names[pyname] = kwonly
    tr = Fn(pyname, spec, ctx)
    tr.analyse_skips(fn)
    env, params = {}, []
    uses_group = spec["where"] != "types"
    if uses_group:
        params += [("grp", "String"), ("isBase", "Bool"), ("t0", "Table")]
    if spec["where"] == "group":
        env[self_name] = V(None, "group")
    for o in spec.get("outer", []):
        if outer_env is None or o not in outer_env:
            raise TranslateError("%s: the enclosing function has no parameter %s" % (pyname, o))
        env[outer_env[o][0]] = V("v_" + outer_env[o][0], outer_env[o][1])
        params.append(("v_" + outer_env[o][0], LEAN_TY[outer_env[o][1]]))
        env[o] = env[outer_env[o][0]]
    if outer_env is not None:
        for k, (nm, ty) in outer_env.items():
            if ty == "group":
                env[nm] = V(None, "group")
    for n, t in zip(names, ptys):
        if t == "group":
            env[n] = V(None, "group")
        elif t == "opaque":
            pass
        else:
            env[n] = V("v_" + n, t)
            params.append(("v_" + n, LEAN_TY[t]))
    for n, t in zip(kwonly, spec.get("kwonly", [])):
        env[n] = V("v_" + n, t)
        params.append(("v_" + n, LEAN_TY[t]))
    for n, t in spec.get("extra", []):
        env[n] = V(n, "bool")
        params.append((n, t))
    for x in ast.walk(fn):
        if isinstance(x, (ast.While, ast.With, ast.Global, ast.Nonlocal, ast.Delete, ast.Lambda, ast.ClassDef, ast.Await,
                          ast.Import, ast.ImportFrom, ast.AsyncFunctionDef, ast.Assert)):
            raise TranslateError("%s: unsupported construct %s" % (pyname, type(x).__name__))
        if isinstance(x, ast.FunctionDef) and x is not fn and not (x.name in FUNCS and FUNCS[x.name]["where"] == "util-inner"):
            raise TranslateError("%s: unsupported inner function %s" % (pyname, x.name))
    body = strip_doc(list(fn.body))
    lrty = LEAN_TY[spec["ret"]]
    if spec["raises"]:
        lrty = "Except PyErr %s" % (lrty if " " not in lrty or lrty.startswith("(") else "(%s)" % lrty)
    if spec.get("generator"):
        text = "  " + tr.gen_block(body, env, "t0")
    else:
        if any(isinstance(x, (ast.Yield, ast.YieldFrom, ast.For)) for x in ast.walk(fn)):
            raise TranslateError("%s: unsupported construct (loop / yield)" % pyname)
        text = "\n".join(tr.block(body, env, "t0", "  "))
    sig = " ".join("(%s : %s)" % p for p in params)
    return "/-- `%s` -/\ndef %s %s : %s :=\n%s\n" % (pyname, spec["lean"], sig, lrty, text), env, names, kwonly


def sort_uses_ge():
    """`list.sort()` compares with `<`; it is `_lt_from_ge` iff PluginRef is decorated with total_ordering and
    defines `__ge__` but not `__lt__` (the methods themselves: Gen/PluginRef.lean)"""
    cls = find_class(_src(PLUGINS), "PluginRef")
    cmps = [n.name for n in cls.body if isinstance(n, ast.FunctionDef) and n.name in ("__lt__", "__le__", "__gt__", "__ge__")]
    deco = any((isinstance(d, ast.Name) and d.id == "total_ordering") or (isinstance(d, ast.Attribute) and d.attr == "total_ordering")
               for d in cls.decorator_list)
    return deco and cmps == ["__ge__"]


def gen_plugingroupfns():
    """(Lean text, [messages about what could not be translated]); a function that cannot be translated is
    left out (a comment says why) so that only the bridge theorems about it fail to build"""
    out, errors = [HEADER], []
    available = set()

    def attempt(what, f):
        try:
            out.append(f())
            return True
        except TranslateError as e:
            msg = str(e) if str(e).startswith(what + ":") else "%s: %s" % (what, e)
            errors.append(msg)
            out.append("/-! NOT TRANSLATED %s -/\n" % msg.replace("-/", "- /"))
            return False

    try:
        ttree = _src(TYPES)
        consts = module_str_constants(ttree)
        fm = fullmatch_classes(ttree, consts)
    except TranslateError as e:
        errors.append("plugin/types.py: %s" % e)
        out.append("/-! NOT TRANSLATED plugin/types.py: %s -/\n" % str(e).replace("-/", "- /"))
        ttree, consts, fm = None, {}, {}
    ctx = Group(consts, fm, available, {})
    ctx.kwonly_names = {}
    ctx.used_patterns = set()
    try:
        ctx.sort_by_ge = sort_uses_ge()
    except TranslateError:
        ctx.sort_by_ge = False

    # translate the functions first (this tells which constants are used as strings / which patterns are needed)
    chunks = {}

    def function_chunks(names, body, what, outer=None):
        for name in names:
            def one(name=name):
                fn = _one_def(body, name, what)
                txt, env, pnames, kwonly = gen_function(name, fn, ctx, outer)
                chunks[name] = (txt, fn, env, pnames, kwonly)
                return txt
            buf = []
            try:
                buf.append(one())
                available.add(name)
            except TranslateError as e:
                msg = str(e) if str(e).startswith(name + ":") else "%s: %s" % (name, e)
                errors.append(msg)
                buf.append("/-! NOT TRANSLATED %s -/\n" % msg.replace("-/", "- /"))
            chunks.setdefault(name, (buf[0],))
            fn_texts.append(buf[0])

    fn_texts = []
    if ttree is not None:
        function_chunks([n for n in ORDER if FUNCS[n]["where"] == "types"], ttree.body, "plugin/types.py")
    try:
        itree = _src(IFACE)
        cls = find_class(itree, "PluginGroup")
        function_chunks([n for n in ORDER if FUNCS[n]["where"] == "group"], cls.body, "class PluginGroup")
    except TranslateError as e:
        errors.append("plugin/interface.py: %s" % e)
        fn_texts.append("/-! NOT TRANSLATED plugin/interface.py: %s -/\n" % str(e).replace("-/", "- /"))
    try:
        utree = _src(UTIL)
        outer = _one_def(utree.body, "register_in_group", "plugin/util.py")
        onames = [x.arg for x in outer.args.args]
        okw = [x.arg for x in outer.args.kwonlyargs]
        if len(onames) != 2 or len(okw) != 1:
            raise TranslateError("register_in_group: expected (pgroup, plugin=None, *, violently=False)")
        outer_env = {"violently": (okw[0], "bool"), "pgroup": (onames[0], "group")}
        inner_defs = [n for n in outer.body if isinstance(n, ast.FunctionDef)]
        function_chunks(["manual_register"], inner_defs, "register_in_group", outer_env)
        function_chunks(["register_in_group"], utree.body, "plugin/util.py")
    except TranslateError as e:
        errors.append("plugin/util.py: %s" % e)
        fn_texts.append("/-! NOT TRANSLATED plugin/util.py: %s -/\n" % str(e).replace("-/", "- /"))

    # constants: the patterns of the FullMatch classes that are used, every constant they are built from
    # (each parsed on its own), the constants used as strings
    needed = []

    def need(name):
        if name in needed or name not in consts:
            return
        for d in consts[name][1]:
            need(d)
        needed.append(name)

    for cname in sorted(ctx.used_patterns):
        if fm[cname][0]:
            need(fm[cname][0])
    for name in needed:
        if name in ctx.used_str_consts:
            continue
        attempt(name, lambda name=name: "/-- `%s = %r` (plugin/types.py), as a pattern -/\ndef %s : Re :=\n  %s\n" % (
            name, consts[name][0], name, regex_to_lean(consts[name][0], name)))
    for name in sorted(ctx.used_str_consts):
        attempt(name, lambda name=name: "/-- `%s` (plugin/types.py) -/\ndef %s : Str := %s\n" % (name, name, lean_str(consts[name][0])))
    for cname in sorted(ctx.used_patterns):
        pconst, text = fm[cname]

        def pat(cname=cname, pconst=pconst, text=text):
            if pconst and pconst not in ctx.used_str_consts:
                return "/-- `class %s(FullMatch, pattern=%s)` -/\ndef %s_pattern : Re := %s\n" % (cname, pconst, cname, pconst)
            return "/-- `class %s(FullMatch, pattern=%r)` -/\ndef %s_pattern : Re :=\n  %s\n" % (cname, text, cname, regex_to_lean(text, cname))
        attempt("class " + cname, pat)
    out += fn_texts
    out.append("end MetadorModel.Gen.PluginGroupFns\n")
    return "\n".join(out), errors


def write(lean_mod):
    text, errors = gen_plugingroupfns()
    changed = lean_mod.write_if_changed(os.path.join(lean_mod.LEAN, *GEN_REL), text)
    if errors:
        raise TranslateError("; ".join(errors))
    return "Gen/PluginGroupFns.lean %s (%d lines; %d functions, %d constants)" % (
        "rewritten" if changed else "unchanged", text.count("\n"), text.count("\ndef ") - text.count(" : Re :=") - text.count(" : Str :="),
        text.count(" : Re :=") + text.count(" : Str :="))


def write_stub(lean_mod, why):
    """after a failed translation: leave no text of an earlier run (possibly of another tree) behind"""
    text = HEADER + "\n/-! NOT TRANSLATED: %s -/\n\nend MetadorModel.Gen.PluginGroupFns\n" % str(why).replace("-/", "- /")
    lean_mod.write_if_changed(os.path.join(lean_mod.LEAN, *GEN_REL), text)


if __name__ == "__main__":
    _t, _e = gen_plugingroupfns()
    print(_t)
    for _m in _e:
        print("-- NOT TRANSLATED:", _m)
