"""Verification harness for metador-core (Lean 4 models + correspondence with the real code)."""
